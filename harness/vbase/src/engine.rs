//! Search engine shared by all checks: choice sequences driven by proptest (generation from
//! proptest's RNG, shrinking through a proptest `ValueTree`), sharded over threads, with
//! measured statistics, known-finding handling, replay files and evidence output.

use std::cell::RefCell;
use std::collections::{BTreeMap, HashSet};
use std::hash::{Hash, Hasher};
use std::panic::{catch_unwind, AssertUnwindSafe};
use std::sync::atomic::{AtomicBool, AtomicU64, Ordering};
use std::sync::Mutex;
use std::time::Instant;

use proptest::prelude::RngCore;
use proptest::strategy::{NewTree, Strategy, ValueTree};
use proptest::test_runner::{Config, RngSeed, TestCaseError, TestError, TestRunner};

use crate::refjson::show_bytes;

// ------------------------------------------------------------------------------------------
// choice source

/// Reads structured choices out of a byte string. Running out of bytes yields zeros, and every
/// decoder maps 0 to its simplest alternative, so shorter / smaller sequences are simpler cases.
pub struct Src<'a> {
    data: &'a [u8],
    pos: usize,
}

impl<'a> Src<'a> {
    pub fn new(data: &'a [u8]) -> Self {
        Src { data, pos: 0 }
    }
    pub fn exhausted(&self) -> bool {
        self.pos >= self.data.len()
    }
    pub fn consumed(&self) -> usize {
        self.pos
    }
    #[inline]
    pub fn byte(&mut self) -> u8 {
        let b = self.data.get(self.pos).copied().unwrap_or(0);
        self.pos += 1;
        b
    }
    pub fn u16(&mut self) -> u16 {
        ((self.byte() as u16) << 8) | self.byte() as u16
    }
    pub fn u32(&mut self) -> u32 {
        ((self.u16() as u32) << 16) | self.u16() as u32
    }
    pub fn u64(&mut self) -> u64 {
        ((self.u32() as u64) << 32) | self.u32() as u64
    }
    /// uniform-ish in 0..n, monotone in the consumed bytes (so shrinking bytes shrinks the value)
    pub fn below(&mut self, n: usize) -> usize {
        if n <= 1 {
            return 0;
        }
        if n <= 256 {
            (self.byte() as usize * n) >> 8
        } else if n <= 65536 {
            (self.u16() as usize * n) >> 16
        } else {
            ((self.u32() as u64 * n as u64) >> 32) as usize
        }
    }
    pub fn range(&mut self, lo: usize, hi_incl: usize) -> usize {
        lo + self.below(hi_incl - lo + 1)
    }
    pub fn bool(&mut self) -> bool {
        self.byte() >= 128
    }
    /// true with probability ~ num/256
    pub fn chance(&mut self, num: u8) -> bool {
        let b = self.byte();
        b != 0 && b >= (255 - num + 1).max(1)
    }
    pub fn pick<'t, T>(&mut self, xs: &'t [T]) -> &'t T {
        &xs[self.below(xs.len())]
    }
    /// weighted choice: returns index; weights need not sum to anything particular
    pub fn weighted(&mut self, weights: &[u32]) -> usize {
        let total: u32 = weights.iter().sum();
        let mut r = self.below(total as usize) as u32;
        for (i, w) in weights.iter().enumerate() {
            if r < *w {
                return i;
            }
            r -= *w;
        }
        weights.len() - 1
    }
    pub fn rest(&mut self) -> &'a [u8] {
        let r = &self.data[self.pos.min(self.data.len())..];
        self.pos = self.data.len();
        r
    }
    pub fn take(&mut self, n: usize) -> Vec<u8> {
        (0..n).map(|_| self.byte()).collect()
    }
}

// ------------------------------------------------------------------------------------------
// proptest strategy for choice sequences

#[derive(Debug, Clone)]
pub struct Choices {
    pub min_len: usize,
    pub max_len: usize,
}

pub struct ChoiceTree {
    best: Vec<u8>,
    cand: Vec<u8>,
    // shrink cursor
    pass: u8,
    chunk: usize,
    idx: usize,
    started: bool,
    proposals: usize,
}

impl Strategy for Choices {
    type Tree = ChoiceTree;
    type Value = Vec<u8>;
    fn new_tree(&self, runner: &mut TestRunner) -> NewTree<Self> {
        let rng = runner.rng();
        // length distribution: mostly moderately long, sometimes short
        let span = (self.max_len - self.min_len) as u32 + 1;
        let sel = rng.next_u32();
        let len = match sel % 8 {
            0 => self.min_len + (rng.next_u32() % span.min(16)) as usize,
            1 | 2 => self.min_len + (rng.next_u32() % span.min(64)) as usize,
            3 | 4 => self.min_len + (rng.next_u32() % span.min(256)) as usize,
            _ => self.min_len + (rng.next_u32() % span) as usize,
        };
        let mut v = vec![0u8; len];
        rng.fill_bytes(&mut v);
        // byte-value shaping: a share of zero / small bytes makes "simple" choices frequent
        let shape = rng.next_u32() % 4;
        if shape == 0 {
            for b in v.iter_mut() {
                if *b & 3 == 0 {
                    *b = 0;
                }
            }
        }
        Ok(ChoiceTree { best: v.clone(), cand: v, pass: 0, chunk: 0, idx: 0, started: false, proposals: 0 })
    }
}

impl ChoiceTree {
    /// produce the next candidate from `best` according to the cursor; false if none left
    fn propose(&mut self) -> bool {
        const MAX_PROPOSALS: usize = 6000;
        loop {
            if self.proposals >= MAX_PROPOSALS {
                self.cand = self.best.clone();
                return false;
            }
            let n = self.best.len();
            match self.pass {
                // pass 0: truncate to prefixes (halving)
                0 => {
                    if !self.started {
                        self.started = true;
                        self.chunk = n / 2;
                    }
                    if self.chunk == 0 || n == 0 {
                        self.pass = 1;
                        self.chunk = 0;
                        self.idx = 0;
                        continue;
                    }
                    let keep = n - self.chunk;
                    self.cand = self.best[..keep].to_vec();
                    // next time: smaller cut if this one is rejected (handled in reject())
                    self.proposals += 1;
                    return true;
                }
                // pass 1: delete chunks of size chunk at idx
                1 => {
                    if self.chunk == 0 {
                        self.chunk = (n / 4).max(1).min(64);
                        self.idx = 0;
                    }
                    if self.idx + self.chunk > n {
                        if self.chunk == 1 {
                            self.pass = 2;
                            self.idx = 0;
                            continue;
                        }
                        self.chunk /= 2;
                        self.idx = 0;
                        continue;
                    }
                    let mut c = Vec::with_capacity(n - self.chunk);
                    c.extend_from_slice(&self.best[..self.idx]);
                    c.extend_from_slice(&self.best[self.idx + self.chunk..]);
                    self.cand = c;
                    self.proposals += 1;
                    return true;
                }
                // pass 2: zero a byte
                2 => {
                    while self.idx < n && self.best[self.idx] == 0 {
                        self.idx += 1;
                    }
                    if self.idx >= n {
                        self.pass = 3;
                        self.idx = 0;
                        continue;
                    }
                    let mut c = self.best.clone();
                    c[self.idx] = 0;
                    self.cand = c;
                    self.proposals += 1;
                    return true;
                }
                // pass 3: halve a byte
                3 => {
                    while self.idx < n && self.best[self.idx] <= 1 {
                        self.idx += 1;
                    }
                    if self.idx >= n {
                        self.pass = 4;
                        continue;
                    }
                    let mut c = self.best.clone();
                    c[self.idx] /= 2;
                    self.cand = c;
                    self.proposals += 1;
                    return true;
                }
                _ => {
                    self.cand = self.best.clone();
                    return false;
                }
            }
        }
    }
    /// the candidate was rejected (test passed on it): advance the cursor
    fn advance_after_reject(&mut self) {
        match self.pass {
            0 => self.chunk /= 2,
            1 => self.idx += self.chunk,
            2 | 3 => self.idx += 1,
            _ => {}
        }
    }
    /// the candidate was accepted (still failing): it becomes best; cursor stays where a
    /// retry makes sense
    fn advance_after_accept(&mut self) {
        match self.pass {
            0 => {
                self.chunk = self.best.len() / 2;
            }
            1 => { /* same idx now points at the next chunk */ }
            2 => self.idx += 1,
            3 => { /* try halving the same byte again */ }
            _ => {}
        }
    }
}

impl ValueTree for ChoiceTree {
    type Value = Vec<u8>;
    fn current(&self) -> Vec<u8> {
        self.cand.clone()
    }
    fn simplify(&mut self) -> bool {
        // current candidate failed: accept it
        if self.cand != self.best || !self.started {
            let first = !self.started;
            self.best = self.cand.clone();
            if !first {
                self.advance_after_accept();
            }
        }
        self.propose()
    }
    fn complicate(&mut self) -> bool {
        // current candidate passed: reject it
        if self.pass >= 4 {
            self.cand = self.best.clone();
            return false;
        }
        self.advance_after_reject();
        self.propose()
    }
}

// ------------------------------------------------------------------------------------------
// observations and failures

#[derive(Default)]
pub struct Obs {
    pub nontrivial: bool,
    pub labels: Vec<&'static str>,
    /// extra distinctness key mixed into the case hash (e.g. the path for (input, path) pairs);
    /// a single case evaluation may also register several non-trivial sub-cases
    pub extra_nontrivial: Vec<u64>,
    /// human readable rendering of the case, if the raw bytes are not telling
    pub render: Option<String>,
}

impl Obs {
    pub fn label(&mut self, l: &'static str) {
        self.labels.push(l);
    }
    pub fn nt(&mut self) {
        self.nontrivial = true;
    }
    pub fn nt_key<H: Hash>(&mut self, h: &H) {
        let mut s = std::collections::hash_map::DefaultHasher::new();
        h.hash(&mut s);
        self.extra_nontrivial.push(s.finish());
    }
}

#[derive(Clone, Debug)]
pub struct Fail {
    /// stable class of the failure, computed from the failing case by the sub-check
    pub signature: String,
    pub msg: String,
}

impl Fail {
    pub fn new(sig: impl Into<String>, msg: impl Into<String>) -> Fail {
        Fail { signature: sig.into(), msg: msg.into() }
    }
}

#[macro_export]
macro_rules! fail {
    ($sig:expr, $($arg:tt)*) => {
        return Err($crate::engine::Fail::new($sig, format!($($arg)*)))
    };
}

#[macro_export]
macro_rules! ensure {
    ($cond:expr, $sig:expr, $($arg:tt)*) => {
        if !($cond) {
            return Err($crate::engine::Fail::new($sig, format!($($arg)*)));
        }
    };
}

pub type Oracle<'a> = &'a (dyn Fn(&[u8], &mut Obs) -> Result<(), Fail> + Sync);

pub struct Sub<'a> {
    pub name: &'static str,
    pub oracle: Oracle<'a>,
    /// the case bytes are the input itself, so byte-level minimisation is meaningful
    pub minimise_bytes: bool,
}

#[derive(Clone, Debug)]
pub struct Known {
    pub property: String,
    pub signature: String,
    pub what: String,
    pub replay: Option<String>,
}

#[derive(Clone, Debug)]
pub struct Violation {
    pub sub: String,
    pub signature: String,
    pub msg: String,
    pub case: Vec<u8>,
    pub render: Option<String>,
    pub replay_path: String,
}

#[derive(Clone, Copy, PartialEq, Eq, Debug)]
pub enum Tier {
    Quick,
    Thorough,
}

#[derive(Default)]
struct Stats {
    evaluations: u64,
    nontrivial: HashSet<u64>,
    /// non-trivial cases counted without hashing (sweeps whose cases are distinct by construction)
    nontrivial_by_construction: u64,
    labels: BTreeMap<String, u64>,
    samples: Vec<String>,
    per_sub: BTreeMap<String, (u64, u64)>,
    excluded_known: BTreeMap<String, u64>,
    exhaustive: Vec<String>,
    notes: Vec<String>,
}

pub struct Ctx {
    pub property: String,
    pub tier: Tier,
    pub seed: u64,
    pub config: String,
    /// how many shards may run at the same time (VERIF_THREADS, default: the cores, at most 16)
    pub threads: usize,
    gate: (Mutex<usize>, std::sync::Condvar),
    pub verif_dir: String,
    pub known: Vec<Known>,
    pub strict: bool,
    stats: Mutex<Stats>,
    violations: Mutex<Vec<Violation>>,
    pub stop: AtomicBool,
    inconclusive: Mutex<Vec<String>>,
    start: Instant,
    replay_counter: AtomicU64,
}

thread_local! {
    static LAST_PANIC: RefCell<Option<String>> = const { RefCell::new(None) };
    static QUIET_PANIC: RefCell<bool> = const { RefCell::new(false) };
}

pub fn install_panic_hook() {
    let default = std::panic::take_hook();
    std::panic::set_hook(Box::new(move |info| {
        let quiet = QUIET_PANIC.with(|q| *q.borrow());
        let loc = info.location().map(|l| format!("{}:{}", l.file(), l.line())).unwrap_or_default();
        let msg = if let Some(s) = info.payload().downcast_ref::<&str>() {
            s.to_string()
        } else if let Some(s) = info.payload().downcast_ref::<String>() {
            s.clone()
        } else {
            "<non-string panic>".to_string()
        };
        LAST_PANIC.with(|p| *p.borrow_mut() = Some(format!("{msg} @ {loc}")));
        if !quiet {
            default(info);
        }
    }));
}

/// Run `f`, turning a panic into Err(description). Panics are silenced while inside.
pub fn catch<R>(f: impl FnOnce() -> R) -> Result<R, String> {
    let prev = QUIET_PANIC.with(|q| std::mem::replace(&mut *q.borrow_mut(), true));
    let r = catch_unwind(AssertUnwindSafe(f));
    QUIET_PANIC.with(|q| *q.borrow_mut() = prev);
    match r {
        Ok(v) => Ok(v),
        Err(_) => Err(LAST_PANIC.with(|p| p.borrow_mut().take()).unwrap_or_else(|| "panic".into())),
    }
}

pub fn hash_bytes(b: &[u8]) -> u64 {
    let mut s = std::collections::hash_map::DefaultHasher::new();
    b.hash(&mut s);
    s.finish()
}

/// Per-thread accumulator.
pub struct Local<'c> {
    ctx: &'c Ctx,
    sub_name: &'static str,
    evals: u64,
    nsample: u64,
    nt: HashSet<u64>,
    nt_constr: u64,
    labels: BTreeMap<&'static str, u64>,
    samples: Vec<String>,
    excluded: BTreeMap<String, u64>,
    pub counting: bool,
    pub distinct_by_construction: bool,
}

impl<'c> Local<'c> {
    fn new(ctx: &'c Ctx, sub_name: &'static str) -> Self {
        Local {
            ctx,
            sub_name,
            evals: 0,
            nsample: 0,
            nt: HashSet::new(),
            nt_constr: 0,
            labels: BTreeMap::new(),
            samples: Vec::new(),
            excluded: BTreeMap::new(),
            counting: true,
            distinct_by_construction: false,
        }
    }

    /// Evaluate one case. Ok(()) = held (or a known finding); Err = new violation.
    pub fn eval(&mut self, sub: &Sub, case: &[u8]) -> Result<(), Fail> {
        let mut obs = Obs::default();
        crate::crash::set_current(sub.name, case);
        let r = match catch(|| (sub.oracle)(case, &mut obs)) {
            Ok(r) => r,
            Err(p) => Err(Fail::new(format!("{}/panic", sub.name), format!("panicked: {p}"))),
        };
        crate::crash::clear_current();
        if self.counting {
            // one evaluation per oracle comparison: a case that checks k distinct (input, variant) pairs
            // (paths, target types, writers) counts k executions, so evaluations >= distinct_nontrivial
            self.nsample += 1;
            self.evals += (obs.extra_nontrivial.len() as u64 + obs.nontrivial as u64).max(1);
            let any_nt = obs.nontrivial || !obs.extra_nontrivial.is_empty();
            if self.distinct_by_construction {
                if obs.nontrivial {
                    self.nt_constr += 1;
                }
                self.nt_constr += obs.extra_nontrivial.len() as u64;
            } else {
                let h = hash_bytes(case) ^ hash_bytes(sub.name.as_bytes());
                if obs.nontrivial {
                    self.nt.insert(h);
                }
                for k in &obs.extra_nontrivial {
                    self.nt.insert(h ^ k.rotate_left(17));
                }
            }
            for l in &obs.labels {
                *self.labels.entry(l).or_insert(0) += 1;
            }
            if any_nt && self.samples.len() < 3 && (self.nsample % 7 == 1 || self.samples.is_empty()) {
                let s = obs.render.clone().unwrap_or_else(|| show_bytes(case, 200));
                self.samples.push(format!("{}: {}", sub.name, crate::refjson::trunc(&s, 300)));
            }
        }
        match r {
            Ok(()) => Ok(()),
            Err(f) => {
                if !self.ctx.strict {
                    if let Some(k) = self.ctx.known.iter().find(|k| k.signature == f.signature) {
                        if self.counting {
                            *self.excluded.entry(k.signature.clone()).or_insert(0) += 1;
                        }
                        return Ok(());
                    }
                }
                Err(f)
            }
        }
    }

    fn merge(self) {
        let mut st = self.ctx.stats.lock().unwrap();
        st.evaluations += self.evals;
        let before = st.nontrivial.len() as u64 + st.nontrivial_by_construction;
        st.nontrivial.extend(self.nt);
        st.nontrivial_by_construction += self.nt_constr;
        let after = st.nontrivial.len() as u64 + st.nontrivial_by_construction;
        let e = st.per_sub.entry(self.sub_name.to_string()).or_insert((0, 0));
        e.0 += self.evals;
        e.1 += after - before;
        for (l, c) in self.labels {
            *st.labels.entry(format!("{}:{}", self.sub_name, l)).or_insert(0) += c;
        }
        for (s, c) in self.excluded {
            *st.excluded_known.entry(s).or_insert(0) += c;
        }
        let have = st.samples.iter().filter(|s| s.starts_with(self.sub_name)).count();
        if have < 4 {
            st.samples.extend(self.samples.into_iter().take(4 - have));
        }
    }
}

/// The work of every search and sweep is always dealt to 16 shards (seeds and case order do not depend
/// on the machine); `Ctx::threads` only limits how many of them run at once.
pub const SHARDS: usize = 16;

pub struct Slot<'c>(&'c Ctx);
impl Drop for Slot<'_> {
    fn drop(&mut self) {
        let (m, cv) = &self.0.gate;
        *m.lock().unwrap() -= 1;
        cv.notify_one();
    }
}

impl Ctx {
    fn slot(&self) -> Slot<'_> {
        let (m, cv) = &self.gate;
        let mut n = m.lock().unwrap();
        while *n >= self.threads.max(1) {
            n = cv.wait(n).unwrap();
        }
        *n += 1;
        Slot(self)
    }

    pub fn new(property: &str, tier: Tier, seed: u64, config: &str, verif_dir: &str, known: Vec<Known>) -> Ctx {
        let threads = std::env::var("VERIF_THREADS").ok().and_then(|s| s.parse().ok()).unwrap_or_else(|| {
            std::thread::available_parallelism().map(|n| n.get()).unwrap_or(8).min(16)
        });
        Ctx {
            property: property.to_string(),
            tier,
            seed,
            config: config.to_string(),
            threads,
            gate: (Mutex::new(0), std::sync::Condvar::new()),
            verif_dir: verif_dir.to_string(),
            known,
            strict: false,
            stats: Mutex::new(Stats::default()),
            violations: Mutex::new(Vec::new()),
            stop: AtomicBool::new(false),
            inconclusive: Mutex::new(Vec::new()),
            start: Instant::now(),
            replay_counter: AtomicU64::new(0),
        }
    }

    /// `--sub <name>` restricts a run to one sub-check (development aid)
    pub fn filtered_out(&self, sub: &str) -> bool {
        matches!(std::env::var("VCHECK_ONLY_SUB"), Ok(only) if only != sub)
    }

    pub fn quick(&self) -> bool {
        self.tier == Tier::Quick
    }

    /// pick by tier
    pub fn n(&self, quick: usize, thorough: usize) -> usize {
        if self.quick() {
            quick
        } else {
            thorough
        }
    }

    pub fn note(&self, s: impl Into<String>) {
        self.stats.lock().unwrap().notes.push(s.into());
    }

    pub fn mark_exhaustive(&self, what: impl Into<String>) {
        self.stats.lock().unwrap().exhaustive.push(what.into());
    }

    pub fn inconclusive(&self, why: impl Into<String>) {
        self.inconclusive.lock().unwrap().push(why.into());
    }

    pub fn stopped(&self) -> bool {
        self.stop.load(Ordering::Relaxed)
    }

    fn derive_seed(&self, sub: &str, label: &str, shard: usize) -> u64 {
        let mut s = std::collections::hash_map::DefaultHasher::new();
        self.seed.hash(&mut s);
        self.property.hash(&mut s);
        sub.hash(&mut s);
        label.hash(&mut s);
        shard.hash(&mut s);
        s.finish()
    }

    /// Random search: `cases` choice sequences (split over threads) decoded by `decode` into
    /// case bytes and judged by the sub-check's oracle; failures are shrunk by proptest.
    pub fn search(
        &self,
        sub: &Sub,
        label: &'static str,
        cases: usize,
        max_len: usize,
        decode: &(dyn Fn(&mut Src) -> Vec<u8> + Sync),
    ) {
        if self.stopped() || self.filtered_out(sub.name) {
            return;
        }
        let shards = SHARDS;
        let per = cases.div_ceil(shards);
        std::thread::scope(|sc| {
            for shard in 0..shards {
                let seed = self.derive_seed(sub.name, label, shard);
                std::thread::Builder::new()
                    .stack_size(256 << 20)
                    .spawn_scoped(sc, move || {
                        let _slot = self.slot();
                        let local = RefCell::new(Local::new(self, sub.name));
                        let failed: RefCell<Option<Fail>> = RefCell::new(None);
                        let config = Config {
                            cases: per as u32,
                            failure_persistence: None,
                            rng_seed: RngSeed::Fixed(seed),
                            max_shrink_iters: 8000,
                            max_global_rejects: u32::MAX,
                            ..Config::default()
                        };
                        let mut runner = TestRunner::new(config);
                        let strat = Choices { min_len: 0, max_len };
                        let res = runner.run(&strat, |choices| {
                            if self.stopped() && failed.borrow().is_none() {
                                // another shard found a violation: wind down quickly
                                return Ok(());
                            }
                            let mut src = Src::new(&choices);
                            let case = match catch(|| decode(&mut src)) {
                                Ok(c) => c,
                                Err(p) => {
                                    let f = Fail::new(format!("{}/generator-panic", sub.name), p);
                                    *failed.borrow_mut() = Some(f.clone());
                                    local.borrow_mut().counting = false;
                                    return Err(TestCaseError::fail(f.signature));
                                }
                            };
                            let r = local.borrow_mut().eval(sub, &case);
                            match r {
                                Ok(()) => Ok(()),
                                Err(f) => {
                                    // while shrinking, only accept candidates failing the same way
                                    let mut fl = failed.borrow_mut();
                                    match &*fl {
                                        None => {
                                            *fl = Some(f.clone());
                                            local.borrow_mut().counting = false;
                                            self.stop.store(true, Ordering::Relaxed);
                                            Err(TestCaseError::fail(f.signature))
                                        }
                                        Some(first) if first.signature == f.signature => {
                                            *fl = Some(f.clone());
                                            Err(TestCaseError::fail(f.signature))
                                        }
                                        Some(_) => Ok(()),
                                    }
                                }
                            }
                        });
                        if let Err(TestError::Fail(_, choices)) = res {
                            let mut src = Src::new(&choices);
                            let case = decode(&mut src);
                            let f = failed.borrow().clone().unwrap();
                            self.record_violation(sub, &case, f);
                        } else if let Err(TestError::Abort(r)) = res {
                            self.inconclusive(format!("proptest aborted in {}: {}", sub.name, r));
                        }
                        local.into_inner().merge();
                    })
                    .unwrap();
            }
        });
    }

    /// Deterministic enumeration: `gen(shard, nshards, emit)` calls `emit(case)` for every case
    /// of its shard. `emit` returns false when the sweep should stop.
    pub fn sweep(
        &self,
        sub: &Sub,
        distinct_by_construction: bool,
        gen: &(dyn Fn(usize, usize, &mut dyn FnMut(&[u8]) -> bool) + Sync),
    ) {
        if self.stopped() || self.filtered_out(sub.name) {
            return;
        }
        let shards = SHARDS;
        std::thread::scope(|sc| {
            for shard in 0..shards {
                std::thread::Builder::new()
                    .stack_size(256 << 20)
                    .spawn_scoped(sc, move || {
                        let _slot = self.slot();
                        let mut local = Local::new(self, sub.name);
                        local.distinct_by_construction = distinct_by_construction;
                        let mut emit = |case: &[u8]| -> bool {
                            if self.stopped() {
                                return false;
                            }
                            match local.eval(sub, case) {
                                Ok(()) => true,
                                Err(f) => {
                                    self.stop.store(true, Ordering::Relaxed);
                                    local.counting = false;
                                    let min = if sub.minimise_bytes { self.minimise(sub, &mut local, case, &f) } else { (case.to_vec(), f) };
                                    self.record_violation(sub, &min.0, min.1);
                                    false
                                }
                            }
                        };
                        gen(shard, shards, &mut emit);
                        local.merge();
                    })
                    .unwrap();
            }
        });
    }

    /// Single-threaded evaluation of explicit cases (regression tier, small fixed lists).
    pub fn cases(&self, sub: &Sub, list: &[Vec<u8>]) {
        if self.filtered_out(sub.name) {
            return;
        }
        let mut local = Local::new(self, sub.name);
        for c in list {
            if let Err(f) = local.eval(sub, c) {
                local.counting = false;
                let min = if sub.minimise_bytes { self.minimise(sub, &mut local, c, &f) } else { (c.clone(), f) };
                self.record_violation(sub, &min.0, min.1);
                break;
            }
        }
        local.merge();
    }

    /// byte-level delta debugging that preserves the failure signature
    fn minimise(&self, sub: &Sub, local: &mut Local, case: &[u8], f: &Fail) -> (Vec<u8>, Fail) {
        let mut best = case.to_vec();
        let mut bestf = f.clone();
        let mut budget = 4000usize;
        let mut chunk = (best.len() / 2).max(1);
        while chunk >= 1 && budget > 0 {
            let mut i = 0;
            let mut progressed = false;
            while i + chunk <= best.len() && budget > 0 {
                let mut c = Vec::with_capacity(best.len() - chunk);
                c.extend_from_slice(&best[..i]);
                c.extend_from_slice(&best[i + chunk..]);
                budget -= 1;
                match local.eval(sub, &c) {
                    Err(ff) if ff.signature == f.signature => {
                        best = c;
                        bestf = ff;
                        progressed = true;
                    }
                    _ => i += chunk,
                }
            }
            if chunk == 1 && !progressed {
                break;
            }
            if !progressed || chunk > 1 {
                chunk = if chunk > 1 { chunk / 2 } else { 1 };
            }
        }
        (best, bestf)
    }

    pub fn record_violation(&self, sub: &Sub, case: &[u8], f: Fail) {
        self.stop.store(true, Ordering::Relaxed);
        let mut v = self.violations.lock().unwrap();
        if v.iter().any(|x| x.signature == f.signature) || v.len() >= 8 {
            return;
        }
        let n = self.replay_counter.fetch_add(1, Ordering::Relaxed);
        let dir = format!("{}/replays", self.verif_dir);
        let _ = std::fs::create_dir_all(&dir);
        let sig_slug: String = f.signature.chars().map(|c| if c.is_ascii_alphanumeric() { c } else { '_' }).collect();
        let path = format!("{}/{}-{}-{}-{}-{}.json", dir, self.property, self.config, sig_slug, self.seed, n);
        // render through the oracle once more to get the case description
        let mut obs = Obs::default();
        let _ = catch(|| (sub.oracle)(case, &mut obs));
        let j = serde_json::json!({
            "property": self.property,
            "sub": sub.name,
            "config": self.config,
            "signature": f.signature,
            "message": f.msg,
            "case_hex": hex(case),
            "case_text": show_bytes(case, 2000),
            "render": obs.render,
            "seed": self.seed,
        });
        let _ = std::fs::write(&path, serde_json::to_string_pretty(&j).unwrap());
        v.push(Violation {
            sub: sub.name.to_string(),
            signature: f.signature,
            msg: f.msg,
            case: case.to_vec(),
            render: obs.render,
            replay_path: path,
        });
    }

    /// Replay a stored case strictly (known findings are not tolerated) and report.
    pub fn replay(&self, sub: &Sub, case: &[u8]) -> Result<(), Fail> {
        let mut obs = Obs::default();
        match catch(|| (sub.oracle)(case, &mut obs)) {
            Ok(r) => r,
            Err(p) => Err(Fail::new(format!("{}/panic", sub.name), format!("panicked: {p}"))),
        }
    }

    pub fn violations(&self) -> Vec<Violation> {
        self.violations.lock().unwrap().clone()
    }

    pub fn inconclusive_reasons(&self) -> Vec<String> {
        self.inconclusive.lock().unwrap().clone()
    }

    pub fn add_raw_evaluations(&self, sub: &str, evals: u64, nontrivial: u64, label_counts: &[(&str, u64)], samples: Vec<String>) {
        let mut st = self.stats.lock().unwrap();
        st.evaluations += evals;
        st.nontrivial_by_construction += nontrivial;
        let e = st.per_sub.entry(sub.to_string()).or_insert((0, 0));
        e.0 += evals;
        e.1 += nontrivial;
        for (l, c) in label_counts {
            *st.labels.entry(format!("{sub}:{l}")).or_insert(0) += c;
        }
        let have = st.samples.iter().filter(|s| s.starts_with(sub)).count();
        if have < 4 {
            st.samples.extend(samples.into_iter().take(4 - have).map(|s| format!("{sub}: {s}")));
        }
    }

    /// Evidence fragment for this (property, config) run.
    pub fn evidence(&self, rule: &str, assumptions: &[&str], known_lines: &[String]) -> serde_json::Value {
        let st = self.stats.lock().unwrap();
        let v = self.violations.lock().unwrap();
        let per_sub: serde_json::Map<String, serde_json::Value> = st
            .per_sub
            .iter()
            .map(|(k, (e, n))| (k.clone(), serde_json::json!({"evaluations": e, "distinct_nontrivial": n})))
            .collect();
        serde_json::json!({
            "property_id": self.property,
            "tier": if self.quick() { "quick" } else { "thorough" },
            "seed": self.seed,
            "level": "exploration",
            "coverage": {
                "evaluations": st.evaluations,
                "distinct_nontrivial": st.nontrivial.len() as u64 + st.nontrivial_by_construction,
                "rule": rule,
                "samples": st.samples,
                "labels": st.labels,
                "per_subcheck": per_sub,
                "exhaustive": !st.exhaustive.is_empty(),
                "exhaustive_subspaces": st.exhaustive,
                "excluded_known": st.excluded_known,
                "known_findings_reported": known_lines,
                "builds": [self.config.clone()],
                "notes": st.notes,
                "inconclusive": *self.inconclusive.lock().unwrap(),
            },
            "assumptions": assumptions,
            "wall_s": self.start.elapsed().as_secs_f64(),
            "violations": v.len(),
        })
    }

    /// Run `body` on `threads` threads with shard indices; generic helper for custom loops.
    pub fn par(&self, body: &(dyn Fn(usize, usize) + Sync)) {
        let shards = SHARDS;
        std::thread::scope(|sc| {
            for shard in 0..shards {
                std::thread::Builder::new().stack_size(256 << 20).spawn_scoped(sc, move || {
                    let _slot = self.slot();
                    body(shard, shards)
                }).unwrap();
            }
        });
    }

    pub fn local<'c>(&'c self, sub_name: &'static str) -> Local<'c> {
        Local::new(self, sub_name)
    }
}

impl<'c> Local<'c> {
    pub fn finish(self) {
        self.merge()
    }
}

pub fn hex(b: &[u8]) -> String {
    let mut s = String::with_capacity(b.len() * 2);
    for c in b {
        s.push_str(&format!("{c:02x}"));
    }
    s
}

pub fn unhex(s: &str) -> Vec<u8> {
    (0..s.len() / 2).map(|i| u8::from_str_radix(&s[2 * i..2 * i + 2], 16).unwrap_or(0)).collect()
}

/// Load /verif/known_findings.jsonl (read-only at run time).
pub fn load_known(verif_dir: &str, property: &str) -> Vec<Known> {
    let path = format!("{verif_dir}/known_findings.jsonl");
    let Ok(text) = std::fs::read_to_string(&path) else { return Vec::new() };
    let mut out = Vec::new();
    for line in text.lines() {
        let line = line.trim();
        if line.is_empty() || line.starts_with('#') || line.starts_with("fixed:") {
            continue;
        }
        let Ok(v) = serde_json::from_str::<serde_json::Value>(line) else { continue };
        if v["status"] != "known" || v["property"] != property {
            continue;
        }
        out.push(Known {
            property: property.to_string(),
            signature: v["signature"].as_str().unwrap_or("").to_string(),
            what: v["what"].as_str().unwrap_or("").to_string(),
            replay: v["replay"].as_str().map(|s| s.to_string()),
        });
    }
    out
}

#[allow(dead_code)]
pub fn unused(_: &AtomicU64) {}
