//! Generators: JSON documents with independent layout, string/number literal generators,
//! mutators, token-sequence enumerators. All random choices come from a `Src` (choice
//! sequence produced by proptest's RNG), 0 being the simplest alternative everywhere.

use crate::engine::Src;

#[derive(Clone, Debug)]
pub struct DocParams {
    pub max_depth: usize,
    pub max_items: usize,
    /// 0 = compact, 1 = light whitespace, 2 = heavy whitespace (long runs crossing SIMD blocks)
    pub ws: u8,
    pub dup_keys: bool,
    /// allow number literals that overflow f64 (only for skip-level acceptance checks)
    pub allow_inf: bool,
    /// allow lone surrogate escapes (accepted by skippers only)
    pub allow_lone_surrogates: bool,
    /// max alignment prefix of spaces before the document
    pub align: usize,
    /// newline-heavy layout (C20)
    pub multiline: bool,
    /// probability shaping: more strings with tricky content
    pub tricky_strings: bool,
    pub long_strings: bool,
    pub non_ascii: bool,
    pub escaped_keys: bool,
}

impl Default for DocParams {
    fn default() -> Self {
        DocParams {
            max_depth: 6,
            max_items: 6,
            ws: 1,
            dup_keys: false,
            allow_inf: false,
            allow_lone_surrogates: false,
            align: 64,
            multiline: false,
            tricky_strings: true,
            long_strings: true,
            non_ascii: true,
            escaped_keys: true,
        }
    }
}

pub fn gen_ws(src: &mut Src, p: &DocParams, out: &mut Vec<u8>) {
    if p.ws == 0 {
        return;
    }
    let c = src.byte();
    if p.multiline {
        match c % 8 {
            0 | 1 => {}
            2 => out.push(b' '),
            3 | 4 => out.push(b'\n'),
            5 => out.extend_from_slice(b"\r\n"),
            6 => out.extend_from_slice(b"\n  "),
            _ => out.extend_from_slice(b"\n\n\t"),
        }
        return;
    }
    match c {
        0..=119 => {}
        120..=179 => out.push(b' '),
        180..=199 => out.push(b'\n'),
        200..=209 => out.push(b'\t'),
        210..=219 => out.extend_from_slice(b"\r\n"),
        220..=234 => out.extend_from_slice(b"  "),
        235..=244 => out.extend_from_slice(b" \n\t"),
        _ => {
            if p.ws >= 2 {
                let k = *src.pick(&[3usize, 7, 15, 16, 17, 31, 32, 33, 62, 63, 64, 65, 66, 127, 128, 129, 130]);
                let ch = *src.pick(&[b' ', b' ', b'\n', b'\t', b'\r']);
                for i in 0..k {
                    out.push(if i % 5 == 4 { ch } else { b' ' });
                }
            } else {
                out.extend_from_slice(b"   ");
            }
        }
    }
}

const LEN_CLASSES: &[usize] = &[0, 1, 2, 3, 5, 8, 14, 15, 16, 17, 30, 31, 32, 33, 34, 47, 62, 63, 64, 65, 66, 95, 96, 97, 127, 128, 129, 130, 200, 257];

/// Generate the inside of a well-formed string literal (bytes between the quotes).
pub fn gen_string_inner(src: &mut Src, p: &DocParams, out: &mut Vec<u8>) {
    let style = src.byte();
    // simple short ascii most of the time
    if style < 90 {
        let n = src.below(8);
        for _ in 0..n {
            out.push(b'a' + (src.byte() % 26));
        }
        return;
    }
    let target = if p.long_strings && style >= 200 { *src.pick(LEN_CLASSES) } else { src.below(24) };
    let start = out.len();
    // number of "features" to sprinkle
    let nfeat = 1 + src.below(4);
    let mut feature_pos: Vec<usize> = (0..nfeat).map(|_| src.below(target + 1)).collect();
    feature_pos.sort();
    let mut fi = 0;
    let mut produced = 0usize;
    loop {
        while fi < feature_pos.len() && feature_pos[fi] <= produced {
            gen_string_feature(src, p, out);
            fi += 1;
        }
        if produced >= target {
            break;
        }
        out.push(if style & 1 == 0 { b'a' } else { b'a' + (produced % 26) as u8 });
        produced += 1;
    }
    let _ = start;
}

fn push_u_escape(out: &mut Vec<u8>, v: u32, upper: bool) {
    let s = if upper { format!("\\u{v:04X}") } else { format!("\\u{v:04x}") };
    out.extend_from_slice(s.as_bytes());
}

pub fn gen_string_feature(src: &mut Src, p: &DocParams, out: &mut Vec<u8>) {
    let k = src.below(if p.tricky_strings { 20 } else { 12 });
    match k {
        0 => out.extend_from_slice(b"\\\""),
        1 => out.extend_from_slice(b"\\\\"),
        2 => {
            let e = *src.pick(&[b'/', b'b', b'f', b'n', b'r', b't']);
            out.push(b'\\');
            out.push(e);
        }
        3 => {
            // BMP \u escape, not a surrogate; often a boundary of the UTF-8 encoding lengths / of the surrogate gap
            let mut v = if src.chance(90) { *src.pick(&[0x0u32, 0x1f, 0x20, 0x22, 0x5c, 0x7f, 0x80, 0x7ff, 0x800, 0xfff, 0x1000, 0xd7ff, 0xe000, 0xfffd, 0xfffe, 0xffff]) } else { src.u16() as u32 };
            if (0xD800..0xE000).contains(&v) {
                v -= 0x800;
            }
            let up = src.bool();
            push_u_escape(out, v, up);
        }
        4 => {
            // surrogate pair
            let cp = if src.chance(60) { *src.pick(&[0x10000u32, 0x10001, 0x1ffff, 0x20000, 0xfffff, 0x100000, 0x10fffe, 0x10ffff]) } else { 0x10000 + (src.u32() % 0x100000) };
            let h = 0xD800 + ((cp - 0x10000) >> 10);
            let l = 0xDC00 + ((cp - 0x10000) & 0x3FF);
            let up = src.bool();
            push_u_escape(out, h, up);
            push_u_escape(out, l, !up);
        }
        5 if p.non_ascii => {
            let ch = *src.pick(&['é', 'ß', 'Ω', 'ж', '\u{80}', '\u{7ff}']);
            let mut b = [0u8; 4];
            out.extend_from_slice(ch.encode_utf8(&mut b).as_bytes());
        }
        6 if p.non_ascii => {
            let ch = *src.pick(&['中', '€', '\u{800}', '\u{ffff}', '\u{fffd}', '\u{d7ff}', '\u{e000}']);
            let mut b = [0u8; 4];
            out.extend_from_slice(ch.encode_utf8(&mut b).as_bytes());
        }
        7 if p.non_ascii => {
            let ch = *src.pick(&['😀', '\u{10000}', '\u{10ffff}', '𝄞']);
            let mut b = [0u8; 4];
            out.extend_from_slice(ch.encode_utf8(&mut b).as_bytes());
        }
        8 => out.extend_from_slice(b"\\u0000"),
        9 => out.push(0x7f),
        10 => out.push(b' '),
        11 => out.push(b'/'),
        // tricky: structural characters inside strings
        12 => out.push(*src.pick(&[b'[', b']', b'{', b'}', b',', b':'])),
        13 => {
            // run of escaped backslashes then an escaped quote
            let n = src.below(4);
            for _ in 0..n {
                out.extend_from_slice(b"\\\\");
            }
            out.extend_from_slice(b"\\\"");
        }
        14 => {
            let n = 1 + src.below(3);
            for _ in 0..n {
                out.extend_from_slice(b"\\\\");
            }
        }
        15 => out.extend_from_slice(b"]}\\\"{["),
        16 => out.extend_from_slice(b"\\\\\\\""),
        17 => out.extend_from_slice(b"null,true"),
        18 if p.allow_lone_surrogates => {
            let v = 0xD800 + (src.u16() as u32 % 0x800);
            push_u_escape(out, v, false);
        }
        _ => out.push(b'x'),
    }
}

pub fn gen_key_inner(src: &mut Src, p: &DocParams, out: &mut Vec<u8>) {
    let c = src.byte();
    match c {
        0..=159 => {
            let n = 1 + src.below(4);
            for _ in 0..n {
                out.push(b'a' + (src.byte() % 6));
            }
        }
        160..=169 => {}
        170..=199 => {
            out.push(b'k');
            let n = src.below(100);
            out.extend_from_slice(n.to_string().as_bytes());
        }
        _ => {
            if p.escaped_keys {
                gen_string_inner(src, p, out)
            } else {
                out.extend_from_slice(b"key");
            }
        }
    }
}

/// Number literal generator (well-formed by construction). `allow_inf`: may overflow f64.
pub fn gen_number(src: &mut Src, allow_inf: bool, out: &mut Vec<u8>) {
    let c = src.below(26);
    let s: String = match c {
        0 => src.below(10).to_string(),
        1 => (src.u16() as i32 - 300).to_string(),
        2 => format!("{}", src.u32()),
        3 => format!("-{}", src.u32()),
        4 => src.pick(&["0", "-0", "0.0", "-0.0", "0e0", "-0e5", "0.000", "-0.000e-3", "0E+7"]).to_string(),
        5 => {
            // around u64 / i64 boundaries
            let base: i128 = *src.pick(&[u64::MAX as i128, i64::MAX as i128, i64::MIN as i128, 1i128 << 53, 10i128.pow(19), 10i128.pow(18)]);
            let d = src.below(5) as i128 - 2;
            (base + d).to_string()
        }
        6 => {
            // long integer
            let n = 20 + src.below(30);
            let mut s = String::new();
            if src.bool() {
                s.push('-');
            }
            s.push((b'1' + src.byte() % 9) as char);
            for _ in 1..n {
                s.push((b'0' + src.byte() % 10) as char);
            }
            s
        }
        7 | 8 => {
            // decimal fraction
            let ip = src.u16() % 1000;
            let nd = 1 + src.below(20);
            let mut s = format!("{}{}.", if src.bool() { "-" } else { "" }, ip);
            for _ in 0..nd {
                s.push((b'0' + src.byte() % 10) as char);
            }
            s
        }
        9 | 10 => {
            // scientific
            let m = src.u32();
            let e = src.below(80) as i32 - 40;
            let es = match src.below(4) {
                0 => format!("e{e}"),
                1 => format!("E{e}"),
                2 => format!("e{}{}", if e >= 0 { "+" } else { "-" }, e.abs()),
                _ => format!("E{}{:03}", if e >= 0 { "+" } else { "-" }, e.abs()),
            };
            if src.bool() {
                format!("{}.{}{}", m / 1000, m % 1000, es)
            } else {
                format!("{m}{es}")
            }
        }
        11 => {
            // random f64 shortest repr
            let f = f64::from_bits(src.u64());
            if f.is_finite() {
                format!("{f:?}")
            } else {
                "1.5".to_string()
            }
        }
        12 => {
            let f = f64::from_bits(src.u64());
            if f.is_finite() {
                format!("{f:e}")
            } else {
                "2.5e3".to_string()
            }
        }
        13 => src
            .pick(&[
                "1.7976931348623157e308",
                "2.2250738585072014e-308",
                "4.9e-324",
                "5e-324",
                "2.4703282292062327e-324",
                "2.4703282292062328e-324",
                "1e308",
                "1e-400",
                "9007199254740993",
                "9007199254740992.5",
                "0.1",
                "123456789012345678",
                "1234567890123456789",
                "12345678901234567890",
                "0.000000000000000000000000000001",
                "1e22",
                "1e23",
                "8.5e22",
                "179769313486231570000000000000000000000000000000000000000000000000000000000000000000000000000000000000000000000000000000000000000000000000000000000000000000000000000000000000000000000000000000000000000000000000000000000000000000000000000000000000000000000000000000000000000000000000000000000000000000000",
            ])
            .to_string(),
        14 => {
            // many fraction digits
            let nd = *src.pick(&[15usize, 16, 17, 18, 19, 20, 21, 30, 40, 100, 400, 800]);
            let mut s = String::from(if src.bool() { "0." } else { "3." });
            for _ in 0..nd {
                s.push((b'0' + src.byte() % 10) as char);
            }
            if src.bool() {
                s.push_str(&format!("e{}", src.below(40) as i32 - 20));
            }
            s
        }
        15 => {
            // leading zeros in fraction then digits
            let nz = src.below(30);
            let mut s = String::from("0.");
            for _ in 0..nz {
                s.push('0');
            }
            s.push_str(&format!("{}", src.u32()));
            s
        }
        16 if allow_inf => src.pick(&["1e309", "-1e309", "1e999", "1.8e308", "-1.5e311", "123e400"]).to_string(),
        17 => {
            // big exponent magnitude that stays finite or underflows
            let e = 290 + src.below(60);
            format!("{}e-{}", 1 + src.below(9), e)
        }
        18 => format!("{}.5", src.u16()),
        19 => format!("{}", src.u64()),
        20 => format!("-{}", src.u64() >> 1),
        21 => {
            let digits = 15 + src.below(6);
            let mut s = String::new();
            s.push((b'1' + src.byte() % 9) as char);
            for _ in 1..digits {
                s.push((b'0' + src.byte() % 10) as char);
            }
            let pos = 1 + src.below(digits - 1);
            s.insert(pos, '.');
            s
        }
        22 => {
            // zero-padded exponent: the padding must not change the value
            let zeros = *src.pick(&[1usize, 2, 3, 4, 5, 6, 7, 8, 16, 30, 300]);
            let e = src.below(310);
            let sign = *src.pick(&["", "+", "-"]);
            let e = if sign == "-" { e + src.below(20) } else { e.min(300) };
            let mant = match src.below(4) {
                0 => "1".to_string(),
                1 => format!("{}", 1 + src.below(9)),
                2 => format!("{}.{}", src.below(10), src.u16()),
                _ => format!("{}", src.u32()),
            };
            format!("{mant}{}{sign}{}{e}", if src.bool() { "e" } else { "E" }, "0".repeat(zeros))
        }
        23 => src.pick(&["0e99999", "0e-99999", "0.0e+4000", "1e-99999", "1e-0000400", "0E18446744073709551616", "1e-18446744073709551616", "0.000e-2147483649", "-0e2147483648", "1E-4294967296", "100e-00002", "1.25e-2147483647", "12.345e-2147483648", "0.00125e-4294967295", "100000000000000000000e-2147483647", "1e00005", "1e000300", "25e-0002", "1.5E+00000000000000000001"]).to_string(),
        _ => src.below(100).to_string(),
    };
    out.extend_from_slice(s.as_bytes());
}

/// Generate one JSON value (well-formed by construction) into `out`.
pub fn gen_value(src: &mut Src, p: &DocParams, depth: usize, out: &mut Vec<u8>) {
    let leaf_only = depth >= p.max_depth;
    let k = if leaf_only { src.below(6) } else { src.below(10) };
    match k {
        0 => gen_number(src, p.allow_inf, out),
        1 => {
            out.push(b'"');
            gen_string_inner(src, p, out);
            out.push(b'"');
        }
        2 => out.extend_from_slice(b"true"),
        3 => out.extend_from_slice(b"null"),
        4 => out.extend_from_slice(b"false"),
        5 => gen_number(src, p.allow_inf, out),
        6 | 7 => {
            out.push(b'[');
            let n = gen_count(src, p);
            gen_ws(src, p, out);
            for i in 0..n {
                if i > 0 {
                    out.push(b',');
                    gen_ws(src, p, out);
                }
                gen_value(src, p, depth + 1, out);
                gen_ws(src, p, out);
            }
            out.push(b']');
        }
        _ => {
            out.push(b'{');
            let n = gen_count(src, p);
            gen_ws(src, p, out);
            let mut keys: Vec<Vec<u8>> = Vec::new();
            for i in 0..n {
                if i > 0 {
                    out.push(b',');
                    gen_ws(src, p, out);
                }
                let mut key = Vec::new();
                if p.dup_keys && !keys.is_empty() && src.chance(60) {
                    key = keys[src.below(keys.len())].clone();
                } else {
                    gen_key_inner(src, p, &mut key);
                    if !p.dup_keys {
                        // make distinct by decoded text: compare decoded forms
                        let mut tries = 0;
                        while keys.iter().any(|k| same_decoded(k, &key)) {
                            key.extend_from_slice(format!("{}", i + tries).as_bytes());
                            tries += 1;
                        }
                    }
                }
                keys.push(key.clone());
                out.push(b'"');
                out.extend_from_slice(&key);
                out.push(b'"');
                gen_ws(src, p, out);
                out.push(b':');
                gen_ws(src, p, out);
                gen_value(src, p, depth + 1, out);
                gen_ws(src, p, out);
            }
            out.push(b'}');
        }
    }
}

fn same_decoded(a: &[u8], b: &[u8]) -> bool {
    if a == b {
        return true;
    }
    match (crate::refjson::decode_string_lossy(a), crate::refjson::decode_string_lossy(b)) {
        (Some(x), Some(y)) => x == y,
        _ => false,
    }
}

fn gen_count(src: &mut Src, p: &DocParams) -> usize {
    let c = src.byte();
    match c {
        0..=39 => 0,
        40..=99 => 1,
        100..=159 => 2,
        160..=249 => src.below(p.max_items + 1),
        _ => p.max_items + src.below(p.max_items * 3 + 1),
    }
}

/// A complete document: alignment prefix + leading ws + value + trailing ws.
pub fn gen_doc(src: &mut Src, p: &DocParams) -> Vec<u8> {
    let mut out = Vec::new();
    if p.align > 0 && src.chance(80) {
        let k = src.below(p.align + 1);
        out.resize(k, b' ');
    }
    gen_ws(src, p, &mut out);
    gen_value(src, p, 0, &mut out);
    gen_ws(src, p, &mut out);
    out
}

/// A document whose root is a container (most checks want this for non-triviality).
pub fn gen_container_doc(src: &mut Src, p: &DocParams) -> Vec<u8> {
    for _ in 0..4 {
        let d = gen_doc(src, p);
        let i = crate::refjson::skip_ws(&d, 0);
        if i < d.len() && (d[i] == b'[' || d[i] == b'{') {
            return d;
        }
    }
    let mut out = Vec::new();
    out.push(b'[');
    gen_value(src, p, 1, &mut out);
    out.push(b',');
    gen_value(src, p, 1, &mut out);
    out.push(b']');
    out
}

/// Small containers and scalars used by `gen_many_small`.
pub const SMALL_ITEMS: &[&[u8]] = &[b"[]", b"{}", b"[ ]", b"{ }", b"[1]", b"{\"a\":1}", b"[[]]", b"{\"a\":[]}", b"{\"a\":{}}", b"[{}]", b"\"\"", b"\"\\n\"", b"0", b"null"];

/// A shallow, well-formed document holding several hundred tiny containers (one dominant kind per
/// document, so that per-container bookkeeping — nesting counters, scratch state — of that kind
/// accumulates), laid out flat, as members of an object, as records, or in a few groups, and
/// followed by ordinary containers and a scalar. Nesting depth stays <= 5.
pub fn gen_many_small(src: &mut Src) -> Vec<u8> {
    let n = *src.pick(&[256usize, 255, 254, 257, 260, 300, 128, 512, 64, 1030]);
    let dominant = src.below(SMALL_ITEMS.len());
    let mixed = src.chance(50);
    let layout = src.below(5);
    let sep: &[u8] = if src.chance(60) { b", " } else { b"," };
    let item = |src: &mut Src| -> &'static [u8] {
        if mixed && src.chance(40) {
            SMALL_ITEMS[src.below(SMALL_ITEMS.len())]
        } else {
            SMALL_ITEMS[dominant]
        }
    };
    let tail: &[u8] = *src.pick(&[&b"[1,{\"z\":[2]}]"[..], b"{\"t\":[true]}", b"[[[]]]", b"{}", b"[]", b"7"]);
    let mut out = Vec::with_capacity(n * 12 + 64);
    match layout {
        0 => {
            // flat array
            out.push(b'[');
            for i in 0..n {
                if i > 0 {
                    out.extend_from_slice(sep);
                }
                out.extend_from_slice(item(src));
            }
            out.extend_from_slice(sep);
            out.extend_from_slice(tail);
            out.extend_from_slice(b",\"end\"]");
        }
        1 => {
            // members of one object
            out.push(b'{');
            for i in 0..n {
                if i > 0 {
                    out.extend_from_slice(sep);
                }
                out.extend_from_slice(format!("\"k{i}\":").as_bytes());
                out.extend_from_slice(item(src));
            }
            out.extend_from_slice(sep);
            out.extend_from_slice(b"\"tail\":");
            out.extend_from_slice(tail);
            out.extend_from_slice(b",\"end\":\"end\"}");
        }
        2 => {
            // array of records
            out.push(b'[');
            for i in 0..n {
                if i > 0 {
                    out.extend_from_slice(sep);
                }
                out.extend_from_slice(format!("{{\"id\":{i},\"tags\":").as_bytes());
                out.extend_from_slice(item(src));
                out.push(b'}');
            }
            out.extend_from_slice(sep);
            out.extend_from_slice(b"{\"id\":-1,\"tags\":");
            out.extend_from_slice(tail);
            out.extend_from_slice(b"}]");
        }
        3 => {
            // a few groups
            let groups = 2 + src.below(3);
            out.push(b'[');
            for g in 0..groups {
                if g > 0 {
                    out.extend_from_slice(sep);
                }
                out.push(b'[');
                for i in 0..(n / groups + 1) {
                    if i > 0 {
                        out.extend_from_slice(sep);
                    }
                    out.extend_from_slice(item(src));
                }
                out.push(b']');
            }
            out.extend_from_slice(sep);
            out.extend_from_slice(tail);
            out.push(b']');
        }
        _ => {
            // object whose first member holds them all, then ordinary members
            out.extend_from_slice(b"{\"skipme\":[");
            for i in 0..n {
                if i > 0 {
                    out.extend_from_slice(sep);
                }
                out.extend_from_slice(item(src));
            }
            out.extend_from_slice(b"],\"a\":");
            out.extend_from_slice(tail);
            out.extend_from_slice(b",\"b\":[[1],{\"c\":{}}],\"end\":1}");
        }
    }
    out
}

/// An object with 16..104 members whose names are NOT in lexicographic order (k0..kN: "k10" < "k2"),
/// optionally nested, with distinct values.
pub fn gen_wide_object(src: &mut Src) -> Vec<u8> {
    let n = *src.pick(&[16usize, 17, 20, 21, 32, 33, 64, 65, 100]) + src.below(4);
    let nested = src.chance(60);
    let mut out = if nested { b"[0,{\"w\":".to_vec() } else { Vec::new() };
    out.push(b'{');
    let order = src.below(3);
    for j in 0..n {
        let i = match order {
            0 => j,
            1 => n - 1 - j,
            _ => (j * 7) % n,
        };
        if j > 0 {
            out.push(b',');
        }
        out.extend_from_slice(format!("\"k{i}\":").as_bytes());
        match src.below(3) {
            0 => out.extend_from_slice(format!("{i}").as_bytes()),
            1 => out.extend_from_slice(format!("[{i}]").as_bytes()),
            _ => out.extend_from_slice(format!("{{\"v\":{i}}}").as_bytes()),
        }
    }
    out.push(b'}');
    if nested {
        out.extend_from_slice(b"}]");
    }
    out
}

/// Objects of 40..260 members, in shuffled name order, some of whose members are again objects of
/// 10..150 members (two or three levels): more than a hundred member references are alive at once when
/// such a document is sorted or serialized recursively, and a nested object sits in the middle of its
/// parent's (sorted) member list.
pub fn gen_wide_nested(src: &mut Src) -> Vec<u8> {
    fn obj(src: &mut Src, n: usize, level: usize, out: &mut Vec<u8>) {
        out.push(b'{');
        let stride = *src.pick(&[1usize, 3, 7, 11]);
        for j in 0..n {
            let i = (j * stride + level) % n.max(1);
            if j > 0 {
                out.push(b',');
            }
            out.extend_from_slice(format!("\"m{i:03}\":").as_bytes());
            let nested = level < 2 && (i == n / 2 || i == n / 3 || (i % 17 == 5 && src.chance(120)));
            if nested {
                let m = *src.pick(&[10usize, 40, 90, 130, 150]);
                obj(src, m, level + 1, out);
            } else {
                match i % 4 {
                    0 => out.extend_from_slice(format!("{i}").as_bytes()),
                    1 => out.extend_from_slice(format!("\"v{i}\"").as_bytes()),
                    2 => out.extend_from_slice(b"[1,{\"z\":2,\"a\":1}]"),
                    _ => out.extend_from_slice(b"null"),
                }
            }
        }
        out.push(b'}');
    }
    let mut out = Vec::new();
    let n = *src.pick(&[40usize, 64, 100, 128, 129, 200, 260]);
    obj(src, n, 0, &mut out);
    out
}

/// A document of several KiB whose bulk is one or two strings of multi-byte characters: character
/// boundaries fall at every phase relative to 4 KiB / 32 KiB / 64 KiB marks (validation, copying or
/// scanning done in large blocks), with the interesting values behind them.
pub fn gen_large_utf8(src: &mut Src) -> Vec<u8> {
    let total = *src.pick(&[4096usize, 4096, 8192, 12288, 16384, 32768, 65536]) + src.below(24) - 4;
    let ch: &str = *src.pick(&["é", "中", "😀", "\u{7ff}", "\u{ffff}", "\u{10ffff}"]);
    let phase = src.below(5);
    let shape = src.below(3);
    let mut out = Vec::with_capacity(total + 200);
    let fill = |out: &mut Vec<u8>, upto: usize, src: &mut Src| {
        out.push(b'"');
        out.resize(out.len() + phase, b'a');
        while out.len() + ch.len() < upto {
            if src.chance(4) {
                out.extend_from_slice(b"\\n");
            } else {
                out.extend_from_slice(ch.as_bytes());
            }
        }
        out.push(b'"');
    };
    match shape {
        0 => {
            out.extend_from_slice(b"{\"pad\":");
            fill(&mut out, total, src);
            out.extend_from_slice(b",\"t\":[1,{\"u\":\"\xc3\xa9\"}],\"z\":\"\xe4\xb8\xad\"}");
        }
        1 => {
            out.push(b'[');
            fill(&mut out, total / 2, src);
            out.push(b',');
            fill(&mut out, total, src);
            out.extend_from_slice(b",[2,3],\"\xf0\x9f\x98\x80\",{\"k\":null}]");
        }
        _ => {
            out.extend_from_slice(b"{\"a\":{\"b\":[");
            fill(&mut out, total, src);
            out.extend_from_slice(b",7]},\"c\":\"\xc3\xa9\"}");
        }
    }
    out
}

/// A deeply nested document (depth 20..=120, far below the 255 limit) in which every level has two or
/// more members, so that separators, indentation and per-level state are exercised at depth.
pub fn gen_deep(src: &mut Src) -> Vec<u8> {
    let depth = *src.pick(&[20usize, 31, 32, 33, 34, 40, 48, 63, 64, 65, 80, 100, 120]) + src.below(3);
    let shape = src.below(3);
    let mut out = Vec::new();
    let mut closers = Vec::new();
    for d in 0..depth {
        let arr = match shape {
            0 => true,
            1 => false,
            _ => d % 2 == 0,
        };
        if arr {
            out.extend_from_slice(format!("[{d},").as_bytes());
            closers.push(if src.chance(128) { &b",true]"[..] } else { b"]" });
        } else {
            out.extend_from_slice(format!("{{\"k{d}\":{d},\"n\":").as_bytes());
            closers.push(if src.chance(128) { &b",\"z\":null}"[..] } else { b"}" });
        }
    }
    out.extend_from_slice(*src.pick(&[&b"[5,6]"[..], b"{\"a\":5,\"b\":6}", b"[]", b"\"leaf\"", b"[[1,2],[3,4]]"]));
    while let Some(c) = closers.pop() {
        out.extend_from_slice(c);
    }
    out
}

// ------------------------------------------------------------------------------------------
// mutators

pub const SUBST_BYTES: &[u8] = &[b'{', b'}', b'[', b']', b',', b':', b'"', b'\\', b'0', b'1', b'-', b'.', b'e', b't', b'n', b' ', 0x01, 0x1f, 0x80, 0xFF, 0xC3, 0xE2, 0xF0];

pub const UTF8_DAMAGE: &[&[u8]] = &[
    b"\x80",             // lone continuation
    b"\xC0\xAF",         // overlong
    b"\xE0\x80\xAF",     // overlong 3
    b"\xED\xA0\x80",     // CESU surrogate
    b"\xC3",             // truncated 2-byte
    b"\xE2\x82",         // truncated 3-byte
    b"\xF0\x9F\x98",     // truncated 4-byte
    b"\xF4\x90\x80\x80", // > U+10FFFF
    b"\xFF",
    b"\xF8\x88\x80\x80\x80",
];

pub const ESCAPE_DAMAGE: &[&[u8]] = &[
    b"\\x", b"\\u12G4", b"\\u\"abc", b"\\ud800", b"\\udc00", b"\\udc00\\ud800", b"\\ud800x", b"\\ud800\\n", b"\\ud800\\u0041", b"\\u12", b"\\", b"\\uD83D", b"\\a",
    b"\\u 123", b"\\U0041", b"\\ud83d\\ud83d", b"\\u00g0", b"\\ug000", b"\\u000g", b"\\u0g00", b"\x00", b"\x1f", b"\n", b"\t",
];

pub const NUMBER_DAMAGE: &[&[u8]] = &[
    b"1.", b"1e", b"-", b"01", b"1e+", b".5", b"+1", b"1.e5", b"-.5", b"1e-", b"0x10", b"1_0", b"00", b"-00", b"1.5.2", b"1e5e5", b"--1", b"1-", b"0.e1", b"-a", b"1E", b"1.0E+", b"Infinity", b"NaN", b"-Infinity", b"1f", b"0e", b"-01", b"1..2", b"1.2e3.4",
];

pub const SEPARATOR_DAMAGE: &[(&[u8], &[u8])] = &[
    (b",", b",,"),
    (b",", b""),
    (b",", b";"),
    (b":", b""),
    (b":", b"::"),
    (b":", b","),
    (b"]", b",]"),
    (b"}", b",}"),
    (b"[", b"[,"),
    (b"{", b"{,"),
    (b"]", b"}"),
    (b"}", b"]"),
    (b"]", b""),
    (b"}", b""),
    (b"[", b"[["),
    (b"{", b"{{"),
    (b"true", b"tru"),
    (b"true", b"True"),
    (b"null", b"nul"),
    (b"null", b"nulll"),
    (b"false", b"fals"),
    (b"false", b"falsee"),
    (b"\"", b""),
    (b"\"", b"'"),
];

/// One random mutation of a well-formed document; returns the mutated text and a label.
pub fn mutate(src: &mut Src, doc: &[u8]) -> (Vec<u8>, &'static str) {
    let mut d = doc.to_vec();
    if d.is_empty() {
        return (vec![src.byte()], "byte");
    }
    let k = src.below(12);
    match k {
        0 => {
            let cut = src.below(d.len());
            d.truncate(cut);
            (d, "truncate")
        }
        1 | 2 => {
            let pos = src.below(d.len());
            d[pos] = *src.pick(SUBST_BYTES);
            (d, "substitute")
        }
        3 => {
            let pos = src.below(d.len() + 1);
            let b = *src.pick(SUBST_BYTES);
            d.insert(pos, b);
            (d, "insert")
        }
        4 => {
            let pos = src.below(d.len());
            d.remove(pos);
            (d, "delete")
        }
        5 => {
            let pos = src.below(d.len());
            let b = d[pos];
            d.insert(pos, b);
            (d, "duplicate")
        }
        6 => {
            let pos = src.below(d.len() + 1);
            let dmg = *src.pick(UTF8_DAMAGE);
            d.splice(pos..pos, dmg.iter().copied());
            (d, "utf8-damage")
        }
        7 => {
            // escape damage: inside a string if there is one
            let quotes: Vec<usize> = d.iter().enumerate().filter(|(_, c)| **c == b'"').map(|(i, _)| i).collect();
            let pos = if quotes.is_empty() { src.below(d.len() + 1) } else { quotes[src.below(quotes.len())] + 1 };
            let dmg = *src.pick(ESCAPE_DAMAGE);
            let pos = pos.min(d.len());
            d.splice(pos..pos, dmg.iter().copied());
            (d, "escape-damage")
        }
        8 => {
            // number damage: replace a digit run or insert at a value position
            let digits: Vec<usize> = d.iter().enumerate().filter(|(_, c)| c.is_ascii_digit()).map(|(i, _)| i).collect();
            let dmg = *src.pick(NUMBER_DAMAGE);
            if digits.is_empty() {
                let pos = src.below(d.len() + 1);
                d.splice(pos..pos, dmg.iter().copied());
            } else {
                let pos = digits[src.below(digits.len())];
                d.splice(pos..pos + 1, dmg.iter().copied());
            }
            (d, "number-damage")
        }
        9 | 10 => {
            let (from, to) = *src.pick(SEPARATOR_DAMAGE);
            let occ: Vec<usize> = find_all(&d, from);
            if occ.is_empty() {
                let pos = src.below(d.len());
                d[pos] = b',';
            } else {
                let pos = occ[src.below(occ.len())];
                d.splice(pos..pos + from.len(), to.iter().copied());
            }
            (d, "separator-damage")
        }
        _ => {
            // swap two bytes
            let a = src.below(d.len());
            let b = src.below(d.len());
            d.swap(a, b);
            (d, "swap")
        }
    }
}

pub fn find_all(h: &[u8], n: &[u8]) -> Vec<usize> {
    if n.is_empty() || h.len() < n.len() {
        return Vec::new();
    }
    (0..=h.len() - n.len()).filter(|&i| &h[i..i + n.len()] == n).collect()
}

/// Deterministic mutation sweep of one document: every truncation point and a substitution
/// at every position by each byte of `SUBST_BYTES` (strided when the document is long).
pub fn sweep_mutations(doc: &[u8], stride: usize, emit: &mut dyn FnMut(&[u8], &'static str) -> bool) -> bool {
    for cut in 0..doc.len() {
        if !emit(&doc[..cut], "truncate") {
            return false;
        }
    }
    let mut buf = doc.to_vec();
    let mut pos = 0;
    while pos < doc.len() {
        let orig = buf[pos];
        for &s in SUBST_BYTES {
            if s == orig {
                continue;
            }
            buf[pos] = s;
            if !emit(&buf, "substitute") {
                return false;
            }
        }
        buf[pos] = orig;
        // deletion
        let mut del = doc.to_vec();
        del.remove(pos);
        if !emit(&del, "delete") {
            return false;
        }
        pos += stride.max(1);
    }
    true
}

// ------------------------------------------------------------------------------------------
// bounded-exhaustive token sequences

pub const TOKENS: &[&[u8]] = &[b"{", b"}", b"[", b"]", b",", b":", b"\"a\"", b"\"\\u00e9\"", b"1", b"-1.5e3", b"true", b"null", b" ", b"\n"];

/// Enumerate all token sequences of length exactly `len` whose index ≡ shard (mod nshards).
pub fn token_sequences(len: usize, shard: usize, nshards: usize, emit: &mut dyn FnMut(&[u8]) -> bool) -> bool {
    let k = TOKENS.len() as u64;
    let total = k.pow(len as u32);
    let mut buf = Vec::with_capacity(len * 10);
    let mut idx = shard as u64;
    while idx < total {
        buf.clear();
        let mut x = idx;
        for _ in 0..len {
            buf.extend_from_slice(TOKENS[(x % k) as usize]);
            x /= k;
        }
        if !emit(&buf) {
            return false;
        }
        idx += nshards as u64;
    }
    true
}

pub const NUM_ALPHABET: &[u8] = b"-019.eE+";

/// All strings of length 1..=max_len over the number alphabet.
pub fn number_candidates(max_len: usize, shard: usize, nshards: usize, emit: &mut dyn FnMut(&[u8]) -> bool) -> bool {
    let k = NUM_ALPHABET.len() as u64;
    let mut count = 0u64;
    for len in 1..=max_len {
        let total = k.pow(len as u32);
        let mut buf = vec![0u8; len];
        for idx in 0..total {
            count += 1;
            if count % nshards as u64 != shard as u64 {
                continue;
            }
            let mut x = idx;
            for b in buf.iter_mut() {
                *b = NUM_ALPHABET[(x % k) as usize];
                x /= k;
            }
            if !emit(&buf) {
                return false;
            }
        }
    }
    true
}

/// Small fixed corpus of well-formed documents used by alignment sweeps.
pub fn golden_docs() -> Vec<Vec<u8>> {
    let v: Vec<&str> = vec![
        "null",
        "true",
        "false",
        "0",
        "-1",
        "1.5",
        "1e5",
        "\"\"",
        "\"a\"",
        "\"\\n\"",
        "\"\\u00e9\"",
        "\"\\ud83d\\ude00\"",
        "\"é中😀\"",
        "[]",
        "{}",
        "[1]",
        "[1,2,3]",
        "{\"a\":1}",
        "{\"a\":[1,{\"b\":null}],\"c\":\"d\"}",
        "[[[[]]]]",
        "{\"a\":{\"b\":{\"c\":{}}}}",
        "[\"a\\\\\",\"b\\\"\",\"]\",\"}\",\"[{\"]",
        "{\"k\\\"\":\"v\\\\\",\"[\":\"]\"}",
        "[1.7976931348623157e308,-0.0,123456789012345678901234567890]",
        "{\"a\":\"0123456789012345678901234567890123456789012345678901234567890123456789\"}",
        "[\"0123456789012345678901234567890\\\"1\",\"0123456789012345678901234567890123456789012345678901234567890\\\\\"]",
        "{\"\":\"\"}",
        "[true,false,null,\"x\",1,{},[]]",
        "{\"a\":1,\"b\":[true,false],\"c\":{\"d\":\"e\"},\"f\":null}",
        "[\"\\u0000\\u001f\\\"\\\\\\/\\b\\f\\n\\r\\t\"]",
    ];
    v.into_iter().map(|s| s.as_bytes().to_vec()).collect()
}

/// nested document of depth `d`: shape 0 = arrays, 1 = objects, 2 = alternating
pub fn nested(d: usize, shape: u8, closed: bool) -> Vec<u8> {
    let mut out = Vec::with_capacity(d * 7 + 8);
    let mut kinds = Vec::with_capacity(d);
    for i in 0..d {
        let obj = match shape {
            0 => false,
            1 => true,
            _ => i % 2 == 1,
        };
        kinds.push(obj);
        if obj {
            out.extend_from_slice(b"{\"a\":");
        } else {
            out.push(b'[');
        }
    }
    if closed {
        out.push(b'1');
        for &obj in kinds.iter().rev() {
            out.push(if obj { b'}' } else { b']' });
        }
    }
    out
}
