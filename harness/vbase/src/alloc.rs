//! Harness allocator (process `GlobalAlloc`): thread-local and global live counters (leak
//! detection), and — while `strict` mode is on for the current thread — poisoning of freed
//! memory plus a quarantine that detects double frees and writes after free.

use std::alloc::{GlobalAlloc, Layout, System};
use std::cell::{Cell, UnsafeCell};
use std::sync::atomic::{AtomicBool, AtomicI64, AtomicU64, Ordering};

pub struct VAlloc;

pub static G_COUNT: AtomicI64 = AtomicI64::new(0);
pub static G_BYTES: AtomicI64 = AtomicI64::new(0);
/// set when the quarantine sees a second free of the same block / a damaged poison pattern
pub static DOUBLE_FREE: AtomicU64 = AtomicU64::new(0);
pub static WRITE_AFTER_FREE: AtomicU64 = AtomicU64::new(0);
/// strict mode for every thread (thread-stress sub-checks)
pub static STRICT_ALL: AtomicBool = AtomicBool::new(false);
/// maintain the global counters without poisoning / quarantine
pub static COUNT_GLOBAL: AtomicBool = AtomicBool::new(false);
/// fill blocks with the poison pattern right before they are freed (no quarantine)
pub static POISON_ON_FREE: AtomicBool = AtomicBool::new(false);

const QN: usize = 256;
const QMAX: usize = 1 << 16;
const POISON: u8 = 0xDD;

struct Quarantine {
    slots: UnsafeCell<[(usize, usize, usize); QN]>, // (ptr, size, align)
    next: Cell<usize>,
    /// approximate membership filter over the quarantined pointers (rebuilt on wrap-around)
    filter: UnsafeCell<[u64; 64]>,
}

#[inline]
fn fbit(ptr: usize) -> (usize, u64) {
    let h = (ptr >> 4) ^ (ptr >> 16);
    ((h >> 6) & 63, 1u64 << (h & 63))
}

thread_local! {
    static TL_COUNT: Cell<i64> = const { Cell::new(0) };
    static TL_BYTES: Cell<i64> = const { Cell::new(0) };
    static TL_STRICT: Cell<bool> = const { Cell::new(false) };
    static TL_Q: Quarantine = const { Quarantine { slots: UnsafeCell::new([(0, 0, 0); QN]), next: Cell::new(0), filter: UnsafeCell::new([0; 64]) } };
}

#[inline]
fn tl_add(count: i64, bytes: i64) {
    let _ = TL_COUNT.try_with(|c| c.set(c.get() + count));
    let _ = TL_BYTES.try_with(|c| c.set(c.get() + bytes));
    // the global counters are contended: only maintained while a thread-stress check needs them
    if STRICT_ALL.load(Ordering::Relaxed) || COUNT_GLOBAL.load(Ordering::Relaxed) {
        G_COUNT.fetch_add(count, Ordering::Relaxed);
        G_BYTES.fetch_add(bytes, Ordering::Relaxed);
    }
}

#[inline]
fn strict() -> bool {
    STRICT_ALL.load(Ordering::Relaxed) || TL_STRICT.try_with(|c| c.get()).unwrap_or(false)
}

unsafe fn release(ptr: usize, size: usize, align: usize) {
    // the poison must be intact: nobody wrote into the block after it was freed
    let p = ptr as *const u8;
    let probe = size.min(64);
    for i in 0..probe {
        if *p.add(i) != POISON {
            WRITE_AFTER_FREE.fetch_add(1, Ordering::Relaxed);
            break;
        }
    }
    System.dealloc(ptr as *mut u8, Layout::from_size_align_unchecked(size, align));
}

unsafe impl GlobalAlloc for VAlloc {
    unsafe fn alloc(&self, layout: Layout) -> *mut u8 {
        let p = System.alloc(layout);
        if !p.is_null() {
            tl_add(1, layout.size() as i64);
        }
        p
    }
    unsafe fn alloc_zeroed(&self, layout: Layout) -> *mut u8 {
        let p = System.alloc_zeroed(layout);
        if !p.is_null() {
            tl_add(1, layout.size() as i64);
        }
        p
    }
    unsafe fn dealloc(&self, ptr: *mut u8, layout: Layout) {
        tl_add(-1, -(layout.size() as i64));
        if strict() && layout.size() <= QMAX && layout.size() > 0 {
            let done = TL_Q.try_with(|q| {
                let slots = &mut *q.slots.get();
                let filter = &mut *q.filter.get();
                // double free: the block is still in the quarantine
                let (w, b) = fbit(ptr as usize);
                if filter[w] & b != 0 && slots.iter().any(|s| s.0 == ptr as usize) {
                    DOUBLE_FREE.fetch_add(1, Ordering::Relaxed);
                    return true; // do not free again
                }
                std::ptr::write_bytes(ptr, POISON, layout.size());
                let i = q.next.get();
                let old = slots[i];
                slots[i] = (ptr as usize, layout.size(), layout.align());
                filter[w] |= b;
                q.next.set((i + 1) % QN);
                if i + 1 == QN {
                    // rebuild the filter so that stale bits do not accumulate
                    *filter = [0; 64];
                    for s in slots.iter() {
                        if s.0 != 0 {
                            let (w, b) = fbit(s.0);
                            filter[w] |= b;
                        }
                    }
                }
                if old.0 != 0 {
                    release(old.0, old.1, old.2);
                }
                true
            });
            if done.is_ok() {
                return;
            }
        }
        if POISON_ON_FREE.load(Ordering::Relaxed) && layout.size() <= QMAX {
            std::ptr::write_bytes(ptr, POISON, layout.size());
        }
        System.dealloc(ptr, layout)
    }
    unsafe fn realloc(&self, ptr: *mut u8, layout: Layout, new_size: usize) -> *mut u8 {
        if strict() {
            // move explicitly so that the old block goes through the quarantine
            let new_layout = Layout::from_size_align_unchecked(new_size, layout.align());
            let np = self.alloc(new_layout);
            if !np.is_null() {
                std::ptr::copy_nonoverlapping(ptr, np, layout.size().min(new_size));
                self.dealloc(ptr, layout);
            }
            return np;
        }
        let p = System.realloc(ptr, layout, new_size);
        if !p.is_null() {
            tl_add(0, new_size as i64 - layout.size() as i64);
        }
        p
    }
}

/// live (count, bytes) of allocations made minus freed *by this thread*
pub fn thread_live() -> (i64, i64) {
    (TL_COUNT.with(|c| c.get()), TL_BYTES.with(|c| c.get()))
}
pub fn global_live() -> (i64, i64) {
    (G_COUNT.load(Ordering::SeqCst), G_BYTES.load(Ordering::SeqCst))
}
pub fn set_strict(on: bool) {
    TL_STRICT.with(|c| c.set(on));
}
pub fn set_global_counting(on: bool) {
    COUNT_GLOBAL.store(on, Ordering::SeqCst);
}
pub fn set_poison_on_free(on: bool) {
    POISON_ON_FREE.store(on, Ordering::SeqCst);
}
pub fn set_strict_all(on: bool) {
    STRICT_ALL.store(on, Ordering::SeqCst);
}
/// (double frees, writes after free) seen so far
pub fn faults() -> (u64, u64) {
    (DOUBLE_FREE.load(Ordering::SeqCst), WRITE_AFTER_FREE.load(Ordering::SeqCst))
}
/// free everything the current thread holds in quarantine (poison check included)
pub fn flush_quarantine() {
    let _ = TL_Q.try_with(|q| unsafe {
        let slots = &mut *q.slots.get();
        for s in slots.iter_mut() {
            if s.0 != 0 {
                release(s.0, s.1, s.2);
                *s = (0, 0, 0);
            }
        }
        *q.filter.get() = [0; 64];
    });
}
