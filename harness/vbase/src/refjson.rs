//! Independent reference implementation of RFC 8259, written from the RFC and the property
//! statements (not from sonic-rs or serde_json code). Byte-at-a-time, no unsafe, no SIMD.
//!
//! * `scan` — one iterative (non-recursive) scanner that validates the grammar and reports
//!   events to a `Sink`; used both as recogniser (no tree) and as tree builder.
//! * `recognise` / `recognise_at` — verdict with independent flags (grammar, scalars, finite).
//! * `parse` / `parse_at` — tree with byte spans, decoded strings, source-ordered members.
//! * string decode (strict / lossy), escape classification, re-indenter, number classifier.

use std::fmt::Write as _;

#[derive(Clone, Copy, Debug, PartialEq, Eq, Hash)]
pub struct Span {
    pub start: usize,
    pub end: usize,
}

impl Span {
    pub fn of<'a>(&self, b: &'a [u8]) -> &'a [u8] {
        &b[self.start..self.end]
    }
    pub fn len(&self) -> usize {
        self.end - self.start
    }
}

#[derive(Clone, Debug, PartialEq)]
pub struct PErr {
    pub offset: usize,
    /// the error is "input ended here"; everything before is a prefix of a well-formed text
    pub eof: bool,
    pub reason: &'static str,
}

#[derive(Clone, Debug, PartialEq)]
pub struct StrLit {
    /// span including both quotes
    pub span: Span,
    /// decoded text; lone surrogate escapes and invalid UTF-8 become U+FFFD
    pub text: String,
    pub has_escape: bool,
    /// every \u escape of this literal denotes a Unicode scalar (surrogates correctly paired)
    pub scalars_ok: bool,
    /// the raw bytes of the literal are valid UTF-8
    pub utf8_ok: bool,
}

#[derive(Clone, Debug, PartialEq)]
pub enum Kind {
    Null,
    Bool(bool),
    Num,
    Str(StrLit),
    Arr(Vec<Node>),
    Obj(Vec<(StrLit, Node)>),
}

#[derive(Clone, Debug, PartialEq)]
pub struct Node {
    pub span: Span,
    pub kind: Kind,
}

#[derive(Clone, Debug, Default, PartialEq)]
pub struct Summary {
    /// end offset of the value (exclusive), before any trailing whitespace
    pub end: usize,
    /// start offset of the value (after leading whitespace)
    pub start: usize,
    pub max_depth: usize,
    pub scalars_ok: bool,
    pub finite_ok: bool,
    /// number of values (scalars + containers)
    pub values: usize,
    /// number of tokens (structural bytes + scalars + keys)
    pub tokens: usize,
    pub has_dup_keys: bool,
}

pub trait Sink {
    fn scalar(&mut self, _n: Node) {}
    fn begin(&mut self, _is_obj: bool, _pos: usize) {}
    fn key(&mut self, _k: StrLit) {}
    fn end(&mut self, _is_obj: bool, _end: usize) {}
    /// whether decoded strings are needed (recogniser can skip building them)
    fn want_text(&self) -> bool {
        false
    }
}

pub struct NoSink;
impl Sink for NoSink {}

#[inline]
pub fn is_ws(c: u8) -> bool {
    c == b' ' || c == b'\t' || c == b'\n' || c == b'\r'
}

pub fn skip_ws(b: &[u8], mut i: usize) -> usize {
    while i < b.len() && is_ws(b[i]) {
        i += 1;
    }
    i
}

fn hex_val(c: u8) -> Option<u32> {
    match c {
        b'0'..=b'9' => Some((c - b'0') as u32),
        b'a'..=b'f' => Some((c - b'a' + 10) as u32),
        b'A'..=b'F' => Some((c - b'A' + 10) as u32),
        _ => None,
    }
}

fn eof(offset: usize, reason: &'static str) -> PErr {
    PErr { offset, eof: true, reason }
}
fn bad(offset: usize, reason: &'static str) -> PErr {
    PErr { offset, eof: false, reason }
}

/// Lex a string literal whose opening quote is at `q`. Grammar level only: raw bytes >= 0x20
/// other than `"` and `\` are accepted whatever they are (UTF-8 validity is a separate flag).
pub fn lex_string(b: &[u8], q: usize, want_text: bool) -> Result<StrLit, PErr> {
    debug_assert_eq!(b[q], b'"');
    let mut i = q + 1;
    let mut out: Vec<u8> = Vec::new();
    let mut has_escape = false;
    let mut scalars_ok = true;
    // pending high surrogate (from the immediately preceding \u escape)
    let mut pending_high: Option<u32> = None;
    macro_rules! flush_high {
        () => {
            if pending_high.take().is_some() {
                scalars_ok = false;
                if want_text {
                    out.extend_from_slice("\u{FFFD}".as_bytes());
                }
            }
        };
    }
    loop {
        if i >= b.len() {
            return Err(eof(i, "eof in string"));
        }
        let c = b[i];
        match c {
            b'"' => {
                flush_high!();
                i += 1;
                break;
            }
            b'\\' => {
                has_escape = true;
                if i + 1 >= b.len() {
                    return Err(eof(i + 1, "eof in escape"));
                }
                let e = b[i + 1];
                let simple = match e {
                    b'"' => Some(b'"'),
                    b'\\' => Some(b'\\'),
                    b'/' => Some(b'/'),
                    b'b' => Some(8u8),
                    b'f' => Some(12u8),
                    b'n' => Some(b'\n'),
                    b'r' => Some(b'\r'),
                    b't' => Some(b'\t'),
                    b'u' => None,
                    _ => return Err(bad(i + 1, "bad escape letter")),
                };
                if let Some(ch) = simple {
                    flush_high!();
                    if want_text {
                        out.push(ch);
                    }
                    i += 2;
                    continue;
                }
                // \uXXXX
                let mut v = 0u32;
                for k in 0..4 {
                    let p = i + 2 + k;
                    if p >= b.len() {
                        return Err(eof(p, "eof in \\u escape"));
                    }
                    match hex_val(b[p]) {
                        Some(h) => v = v * 16 + h,
                        None => return Err(bad(p, "bad hex digit")),
                    }
                }
                i += 6;
                if (0xDC00..0xE000).contains(&v) {
                    if let Some(h) = pending_high.take() {
                        let cp = 0x10000 + ((h - 0xD800) << 10) + (v - 0xDC00);
                        if want_text {
                            let ch = char::from_u32(cp).unwrap();
                            let mut buf = [0u8; 4];
                            out.extend_from_slice(ch.encode_utf8(&mut buf).as_bytes());
                        }
                    } else {
                        scalars_ok = false;
                        if want_text {
                            out.extend_from_slice("\u{FFFD}".as_bytes());
                        }
                    }
                } else if (0xD800..0xDC00).contains(&v) {
                    flush_high!();
                    pending_high = Some(v);
                } else {
                    flush_high!();
                    if want_text {
                        let ch = char::from_u32(v).unwrap();
                        let mut buf = [0u8; 4];
                        out.extend_from_slice(ch.encode_utf8(&mut buf).as_bytes());
                    }
                }
            }
            0..=0x1f => return Err(bad(i, "raw control character in string")),
            _ => {
                flush_high!();
                if want_text {
                    out.push(c);
                }
                i += 1;
            }
        }
    }
    let raw = &b[q + 1..i - 1];
    let utf8_ok = std::str::from_utf8(raw).is_ok();
    let text = if want_text {
        match String::from_utf8(out) {
            Ok(s) => s,
            Err(e) => String::from_utf8_lossy(e.as_bytes()).into_owned(),
        }
    } else {
        String::new()
    };
    Ok(StrLit { span: Span { start: q, end: i }, text, has_escape, scalars_ok, utf8_ok })
}

/// Lex a number at `s`; returns the end offset.
pub fn lex_number(b: &[u8], s: usize) -> Result<usize, PErr> {
    let mut i = s;
    if i < b.len() && b[i] == b'-' {
        i += 1;
    }
    if i >= b.len() {
        return Err(eof(i, "eof in number"));
    }
    match b[i] {
        b'0' => i += 1,
        b'1'..=b'9' => {
            while i < b.len() && b[i].is_ascii_digit() {
                i += 1;
            }
        }
        _ => return Err(bad(i, "digit expected")),
    }
    if i < b.len() && b[i] == b'.' {
        i += 1;
        if i >= b.len() {
            return Err(eof(i, "eof after decimal point"));
        }
        if !b[i].is_ascii_digit() {
            return Err(bad(i, "digit expected after decimal point"));
        }
        while i < b.len() && b[i].is_ascii_digit() {
            i += 1;
        }
    }
    if i < b.len() && (b[i] == b'e' || b[i] == b'E') {
        i += 1;
        if i < b.len() && (b[i] == b'+' || b[i] == b'-') {
            i += 1;
        }
        if i >= b.len() {
            return Err(eof(i, "eof in exponent"));
        }
        if !b[i].is_ascii_digit() {
            return Err(bad(i, "digit expected in exponent"));
        }
        while i < b.len() && b[i].is_ascii_digit() {
            i += 1;
        }
    }
    Ok(i)
}

fn lex_literal(b: &[u8], s: usize, word: &'static [u8]) -> Result<usize, PErr> {
    for (k, w) in word.iter().enumerate() {
        let p = s + k;
        if p >= b.len() {
            return Err(eof(p, "eof in literal"));
        }
        if b[p] != *w {
            return Err(bad(p, "bad literal"));
        }
    }
    Ok(s + word.len())
}

/// Is the whole byte string exactly one number by the RFC 8259 grammar?
pub fn is_number(b: &[u8]) -> bool {
    !b.is_empty() && matches!(lex_number(b, 0), Ok(e) if e == b.len())
}

/// Scan one JSON value starting at `from` (leading whitespace allowed). Iterative.
pub fn scan<S: Sink>(b: &[u8], from: usize, sink: &mut S) -> Result<Summary, PErr> {
    let want_text = sink.want_text();
    let mut sum = Summary { scalars_ok: true, finite_ok: true, ..Default::default() };
    // stack: true = object
    let mut stack: Vec<bool> = Vec::new();
    let mut i = skip_ws(b, from);
    sum.start = i;
    // state machine
    #[derive(PartialEq)]
    enum St {
        Value,        // expecting a value
        ValueOrClose, // just after '[': value or ']'
        KeyOrClose,   // just after '{': key or '}'
        Key,          // after ',' in object
        AfterValue,   // expecting ',' or closing
    }
    let mut st = St::Value;
    loop {
        i = skip_ws(b, i);
        if i >= b.len() {
            return Err(eof(i, "eof"));
        }
        let c = b[i];
        match st {
            St::ValueOrClose if c == b']' => {
                stack.pop();
                i += 1;
                sum.tokens += 1;
                sink.end(false, i);
                if stack.is_empty() {
                    sum.end = i;
                    return Ok(sum);
                }
                st = St::AfterValue;
            }
            St::Value | St::ValueOrClose => {
                match c {
                    b'[' => {
                        stack.push(false);
                        sum.max_depth = sum.max_depth.max(stack.len());
                        sum.values += 1;
                        sum.tokens += 1;
                        sink.begin(false, i);
                        i += 1;
                        st = St::ValueOrClose;
                        continue;
                    }
                    b'{' => {
                        stack.push(true);
                        sum.max_depth = sum.max_depth.max(stack.len());
                        sum.values += 1;
                        sum.tokens += 1;
                        sink.begin(true, i);
                        i += 1;
                        st = St::KeyOrClose;
                        continue;
                    }
                    b'"' => {
                        let s = lex_string(b, i, want_text)?;
                        if !s.scalars_ok {
                            sum.scalars_ok = false;
                        }
                        i = s.span.end;
                        sink.scalar(Node { span: s.span, kind: Kind::Str(s) });
                    }
                    b'-' | b'0'..=b'9' => {
                        let e = lex_number(b, i)?;
                        let lit = std::str::from_utf8(&b[i..e]).unwrap();
                        if !number_is_finite(lit) {
                            sum.finite_ok = false;
                        }
                        sink.scalar(Node { span: Span { start: i, end: e }, kind: Kind::Num });
                        i = e;
                    }
                    b't' => {
                        let e = lex_literal(b, i, b"true")?;
                        sink.scalar(Node { span: Span { start: i, end: e }, kind: Kind::Bool(true) });
                        i = e;
                    }
                    b'f' => {
                        let e = lex_literal(b, i, b"false")?;
                        sink.scalar(Node { span: Span { start: i, end: e }, kind: Kind::Bool(false) });
                        i = e;
                    }
                    b'n' => {
                        let e = lex_literal(b, i, b"null")?;
                        sink.scalar(Node { span: Span { start: i, end: e }, kind: Kind::Null });
                        i = e;
                    }
                    _ => return Err(bad(i, "value expected")),
                }
                sum.values += 1;
                sum.tokens += 1;
                if stack.is_empty() {
                    sum.end = i;
                    return Ok(sum);
                }
                st = St::AfterValue;
            }
            St::KeyOrClose if c == b'}' => {
                stack.pop();
                i += 1;
                sum.tokens += 1;
                sink.end(true, i);
                if stack.is_empty() {
                    sum.end = i;
                    return Ok(sum);
                }
                st = St::AfterValue;
            }
            St::KeyOrClose | St::Key => {
                if c != b'"' {
                    return Err(bad(i, "key expected"));
                }
                let k = lex_string(b, i, want_text)?;
                if !k.scalars_ok {
                    sum.scalars_ok = false;
                }
                i = k.span.end;
                sum.tokens += 1;
                sink.key(k);
                i = skip_ws(b, i);
                if i >= b.len() {
                    return Err(eof(i, "eof before colon"));
                }
                if b[i] != b':' {
                    return Err(bad(i, "colon expected"));
                }
                i += 1;
                sum.tokens += 1;
                st = St::Value;
            }
            St::AfterValue => {
                let in_obj = *stack.last().unwrap();
                if c == b',' {
                    i += 1;
                    sum.tokens += 1;
                    st = if in_obj { St::Key } else { St::Value };
                } else if (c == b'}' && in_obj) || (c == b']' && !in_obj) {
                    stack.pop();
                    i += 1;
                    sum.tokens += 1;
                    sink.end(in_obj, i);
                    if stack.is_empty() {
                        sum.end = i;
                        return Ok(sum);
                    }
                    st = St::AfterValue;
                } else {
                    return Err(bad(i, "comma or closing bracket expected"));
                }
            }
        }
    }
}

/// f64 finiteness of a grammatically valid number literal, by Rust std.
pub fn number_is_finite(lit: &str) -> bool {
    lit.parse::<f64>().map(|f| f.is_finite()).unwrap_or(false)
}

#[derive(Clone, Debug, PartialEq)]
pub enum Verdict {
    /// grammar ok for exactly one value surrounded by whitespace only
    Valid(Summary),
    Invalid(PErr),
}

/// Recognise a complete document: one value, nothing but whitespace around it.
pub fn recognise(b: &[u8]) -> Verdict {
    match scan(b, 0, &mut NoSink) {
        Ok(sum) => {
            let t = skip_ws(b, sum.end);
            if t != b.len() {
                Verdict::Invalid(bad(t, "trailing characters"))
            } else {
                Verdict::Valid(sum)
            }
        }
        Err(e) => Verdict::Invalid(e),
    }
}

/// Acceptance by the two tiers of C02.
#[derive(Clone, Copy, Debug, PartialEq, Eq)]
pub struct Accept {
    pub utf8: bool,
    pub grammar: bool,
    pub scalars: bool,
    pub finite: bool,
    pub max_depth: usize,
}

impl Accept {
    pub fn full(&self) -> bool {
        self.utf8 && self.grammar && self.scalars && self.finite
    }
    pub fn skip(&self) -> bool {
        self.utf8 && self.grammar
    }
}

pub fn accept(b: &[u8]) -> Accept {
    let utf8 = std::str::from_utf8(b).is_ok();
    match recognise(b) {
        Verdict::Valid(s) => Accept {
            utf8,
            grammar: true,
            scalars: s.scalars_ok,
            finite: s.finite_ok,
            max_depth: s.max_depth,
        },
        Verdict::Invalid(_) => Accept { utf8, grammar: false, scalars: false, finite: false, max_depth: 0 },
    }
}

/// `b[..end]` is a prefix of some well-formed (grammar + UTF-8) JSON text.
pub fn prefix_ok(b: &[u8], end: usize) -> bool {
    let p = &b[..end];
    match std::str::from_utf8(p) {
        Ok(_) => {}
        Err(e) => {
            if e.error_len().is_some() {
                return false;
            }
        }
    }
    match scan(p, 0, &mut NoSink) {
        Ok(sum) => skip_ws(p, sum.end) == p.len(),
        Err(e) => e.eof,
    }
}

// ------------------------------------------------------------------------------------------
// tree builder

struct TreeSink {
    stack: Vec<Frame>,
    root: Option<Node>,
    has_dup: bool,
}

enum Frame {
    Arr(usize, Vec<Node>),
    Obj(usize, Vec<(StrLit, Node)>, Option<StrLit>),
}

impl TreeSink {
    fn put(&mut self, n: Node) {
        match self.stack.last_mut() {
            None => self.root = Some(n),
            Some(Frame::Arr(_, v)) => v.push(n),
            Some(Frame::Obj(_, v, k)) => {
                let key = k.take().expect("key before value");
                if v.iter().any(|(kk, _)| kk.text == key.text) {
                    self.has_dup = true;
                }
                v.push((key, n));
            }
        }
    }
}

impl Sink for TreeSink {
    fn want_text(&self) -> bool {
        true
    }
    fn scalar(&mut self, n: Node) {
        self.put(n)
    }
    fn begin(&mut self, is_obj: bool, pos: usize) {
        self.stack.push(if is_obj { Frame::Obj(pos, Vec::new(), None) } else { Frame::Arr(pos, Vec::new()) });
    }
    fn key(&mut self, k: StrLit) {
        if let Some(Frame::Obj(_, _, slot)) = self.stack.last_mut() {
            *slot = Some(k);
        }
    }
    fn end(&mut self, _is_obj: bool, end: usize) {
        let f = self.stack.pop().unwrap();
        let n = match f {
            Frame::Arr(s, v) => Node { span: Span { start: s, end }, kind: Kind::Arr(v) },
            Frame::Obj(s, v, _) => Node { span: Span { start: s, end }, kind: Kind::Obj(v) },
        };
        self.put(n);
    }
}

/// Parse one value starting at `from`; trailing bytes are not looked at.
/// Callers must keep nesting moderate (the tree is dropped recursively).
pub fn parse_at(b: &[u8], from: usize) -> Result<(Node, Summary), PErr> {
    let mut sink = TreeSink { stack: Vec::new(), root: None, has_dup: false };
    let mut sum = scan(b, from, &mut sink)?;
    sum.has_dup_keys = sink.has_dup;
    Ok((sink.root.take().unwrap(), sum))
}

/// Parse a complete document.
pub fn parse(b: &[u8]) -> Result<(Node, Summary), PErr> {
    let (n, sum) = parse_at(b, 0)?;
    let t = skip_ws(b, sum.end);
    if t != b.len() {
        return Err(bad(t, "trailing characters"));
    }
    Ok((n, sum))
}

// ------------------------------------------------------------------------------------------
// numbers

#[derive(Clone, Copy, Debug, PartialEq)]
pub enum NumClass {
    U64(u64),
    I64(i64),
    /// finite f64 (bits matter: -0.0)
    F64(f64),
    /// the literal overflows f64: must be rejected by decoding entry points
    Inf,
}

/// Classification rule of C07. `lit` must satisfy the number grammar.
/// `-0` (integer grammar, negative) is classified as F64(-0.0); callers that accept the
/// integer reading too use `is_neg_zero_int`.
pub fn classify_number(lit: &str) -> NumClass {
    let is_int = !lit.bytes().any(|c| c == b'.' || c == b'e' || c == b'E');
    if is_int {
        if let Some(rest) = lit.strip_prefix('-') {
            if rest.bytes().all(|c| c == b'0') {
                return NumClass::F64(-0.0);
            }
            if let Ok(v) = lit.parse::<i64>() {
                return NumClass::I64(v);
            }
        } else if let Ok(v) = lit.parse::<u64>() {
            return NumClass::U64(v);
        }
    }
    match lit.parse::<f64>() {
        Ok(f) if f.is_finite() => NumClass::F64(f),
        _ => NumClass::Inf,
    }
}

pub fn is_int_literal(lit: &str) -> bool {
    !lit.bytes().any(|c| c == b'.' || c == b'e' || c == b'E')
}

// ------------------------------------------------------------------------------------------
// plain data model (no spans) used for comparisons

#[derive(Clone, Debug, PartialEq)]
pub enum M {
    Null,
    Bool(bool),
    U64(u64),
    I64(i64),
    /// f64 by bits
    F64(u64),
    /// raw number literal (raw-number mode)
    Raw(String),
    Str(String),
    Arr(Vec<M>),
    Obj(Vec<(String, M)>),
}

impl M {
    pub fn f64(f: f64) -> M {
        M::F64(f.to_bits())
    }
    /// order-insensitive canonical form: object members sorted by key (stable, so duplicate
    /// names keep their relative order)
    pub fn sorted(&self) -> M {
        match self {
            M::Arr(v) => M::Arr(v.iter().map(|x| x.sorted()).collect()),
            M::Obj(v) => {
                let mut w: Vec<(String, M)> = v.iter().map(|(k, x)| (k.clone(), x.sorted())).collect();
                w.sort_by(|a, b| a.0.cmp(&b.0));
                M::Obj(w)
            }
            x => x.clone(),
        }
    }
    pub fn dump(&self) -> String {
        let mut s = String::new();
        self.dump_into(&mut s);
        s
    }
    fn dump_into(&self, s: &mut String) {
        match self {
            M::Null => s.push_str("null"),
            M::Bool(b) => {
                let _ = write!(s, "{b}");
            }
            M::U64(u) => {
                let _ = write!(s, "u{u}");
            }
            M::I64(i) => {
                let _ = write!(s, "i{i}");
            }
            M::F64(b) => {
                let _ = write!(s, "f{:?}", f64::from_bits(*b));
            }
            M::Raw(r) => {
                let _ = write!(s, "r{r}");
            }
            M::Str(t) => {
                let _ = write!(s, "{t:?}");
            }
            M::Arr(v) => {
                s.push('[');
                for (i, x) in v.iter().enumerate() {
                    if i > 0 {
                        s.push(',');
                    }
                    x.dump_into(s);
                }
                s.push(']');
            }
            M::Obj(v) => {
                s.push('{');
                for (i, (k, x)) in v.iter().enumerate() {
                    if i > 0 {
                        s.push(',');
                    }
                    let _ = write!(s, "{k:?}:");
                    x.dump_into(s);
                }
                s.push('}');
            }
        }
    }
}

impl Node {
    /// The data model this node denotes. Numbers per `classify_number`; `Inf` becomes
    /// F64(inf) (callers reject such documents beforehand). `-0` integer literal → F64(-0.0).
    pub fn model(&self, b: &[u8], raw_numbers: bool) -> M {
        match &self.kind {
            Kind::Null => M::Null,
            Kind::Bool(x) => M::Bool(*x),
            Kind::Num => {
                let lit = std::str::from_utf8(self.span.of(b)).unwrap();
                if raw_numbers {
                    M::Raw(lit.to_string())
                } else {
                    match classify_number(lit) {
                        NumClass::U64(u) => M::U64(u),
                        NumClass::I64(i) => M::I64(i),
                        NumClass::F64(f) => M::f64(f),
                        NumClass::Inf => M::f64(f64::INFINITY),
                    }
                }
            }
            Kind::Str(s) => M::Str(s.text.clone()),
            Kind::Arr(v) => M::Arr(v.iter().map(|n| n.model(b, raw_numbers)).collect()),
            Kind::Obj(v) => M::Obj(v.iter().map(|(k, n)| (k.text.clone(), n.model(b, raw_numbers))).collect()),
        }
    }

    pub fn depth(&self) -> usize {
        match &self.kind {
            Kind::Arr(v) => 1 + v.iter().map(|n| n.depth()).max().unwrap_or(0),
            Kind::Obj(v) => 1 + v.iter().map(|(_, n)| n.depth()).max().unwrap_or(0),
            _ => 0,
        }
    }

    pub fn count(&self) -> usize {
        match &self.kind {
            Kind::Arr(v) => 1 + v.iter().map(|n| n.count()).sum::<usize>(),
            Kind::Obj(v) => 1 + v.iter().map(|(_, n)| n.count()).sum::<usize>(),
            _ => 1,
        }
    }

    /// Path lookup: "first member wins".
    pub fn lookup(&self, path: &[PathElem]) -> Option<&Node> {
        let mut cur = self;
        for p in path {
            cur = match (p, &cur.kind) {
                (PathElem::Key(k), Kind::Obj(v)) => &v.iter().find(|(kk, _)| kk.text == *k)?.1,
                (PathElem::Idx(i), Kind::Arr(v)) => v.get(*i)?,
                _ => return None,
            };
        }
        Some(cur)
    }

    /// all paths (to every node), depth-first, root first. For objects with duplicate names
    /// only the first occurrence is descended into (the others are unreachable by path).
    pub fn all_paths(&self, cap: usize) -> Vec<Vec<PathElem>> {
        let mut out = Vec::new();
        let mut cur = Vec::new();
        self.paths_rec(&mut cur, &mut out, cap);
        out
    }
    /// The `n` last root-to-node paths in document order (children of the last members), or None for scalars.
    pub fn last_paths(&self, n: usize) -> Option<Vec<Vec<PathElem>>> {
        let mut out = Vec::new();
        let mut cur = Vec::new();
        let mut node = self;
        loop {
            match &node.kind {
                Kind::Arr(v) if !v.is_empty() => {
                    for i in v.len().saturating_sub(n)..v.len() {
                        let mut q = cur.clone();
                        q.push(PathElem::Idx(i));
                        out.push(q);
                    }
                    cur.push(PathElem::Idx(v.len() - 1));
                    node = &v[v.len() - 1];
                }
                Kind::Obj(v) if !v.is_empty() => {
                    for (k, _) in &v[v.len().saturating_sub(n)..] {
                        let mut q = cur.clone();
                        q.push(PathElem::Key(k.text.clone()));
                        out.push(q);
                    }
                    cur.push(PathElem::Key(v[v.len() - 1].0.text.clone()));
                    node = &v[v.len() - 1].1;
                }
                _ => break,
            }
            if cur.len() > 6 {
                break;
            }
        }
        if out.is_empty() {
            None
        } else {
            Some(out)
        }
    }
    fn paths_rec(&self, cur: &mut Vec<PathElem>, out: &mut Vec<Vec<PathElem>>, cap: usize) {
        if out.len() >= cap {
            return;
        }
        out.push(cur.clone());
        match &self.kind {
            Kind::Arr(v) => {
                for (i, n) in v.iter().enumerate() {
                    cur.push(PathElem::Idx(i));
                    n.paths_rec(cur, out, cap);
                    cur.pop();
                }
            }
            Kind::Obj(v) => {
                for (idx, (k, n)) in v.iter().enumerate() {
                    if v[..idx].iter().any(|(kk, _)| kk.text == k.text) {
                        continue;
                    }
                    cur.push(PathElem::Key(k.text.clone()));
                    n.paths_rec(cur, out, cap);
                    cur.pop();
                }
            }
            _ => {}
        }
    }
}

#[derive(Clone, Debug, PartialEq, Eq, Hash)]
pub enum PathElem {
    Key(String),
    Idx(usize),
}

pub fn path_to_string(p: &[PathElem]) -> String {
    let mut s = String::from("[");
    for (i, e) in p.iter().enumerate() {
        if i > 0 {
            s.push(',');
        }
        match e {
            PathElem::Key(k) => {
                let _ = write!(s, "{k:?}");
            }
            PathElem::Idx(i) => {
                let _ = write!(s, "{i}");
            }
        }
    }
    s.push(']');
    s
}

// ------------------------------------------------------------------------------------------
// strings

/// Strict decode of the inside of a string literal (bytes between the quotes).
/// Ok(text) iff the literal is well-formed: UTF-8, grammar, escapes denote scalars.
pub fn decode_string(inner: &[u8]) -> Option<String> {
    let mut lit = Vec::with_capacity(inner.len() + 2);
    lit.push(b'"');
    lit.extend_from_slice(inner);
    lit.push(b'"');
    match lex_string(&lit, 0, true) {
        Ok(s) if s.span.end == lit.len() && s.scalars_ok && s.utf8_ok => Some(s.text),
        _ => None,
    }
}

/// Lossy decode: grammar must hold (None otherwise); invalid UTF-8 as `from_utf8_lossy`,
/// unpaired surrogate escapes as U+FFFD.
pub fn decode_string_lossy(inner: &[u8]) -> Option<String> {
    let mut lit = Vec::with_capacity(inner.len() + 2);
    lit.push(b'"');
    lit.extend_from_slice(inner);
    lit.push(b'"');
    match lex_string(&lit, 0, true) {
        Ok(s) if s.span.end == lit.len() => Some(s.text),
        _ => None,
    }
}

/// Reference escaper (the spelling sonic-rs documents: short escapes for \b \t \n \f \r,
/// \u00xx for other C0 controls, everything else verbatim).
pub fn escape_string(s: &str) -> String {
    let mut o = String::with_capacity(s.len() + 2);
    o.push('"');
    for ch in s.chars() {
        match ch {
            '"' => o.push_str("\\\""),
            '\\' => o.push_str("\\\\"),
            '\u{8}' => o.push_str("\\b"),
            '\t' => o.push_str("\\t"),
            '\n' => o.push_str("\\n"),
            '\u{c}' => o.push_str("\\f"),
            '\r' => o.push_str("\\r"),
            c if (c as u32) < 0x20 => {
                let _ = write!(o, "\\u{:04x}", c as u32);
            }
            c => o.push(c),
        }
    }
    o.push('"');
    o
}

/// Check the escaping discipline of a serialized string literal (with quotes) against the
/// text it must denote, independent of escape spelling: decodes to `text`; every escape
/// sequence denotes a quote, a backslash or a C0 control; so everything else is verbatim.
pub fn check_escaped_literal(lit: &[u8], text: &str) -> Result<(), String> {
    if lit.len() < 2 || lit[0] != b'"' || lit[lit.len() - 1] != b'"' {
        return Err("not a quoted literal".into());
    }
    let s = lex_string(lit, 0, true).map_err(|e| format!("literal does not lex: {} at {}", e.reason, e.offset))?;
    if s.span.end != lit.len() {
        return Err("literal ends early".into());
    }
    if !s.utf8_ok || !s.scalars_ok {
        return Err("literal is not UTF-8 / has unpaired surrogate escapes".into());
    }
    if s.text != text {
        return Err(format!("decodes to {:?}, expected {:?}", trunc(&s.text, 80), trunc(text, 80)));
    }
    // every escape must denote '"', '\\' or a C0 control
    let inner = &lit[1..lit.len() - 1];
    let mut i = 0;
    while i < inner.len() {
        if inner[i] == b'\\' {
            let e = inner[i + 1];
            let ok = match e {
                b'"' | b'\\' | b'b' | b'f' | b'n' | b'r' | b't' => true,
                b'u' => {
                    let v = std::str::from_utf8(&inner[i + 2..i + 6]).ok().and_then(|h| u32::from_str_radix(h, 16).ok());
                    i += 4;
                    matches!(v, Some(x) if x < 0x20)
                }
                _ => false, // '\/' escapes something that must be verbatim
            };
            if !ok {
                return Err(format!("escape at {} denotes a character that must be verbatim", i));
            }
            i += 2;
        } else {
            i += 1;
        }
    }
    Ok(())
}

pub fn trunc(s: &str, n: usize) -> String {
    if s.len() <= n {
        s.to_string()
    } else {
        let mut e = n;
        while !s.is_char_boundary(e) {
            e -= 1;
        }
        format!("{}…(+{}B)", &s[..e], s.len() - e)
    }
}

pub fn show_bytes(b: &[u8], n: usize) -> String {
    let mut s = String::new();
    for &c in b.iter().take(n) {
        if (0x20..0x7f).contains(&c) && c != b'\\' {
            s.push(c as char);
        } else {
            let _ = write!(s, "\\x{c:02x}");
        }
    }
    if b.len() > n {
        let _ = write!(s, "…(+{}B)", b.len() - n);
    }
    s
}

// ------------------------------------------------------------------------------------------
// pretty printing reference: re-indent a *compact* well-formed text

/// Two-space indent, `": "` after keys, one member per line, empty containers stay `[]`/`{}`.
pub fn reindent(compact: &[u8]) -> Vec<u8> {
    let mut out = Vec::with_capacity(compact.len() * 2);
    let mut depth = 0usize;
    let mut i = 0;
    let nl = |out: &mut Vec<u8>, d: usize| {
        out.push(b'\n');
        for _ in 0..d {
            out.extend_from_slice(b"  ");
        }
    };
    while i < compact.len() {
        let c = compact[i];
        match c {
            b'"' => {
                // copy string verbatim
                let start = i;
                i += 1;
                while i < compact.len() {
                    if compact[i] == b'\\' {
                        i += 2;
                    } else if compact[i] == b'"' {
                        i += 1;
                        break;
                    } else {
                        i += 1;
                    }
                }
                out.extend_from_slice(&compact[start..i.min(compact.len())]);
                continue;
            }
            b'[' | b'{' => {
                let close = if c == b'[' { b']' } else { b'}' };
                if i + 1 < compact.len() && compact[i + 1] == close {
                    out.push(c);
                    out.push(close);
                    i += 2;
                    continue;
                }
                out.push(c);
                depth += 1;
                nl(&mut out, depth);
            }
            b']' | b'}' => {
                depth = depth.saturating_sub(1);
                nl(&mut out, depth);
                out.push(c);
            }
            b',' => {
                out.push(c);
                nl(&mut out, depth);
            }
            b':' => {
                out.extend_from_slice(b": ");
            }
            _ => out.push(c),
        }
        i += 1;
    }
    out
}

/// Remove insignificant whitespace from a well-formed text (inverse direction of reindent).
pub fn compact(text: &[u8]) -> Vec<u8> {
    let mut out = Vec::with_capacity(text.len());
    let mut i = 0;
    while i < text.len() {
        let c = text[i];
        if c == b'"' {
            let start = i;
            i += 1;
            while i < text.len() {
                if text[i] == b'\\' {
                    i += 2;
                } else if text[i] == b'"' {
                    i += 1;
                    break;
                } else {
                    i += 1;
                }
            }
            out.extend_from_slice(&text[start..i.min(text.len())]);
            continue;
        }
        if !is_ws(c) {
            out.push(c);
        }
        i += 1;
    }
    out
}

/// line (1-based) and column (bytes since the last '\n'; 0 right after a newline or at the
/// start of input... see `line_col` users) of a byte offset.
pub fn line_col(b: &[u8], offset: usize) -> (usize, usize) {
    let off = offset.min(b.len());
    let mut line = 1;
    let mut last_nl: Option<usize> = None;
    for (i, &c) in b[..off].iter().enumerate() {
        if c == b'\n' {
            line += 1;
            last_nl = Some(i);
        }
    }
    let col = match last_nl {
        Some(p) => off - p - 1,
        None => off,
    };
    (line, col)
}

#[cfg(test)]
mod tests {
    use super::*;

    #[test]
    fn basics() {
        assert!(accept(b" [1, {\"a\":\"\\u00e9\"}, null] ").full());
        assert!(!accept(b"[1,]").grammar);
        assert!(!accept(b"\"\\ud800\"").full());
        assert!(accept(b"\"\\ud800\"").skip());
        assert!(!accept(b"1e999").full());
        assert!(accept(b"1e999").skip());
        assert!(prefix_ok(b"[1, {\"a\":tru", 12));
        assert!(!prefix_ok(b"[1, }", 5));
        assert_eq!(reindent(b"{\"a\":[1,2,{}],\"b\":[]}"), b"{\n  \"a\": [\n    1,\n    2,\n    {}\n  ],\n  \"b\": []\n}".to_vec());
        assert_eq!(classify_number("-0"), NumClass::F64(-0.0));
        assert_eq!(classify_number("18446744073709551615"), NumClass::U64(u64::MAX));
        assert!(matches!(classify_number("18446744073709551616"), NumClass::F64(_)));
        assert_eq!(decode_string(b"a\\ud83d\\ude00b").as_deref(), Some("a😀b"));
        assert_eq!(decode_string(b"\\ude00"), None);
        assert_eq!(decode_string_lossy(b"\\ud83dx").as_deref(), Some("\u{FFFD}x"));
        assert_eq!(line_col(b"ab\ncd", 4), (2, 1));
    }
}
