//! Crash capture: a fatal signal (SIGSEGV, SIGBUS, SIGILL, SIGABRT, SIGFPE) while a case is being
//! evaluated is a violation of "never touches invalid memory / never aborts". The handler (only
//! async-signal-safe calls) writes the current case as a replay file, prints the VIOLATION line and
//! exits with status 1.

use std::cell::Cell;
use std::sync::atomic::{AtomicBool, AtomicUsize, Ordering};

thread_local! {
    static CUR_PTR: Cell<usize> = const { Cell::new(0) };
    static CUR_LEN: Cell<usize> = const { Cell::new(0) };
    static CUR_SUB_PTR: Cell<usize> = const { Cell::new(0) };
    static CUR_SUB_LEN: Cell<usize> = const { Cell::new(0) };
}

static mut PATH_PREFIX: [u8; 512] = [0; 512];
static PATH_PREFIX_LEN: AtomicUsize = AtomicUsize::new(0);
static mut HEADER: [u8; 512] = [0; 512];
static HEADER_LEN: AtomicUsize = AtomicUsize::new(0);
static mut PROP: [u8; 16] = [0; 16];
static PROP_LEN: AtomicUsize = AtomicUsize::new(0);
static IN_HANDLER: AtomicBool = AtomicBool::new(false);

/// Register the case that is about to be evaluated on this thread.
#[inline]
pub fn set_current(sub: &'static str, case: &[u8]) {
    CUR_SUB_PTR.with(|c| c.set(sub.as_ptr() as usize));
    CUR_SUB_LEN.with(|c| c.set(sub.len()));
    CUR_PTR.with(|c| c.set(case.as_ptr() as usize));
    CUR_LEN.with(|c| c.set(case.len()));
}

#[inline]
pub fn clear_current() {
    CUR_LEN.with(|c| c.set(0));
    CUR_PTR.with(|c| c.set(0));
}

unsafe fn wr(fd: i32, b: &[u8]) {
    let mut off = 0;
    while off < b.len() {
        let n = libc::write(fd, b.as_ptr().add(off) as *const libc::c_void, b.len() - off);
        if n <= 0 {
            break;
        }
        off += n as usize;
    }
}

fn fmt_usize(mut v: usize, buf: &mut [u8; 24]) -> &[u8] {
    let mut i = buf.len();
    if v == 0 {
        i -= 1;
        buf[i] = b'0';
    }
    while v > 0 {
        i -= 1;
        buf[i] = b'0' + (v % 10) as u8;
        v /= 10;
    }
    &buf[i..]
}

extern "C" fn on_crash(sig: libc::c_int, _info: *mut libc::siginfo_t, _ctx: *mut libc::c_void) {
    unsafe {
        if IN_HANDLER.swap(true, Ordering::SeqCst) {
            // another thread is already reporting (a defect often makes several workers crash at once):
            // let it finish its replay file and VIOLATION line — it ends the process
            loop {
                libc::pause();
            }
        }
        let mut nb = [0u8; 24];
        // path = prefix + "sig" + N + "-" + pid + ".json"
        let mut path = [0u8; 640];
        let mut pl = 0usize;
        let pre = std::slice::from_raw_parts(std::ptr::addr_of!(PATH_PREFIX) as *const u8, PATH_PREFIX_LEN.load(Ordering::Relaxed));
        path[..pre.len()].copy_from_slice(pre);
        pl += pre.len();
        for part in [&b"sig"[..], fmt_usize(sig as usize, &mut nb)] {
            path[pl..pl + part.len()].copy_from_slice(part);
            pl += part.len();
        }
        path[pl] = b'-';
        pl += 1;
        let mut nb2 = [0u8; 24];
        let pid = fmt_usize(libc::getpid() as usize, &mut nb2);
        path[pl..pl + pid.len()].copy_from_slice(pid);
        pl += pid.len();
        path[pl..pl + 5].copy_from_slice(b".json");
        pl += 5;
        path[pl] = 0;
        let fd = libc::open(path.as_ptr() as *const libc::c_char, libc::O_CREAT | libc::O_WRONLY | libc::O_TRUNC, 0o644);
        let (cp, cl) = (CUR_PTR.with(|c| c.get()), CUR_LEN.with(|c| c.get()));
        let (sp, sl) = (CUR_SUB_PTR.with(|c| c.get()), CUR_SUB_LEN.with(|c| c.get()));
        if fd >= 0 {
            let hdr = std::slice::from_raw_parts(std::ptr::addr_of!(HEADER) as *const u8, HEADER_LEN.load(Ordering::Relaxed));
            wr(fd, hdr);
            wr(fd, b"\"sub\":\"");
            if sp != 0 {
                wr(fd, std::slice::from_raw_parts(sp as *const u8, sl));
            }
            wr(fd, b"\",\"signature\":\"crash/signal-");
            let mut nb3 = [0u8; 24];
            wr(fd, fmt_usize(sig as usize, &mut nb3));
            wr(fd, b"\",\"message\":\"the process received a fatal signal while evaluating this case\",\"case_hex\":\"");
            if cp != 0 {
                let case = std::slice::from_raw_parts(cp as *const u8, cl);
                let hexd = b"0123456789abcdef";
                let mut chunk = [0u8; 512];
                let mut k = 0;
                for &b in case {
                    chunk[k] = hexd[(b >> 4) as usize];
                    chunk[k + 1] = hexd[(b & 15) as usize];
                    k += 2;
                    if k == chunk.len() {
                        wr(fd, &chunk);
                        k = 0;
                    }
                }
                wr(fd, &chunk[..k]);
            }
            wr(fd, b"\"}\n");
            libc::close(fd);
        }
        wr(1, b"\nviolation: fatal signal ");
        let mut nb4 = [0u8; 24];
        wr(1, fmt_usize(sig as usize, &mut nb4));
        wr(1, b" while evaluating a case\nVIOLATION property=");
        wr(1, std::slice::from_raw_parts(std::ptr::addr_of!(PROP) as *const u8, PROP_LEN.load(Ordering::Relaxed)));
        wr(1, b" replay=");
        wr(1, &path[..pl]);
        wr(1, b"\n");
        libc::_exit(1);
    }
}

pub fn install(property: &str, config: &str, verif_dir: &str, seed: u64) {
    let dir = format!("{verif_dir}/replays");
    let _ = std::fs::create_dir_all(&dir);
    let prefix = format!("{dir}/{property}-{config}-crash-{seed}-");
    let header = format!("{{\"property\":\"{property}\",\"config\":\"{config}\",\"seed\":{seed},");
    unsafe {
        let p = &mut *std::ptr::addr_of_mut!(PATH_PREFIX);
        let n = prefix.len().min(p.len());
        p[..n].copy_from_slice(&prefix.as_bytes()[..n]);
        PATH_PREFIX_LEN.store(n, Ordering::Relaxed);
        let h = &mut *std::ptr::addr_of_mut!(HEADER);
        let n = header.len().min(h.len());
        h[..n].copy_from_slice(&header.as_bytes()[..n]);
        HEADER_LEN.store(n, Ordering::Relaxed);
        let q = &mut *std::ptr::addr_of_mut!(PROP);
        let n = property.len().min(q.len());
        q[..n].copy_from_slice(&property.as_bytes()[..n]);
        PROP_LEN.store(n, Ordering::Relaxed);
        for sig in [libc::SIGSEGV, libc::SIGBUS, libc::SIGILL, libc::SIGABRT, libc::SIGFPE] {
            let mut sa: libc::sigaction = std::mem::zeroed();
            sa.sa_sigaction = on_crash as usize;
            sa.sa_flags = libc::SA_SIGINFO | libc::SA_ONSTACK | libc::SA_NODEFER;
            libc::sigemptyset(&mut sa.sa_mask);
            libc::sigaction(sig, &sa, std::ptr::null_mut());
        }
    }
}

/// Memory with an inaccessible page right after (or right before) the data.
pub struct Guarded {
    base: *mut u8,
    map_len: usize,
    data: *mut u8,
    len: usize,
}

unsafe impl Send for Guarded {}

impl Guarded {
    fn page() -> usize {
        4096
    }
    /// `bytes` placed so that it ends exactly at the start of a PROT_NONE page
    pub fn ending_at_guard(bytes: &[u8]) -> Guarded {
        let pg = Self::page();
        let data_pages = bytes.len().div_ceil(pg).max(1);
        let map_len = (data_pages + 1) * pg;
        unsafe {
            let base = libc::mmap(std::ptr::null_mut(), map_len, libc::PROT_READ | libc::PROT_WRITE, libc::MAP_PRIVATE | libc::MAP_ANONYMOUS, -1, 0) as *mut u8;
            assert!(base as isize != -1, "mmap failed");
            libc::mprotect(base.add(data_pages * pg) as *mut libc::c_void, pg, libc::PROT_NONE);
            let data = base.add(data_pages * pg - bytes.len());
            std::ptr::copy_nonoverlapping(bytes.as_ptr(), data, bytes.len());
            Guarded { base, map_len, data, len: bytes.len() }
        }
    }
    /// `bytes` placed so that it starts right after a PROT_NONE page
    pub fn starting_after_guard(bytes: &[u8]) -> Guarded {
        let pg = Self::page();
        let data_pages = bytes.len().div_ceil(pg).max(1);
        let map_len = (data_pages + 1) * pg;
        unsafe {
            let base = libc::mmap(std::ptr::null_mut(), map_len, libc::PROT_READ | libc::PROT_WRITE, libc::MAP_PRIVATE | libc::MAP_ANONYMOUS, -1, 0) as *mut u8;
            assert!(base as isize != -1, "mmap failed");
            libc::mprotect(base as *mut libc::c_void, pg, libc::PROT_NONE);
            let data = base.add(pg);
            std::ptr::copy_nonoverlapping(bytes.as_ptr(), data, bytes.len());
            Guarded { base, map_len, data, len: bytes.len() }
        }
    }
    pub fn bytes(&self) -> &[u8] {
        unsafe { std::slice::from_raw_parts(self.data, self.len) }
    }
    pub fn as_str(&self) -> Option<&str> {
        std::str::from_utf8(self.bytes()).ok()
    }
    /// reuse the mapping for other content of at most the same page count (ending at the guard)
    pub fn refill_end(&mut self, bytes: &[u8]) -> bool {
        let pg = Self::page();
        let data_pages = self.map_len / pg - 1;
        if bytes.len() > data_pages * pg {
            return false;
        }
        unsafe {
            let data = self.base.add(data_pages * pg - bytes.len());
            std::ptr::copy_nonoverlapping(bytes.as_ptr(), data, bytes.len());
            self.data = data;
            self.len = bytes.len();
        }
        true
    }
}

impl Drop for Guarded {
    fn drop(&mut self) {
        unsafe {
            libc::munmap(self.base as *mut libc::c_void, self.map_len);
        }
    }
}
