//! Oracle self-test: the reference recogniser/parser must agree with serde_json on generated
//! documents and mutations (differences that are by design are excluded). A disagreement is an
//! oracle bug: the run is inconclusive (exit 2), never a violation.

use proptest::prelude::RngCore;
use proptest::test_runner::{Config, RngSeed, TestRunner};

use crate::engine::Src;
use crate::gens::{gen_doc, mutate, DocParams};
use crate::refjson::{accept, parse, Kind, Node};

fn to_serde(n: &Node, b: &[u8]) -> serde_json::Value {
    match &n.kind {
        Kind::Null => serde_json::Value::Null,
        Kind::Bool(x) => serde_json::Value::Bool(*x),
        Kind::Num => serde_json::from_slice(n.span.of(b)).unwrap_or(serde_json::Value::Null),
        Kind::Str(s) => serde_json::Value::String(s.text.clone()),
        Kind::Arr(v) => serde_json::Value::Array(v.iter().map(|x| to_serde(x, b)).collect()),
        Kind::Obj(v) => {
            let mut m = serde_json::Map::new();
            for (k, x) in v {
                m.insert(k.text.clone(), to_serde(x, b));
            }
            serde_json::Value::Object(m)
        }
    }
}

pub fn run(seed: u64, n: usize) -> Result<(), String> {
    let mut runner = TestRunner::new(Config { rng_seed: RngSeed::Fixed(seed ^ 0x5e1f), failure_persistence: None, ..Config::default() });
    let p = DocParams { max_depth: 5, ..DocParams::default() };
    for i in 0..n {
        let mut buf = vec![0u8; 200];
        runner.rng().fill_bytes(&mut buf);
        let mut src = Src::new(&buf);
        let doc = gen_doc(&mut src, &p);
        let text = if i % 2 == 0 { doc.clone() } else { mutate(&mut src, &doc).0 };
        let a = accept(&text);
        let sj: Result<serde_json::Value, _> = serde_json::from_slice(&text);
        // serde_json accepts iff full acceptance (depth here is far below 128)
        if a.full() != sj.is_ok() {
            return Err(format!(
                "oracle self-test: refjson accept={:?} serde_json ok={} on {:?}",
                a,
                sj.is_ok(),
                String::from_utf8_lossy(&text)
            ));
        }
        if let Ok(v) = sj {
            let (node, _) = parse(&text).map_err(|e| format!("oracle self-test: parse failed after accept: {e:?}"))?;
            let mine = to_serde(&node, &text);
            if mine != v {
                return Err(format!("oracle self-test: tree differs on {:?}", String::from_utf8_lossy(&text)));
            }
        }
    }
    Ok(())
}
