pub mod alloc;
pub mod crash;
pub mod engine;
pub mod gens;
pub mod refjson;
pub mod selftest;
