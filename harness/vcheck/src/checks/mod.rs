use vbase::engine::{Ctx, Sub};

pub mod c01;
pub mod c02;
pub mod c03;
pub mod c04;
pub mod c05;
pub mod c06;
pub mod c07;
pub mod c08;
pub mod c09;
pub mod c10;
pub mod c11;
pub mod c12;
pub mod c13;
pub mod c14;
pub mod c15;
pub mod c16;
pub mod c17;
pub mod c18;
pub mod c19;
pub mod c20;

pub struct Prop {
    pub id: &'static str,
    pub run: fn(&Ctx),
    pub subs: fn() -> Vec<Sub<'static>>,
    pub rule: &'static str,
    pub assumptions: &'static [&'static str],
}

pub fn all() -> Vec<Prop> {
    vec![
        Prop { id: "C01", run: c01::run, subs: c01::subs, rule: c01::RULE, assumptions: c01::ASSUMPTIONS },
        Prop { id: "C02", run: c02::run, subs: c02::subs, rule: c02::RULE, assumptions: c02::ASSUMPTIONS },
        Prop { id: "C03", run: c03::run, subs: c03::subs, rule: c03::RULE, assumptions: c03::ASSUMPTIONS },
        Prop { id: "C07", run: c07::run, subs: c07::subs, rule: c07::RULE, assumptions: c07::ASSUMPTIONS },
        Prop { id: "C08", run: c08::run, subs: c08::subs, rule: c08::RULE, assumptions: c08::ASSUMPTIONS },
        Prop { id: "C09", run: c09::run, subs: c09::subs, rule: c09::RULE, assumptions: c09::ASSUMPTIONS },
        Prop { id: "C05", run: c05::run, subs: c05::subs, rule: c05::RULE, assumptions: c05::ASSUMPTIONS },
        Prop { id: "C06", run: c06::run, subs: c06::subs, rule: c06::RULE, assumptions: c06::ASSUMPTIONS },
        Prop { id: "C10", run: c10::run, subs: c10::subs, rule: c10::RULE, assumptions: c10::ASSUMPTIONS },
        Prop { id: "C12", run: c12::run, subs: c12::subs, rule: c12::RULE, assumptions: c12::ASSUMPTIONS },
        Prop { id: "C11", run: c11::run, subs: c11::subs, rule: c11::RULE, assumptions: c11::ASSUMPTIONS },
        Prop { id: "C14", run: c14::run, subs: c14::subs, rule: c14::RULE, assumptions: c14::ASSUMPTIONS },
        Prop { id: "C13", run: c13::run, subs: c13::subs, rule: c13::RULE, assumptions: c13::ASSUMPTIONS },
        Prop { id: "C20", run: c20::run, subs: c20::subs, rule: c20::RULE, assumptions: c20::ASSUMPTIONS },
        Prop { id: "C04", run: c04::run, subs: c04::subs, rule: c04::RULE, assumptions: c04::ASSUMPTIONS },
        Prop { id: "C19", run: c19::run, subs: c19::subs, rule: c19::RULE, assumptions: c19::ASSUMPTIONS },
        Prop { id: "C15", run: c15::run, subs: c15::subs, rule: c15::RULE, assumptions: c15::ASSUMPTIONS },
        Prop { id: "C16", run: c16::run, subs: c16::subs, rule: c16::RULE, assumptions: c16::ASSUMPTIONS },
        Prop { id: "C18", run: c18::run, subs: c18::subs, rule: c18::RULE, assumptions: c18::ASSUMPTIONS },
        Prop { id: "C17", run: c17::run, subs: c17::subs, rule: c17::RULE, assumptions: c17::ASSUMPTIONS },
    ]
}

/// entry point of `vcheck worker …` (process-isolated sub-runs)
pub fn worker_main(_args: &[String]) -> i32 {
    2
}
