//! C13 — lazy values are faithful views of their source text.

use serde::Deserialize;
use sonic_rs::{JsonContainerTrait, JsonNumberTrait, JsonType, JsonValueMutTrait, JsonValueTrait, LazyValue, OwnedLazyValue, PointerNode, Value};
use vbase::engine::{Ctx, Fail, Obs, Src, Sub};
use vbase::gens::{self, DocParams};
use vbase::refjson::{self, show_bytes, trunc, Kind, Node, M};
use vbase::{ensure, fail};

use crate::sx::{cmp_node, number_to_m, walk};

pub const RULE: &str = "cases are well-formed JSON values of every type (bare literals, escaped strings, every number class, containers) with generated layout, plus a generated operation history. Sources: LazyValue from from_str / from_slice, as a borrowed struct field, from get and from both iterators; OwnedLazyValue from serde, as a struct field, from From<LazyValue> and from to_lazyvalue. For each source the accessor set (get_type, is_*, as_bool, as_number/as_u64/as_i64/as_f64, as_str, as_raw_number, get, pointer, as_array/as_object + len/iteration) is compared with the reference tree of the raw text; to_string must reproduce the raw text verbatim (deserialize-then-serialize == trimmed input); Value::try_from(lazy) must equal the reference; conversions borrowed->owned and clones must agree. Numbers of every length (1..=40 integer digits x 0..=70 fraction digits) as members. Histories on OwnedLazyValue (clone, clone_from onto a value whose caches are filled, take, as_array_mut/as_object_mut + push / append_pair / replace / remove, get_mut, pointer_mut + assignment, mutable lookups that must fail and must leave the child's text, raw number and type unchanged) are mirrored on a reference model; afterwards parse(to_string(mutated)) must equal the model, untouched children must still serialize to their source span byte for byte, and clones taken earlier must be unchanged. Non-trivial = container with >= 1 member or escaped string, or a history with a mutation after a clone; distinct by case bytes.";
pub const ASSUMPTIONS: &[&str] = &["refjson parser", "Display for OwnedLazyValue is not part of the statement"];

#[derive(Deserialize)]
struct Borrowed<'a> {
    #[serde(borrow)]
    v: LazyValue<'a>,
    o: OwnedLazyValue,
}

/// compare the accessor view of a lazy value with the reference node
fn check_view<'a, T>(src_name: &'static str, v: &T, n: &Node, doc: &[u8]) -> Result<(), Fail>
where
    T: JsonValueTrait,
{
    let sig = |k: &str| format!("C13/{src_name}/{k}");
    let raw = show_bytes(n.span.of(doc), 160);
    let want_type = match &n.kind {
        Kind::Null => JsonType::Null,
        Kind::Bool(_) => JsonType::Boolean,
        Kind::Num => JsonType::Number,
        Kind::Str(_) => JsonType::String,
        Kind::Arr(_) => JsonType::Array,
        Kind::Obj(_) => JsonType::Object,
    };
    ensure!(v.get_type() == want_type, sig("type"), "{src_name}: get_type() = {:?} for {raw}", v.get_type());
    ensure!(v.is_null() == matches!(n.kind, Kind::Null) && v.is_boolean() == matches!(n.kind, Kind::Bool(_)) && v.is_number() == matches!(n.kind, Kind::Num) && v.is_str() == matches!(n.kind, Kind::Str(_)) && v.is_array() == matches!(n.kind, Kind::Arr(_)) && v.is_object() == matches!(n.kind, Kind::Obj(_)), sig("is_x"), "{src_name}: is_* predicates wrong for {raw}");
    match &n.kind {
        Kind::Bool(b) => {
            ensure!(v.as_bool() == Some(*b) && v.is_true() == *b && v.is_false() == !*b, sig("bool"), "{src_name}: as_bool() = {:?} for {raw}", v.as_bool());
        }
        Kind::Num => {
            let lit = std::str::from_utf8(n.span.of(doc)).unwrap();
            let num = v.as_number();
            let got = num.as_ref().map(number_to_m);
            let mut p = String::from("$");
            match got {
                Some(g) => {
                    if let Err((_, msg)) = cmp_node(n, doc, &g, false, &mut p) {
                        fail!(sig("number"), "{src_name}: as_number(): {msg}");
                    }
                }
                None => fail!(sig("number"), "{src_name}: as_number() is None for {lit}"),
            }
            let n_ = num.unwrap();
            ensure!(v.as_u64() == n_.as_u64() && v.as_i64() == n_.as_i64() && v.as_f64() == n_.as_f64() && v.is_u64() == n_.is_u64() && v.is_i64() == n_.is_i64() && v.is_f64() == n_.is_f64(), sig("number"), "{src_name}: as_u64/as_i64/as_f64 disagree with as_number for {lit}");
            ensure!(v.as_raw_number().map(|r| r.as_str().to_string()).as_deref() == Some(lit), sig("raw-number"), "{src_name}: as_raw_number() = {:?} for {lit}", v.as_raw_number().map(|r| r.as_str().to_string()));
        }
        Kind::Str(s) => {
            ensure!(v.as_str() == Some(s.text.as_str()), sig("string"), "{src_name}: as_str() = {:?} for {raw}", v.as_str());
        }
        _ => {}
    }
    if !matches!(n.kind, Kind::Bool(_)) {
        ensure!(v.as_bool().is_none(), sig("bool"), "{src_name}: as_bool() is Some for {raw}");
    }
    if !matches!(n.kind, Kind::Str(_)) {
        ensure!(v.as_str().is_none(), sig("string"), "{src_name}: as_str() is Some for {raw}");
    }
    if !matches!(n.kind, Kind::Num) {
        ensure!(v.as_number().is_none() && v.as_u64().is_none() && v.as_f64().is_none(), sig("number"), "{src_name}: numeric accessor is Some for {raw}");
    }
    Ok(())
}

fn ser<T: serde::Serialize>(v: &T) -> Result<String, Fail> {
    sonic_rs::to_string(v).map_err(|e| Fail::new("C13/ser-error", format!("{e}")))
}

/// children of a LazyValue through get / pointer equal the reference children
fn check_lazy_children(src_name: &'static str, v: &LazyValue, n: &Node, doc: &[u8], depth: usize) -> Result<(), Fail> {
    check_view(src_name, v, n, doc)?;
    ensure!(v.as_raw_str().as_bytes() == n.span.of(doc), format!("C13/{src_name}/raw-text"), "{src_name}: as_raw_str() = {:?}, expected {:?}", trunc(v.as_raw_str(), 160), show_bytes(n.span.of(doc), 160));
    ensure!(ser(v)? == v.as_raw_str(), format!("C13/{src_name}/serialize-verbatim"), "{src_name}: to_string differs from the raw text {:?}", trunc(v.as_raw_str(), 160));
    if depth > 3 {
        return Ok(());
    }
    match &n.kind {
        Kind::Arr(items) => {
            for (i, c) in items.iter().enumerate().take(6) {
                let child = v.get(i).ok_or_else(|| Fail::new(format!("C13/{src_name}/child"), format!("{src_name}: get({i}) is None on {:?}", show_bytes(n.span.of(doc), 160))))?;
                check_lazy_children(src_name, &child, c, doc, depth + 1)?;
            }
            ensure!(v.get(items.len()).is_none() && v.get("a").is_none(), format!("C13/{src_name}/child"), "{src_name}: get out of range / by key on an array is Some");
        }
        Kind::Obj(members) => {
            for (idx, (k, c)) in members.iter().enumerate().take(6) {
                if members[..idx].iter().any(|(kk, _)| kk.text == k.text) {
                    continue;
                }
                let child = v.get(k.text.as_str()).ok_or_else(|| Fail::new(format!("C13/{src_name}/child"), format!("{src_name}: get({:?}) is None on {:?}", k.text, show_bytes(n.span.of(doc), 160))))?;
                check_lazy_children(src_name, &child, c, doc, depth + 1)?;
            }
            ensure!(v.get("\u{a7}none").is_none() && v.get(0usize).is_none(), format!("C13/{src_name}/child"), "{src_name}: get of a missing key / by index on an object is Some");
        }
        _ => ensure!(v.get(0usize).is_none() && v.get("a").is_none(), format!("C13/{src_name}/child"), "{src_name}: get on a scalar is Some"),
    }
    Ok(())
}

fn check_owned(src_name: &'static str, v: &OwnedLazyValue, n: &Node, doc: &[u8], depth: usize) -> Result<(), Fail> {
    check_view(src_name, v, n, doc)?;
    ensure!(ser(v)?.as_bytes() == n.span.of(doc), format!("C13/{src_name}/serialize-verbatim"), "{src_name}: to_string = {:?}, expected the source span {:?}", trunc(&ser(v)?, 160), show_bytes(n.span.of(doc), 160));
    if depth > 3 {
        return Ok(());
    }
    match &n.kind {
        Kind::Arr(items) => {
            let a = v.as_array().ok_or_else(|| Fail::new(format!("C13/{src_name}/as_array"), format!("{src_name}: as_array() is None for an array")))?;
            ensure!(a.len() == items.len(), format!("C13/{src_name}/as_array"), "{src_name}: as_array().len() = {} for {} elements", a.len(), items.len());
            ensure!(v.as_object().is_none(), format!("C13/{src_name}/as_object"), "{src_name}: as_object() is Some for an array");
            for (i, c) in items.iter().enumerate().take(6) {
                let child = v.get(i).ok_or_else(|| Fail::new(format!("C13/{src_name}/child"), format!("{src_name}: get({i}) is None")))?;
                check_owned(src_name, child, c, doc, depth + 1)?;
                check_owned(src_name, &a[i], c, doc, depth + 3)?;
            }
            ensure!(v.get(items.len()).is_none() && v.get("a").is_none(), format!("C13/{src_name}/child"), "{src_name}: get out of range / by key on an array is Some");
        }
        Kind::Obj(members) => {
            let o = v.as_object().ok_or_else(|| Fail::new(format!("C13/{src_name}/as_object"), format!("{src_name}: as_object() is None for an object")))?;
            ensure!(o.len() == members.len(), format!("C13/{src_name}/as_object"), "{src_name}: as_object().len() = {} for {} members", o.len(), members.len());
            ensure!(v.as_array().is_none(), format!("C13/{src_name}/as_array"), "{src_name}: as_array() is Some for an object");
            for (idx, (k, c)) in members.iter().enumerate().take(6) {
                ensure!(o[idx].0.as_str() == k.text, format!("C13/{src_name}/as_object"), "{src_name}: member {idx} has key {:?}, expected {:?}", o[idx].0, k.text);
                if members[..idx].iter().any(|(kk, _)| kk.text == k.text) {
                    continue;
                }
                let child = v.get(k.text.as_str()).ok_or_else(|| Fail::new(format!("C13/{src_name}/child"), format!("{src_name}: get({:?}) is None", k.text)))?;
                check_owned(src_name, child, c, doc, depth + 1)?;
            }
        }
        _ => {
            ensure!(v.as_array().is_none() && v.as_object().is_none(), format!("C13/{src_name}/as_array"), "{src_name}: as_array/as_object is Some for a scalar");
            ensure!(v.get(0usize).is_none() && v.get("a").is_none(), format!("C13/{src_name}/child"), "{src_name}: get on a scalar is Some");
        }
    }
    Ok(())
}

pub fn oracle(doc: &[u8], obs: &mut Obs) -> Result<(), Fail> {
    let Ok((root, sum)) = refjson::parse(doc) else { fail!("C13/generator", "malformed text from generator {:?}", show_bytes(doc, 200)) };
    let Ok(s) = std::str::from_utf8(doc) else { return Ok(()) };
    if !(sum.scalars_ok && sum.finite_ok) {
        return Ok(());
    }
    let nonempty = match &root.kind {
        Kind::Arr(v) => !v.is_empty(),
        Kind::Obj(v) => !v.is_empty(),
        Kind::Str(x) => x.has_escape,
        _ => false,
    };
    if nonempty {
        obs.nt();
    }
    obs.label(match &root.kind {
        Kind::Null | Kind::Bool(_) => "literal",
        Kind::Num => "number",
        Kind::Str(_) => "string",
        _ => "container",
    });
    let trimmed = &doc[root.span.start..root.span.end];

    // LazyValue from serde
    let lv: LazyValue = sonic_rs::from_str(s).map_err(|e| Fail::new("C13/lazy/rejects-valid", format!("{e}")))?;
    check_lazy_children("lazy(from_str)", &lv, &root, doc, 0)?;
    ensure!(ser(&lv)?.as_bytes() == trimmed, "C13/lazy(from_str)/roundtrip", "to_string(from_str::<LazyValue>(t)) != t.trim() for {:?}", show_bytes(doc, 200));
    let lv2: LazyValue = sonic_rs::from_slice(doc).map_err(|e| Fail::new("C13/lazy/rejects-valid", format!("{e}")))?;
    check_lazy_children("lazy(from_slice)", &lv2, &root, doc, 0)?;
    // clone is the same view
    check_lazy_children("lazy(clone)", &lv.clone(), &root, doc, 2)?;
    // Value::try_from(lazy) == reference
    let dv = Value::try_from(lv.clone()).map_err(|e| Fail::new("C13/lazy/try_from", format!("Value::try_from(lazy) failed: {e}")))?;
    let mut p = String::from("$");
    if let Err((k, msg)) = cmp_node(&root, doc, &walk(&dv, false), false, &mut p) {
        fail!(format!("C13/lazy/try_from/{k}"), "Value::try_from(LazyValue) differs from the reference: {msg}");
    }
    // ... and it is the DOM a direct parse of the raw text gives, in the same number representation
    // (raw literals in the arbitrary_precision build)
    let direct: Value = sonic_rs::from_str(s).map_err(|e| Fail::new("C13/lazy/try_from", format!("from_str::<Value> failed on the raw text: {e}")))?;
    let (wa, wb) = (walk(&dv, true), walk(&direct, true));
    ensure!(wa == wb, "C13/lazy/try_from/representation", "Value::try_from(LazyValue) = {} but from_str::<Value>(raw text) = {}", trunc(&wa.dump(), 200), trunc(&wb.dump(), 200));
    // struct fields (borrowed lazy + owned lazy), value placed twice
    let wrapped = format!("{{\"v\": {s} ,\"o\":{s}}}");
    let (wroot, _) = refjson::parse(wrapped.as_bytes()).map_err(|_| Fail::new("C13/generator", "wrapper malformed"))?;
    let b: Borrowed = sonic_rs::from_str(&wrapped).map_err(|e| Fail::new("C13/field/rejects-valid", format!("{e}")))?;
    if let Kind::Obj(m) = &wroot.kind {
        check_lazy_children("lazy(field)", &b.v, &m[0].1, wrapped.as_bytes(), 0)?;
        check_owned("owned(field)", &b.o, &m[1].1, wrapped.as_bytes(), 0)?;
    }
    // from get and iterators
    if let Kind::Obj(m) = &wroot.kind {
        let g = sonic_rs::get(wrapped.as_str(), &["o"]).map_err(|e| Fail::new("C13/get/rejects-valid", format!("{e}")))?;
        check_lazy_children("lazy(get)", &g, &m[1].1, wrapped.as_bytes(), 0)?;
        let og = OwnedLazyValue::from(g);
        check_owned("owned(From<LazyValue from get>)", &og, &m[1].1, wrapped.as_bytes(), 0)?;
        for (i, item) in sonic_rs::to_object_iter(wrapped.as_str()).enumerate() {
            let (_, l) = item.map_err(|e| Fail::new("C13/iter/rejects-valid", format!("{e}")))?;
            check_lazy_children("lazy(object iter)", &l, &m[i].1, wrapped.as_bytes(), 1)?;
            check_owned("owned(From<LazyValue from iter>)", &OwnedLazyValue::from(l), &m[i].1, wrapped.as_bytes(), 1)?;
        }
    }
    let arr = format!("[{s},{s} ]");
    let (aroot, _) = refjson::parse(arr.as_bytes()).map_err(|_| Fail::new("C13/generator", "wrapper malformed"))?;
    if let Kind::Arr(items) = &aroot.kind {
        for (i, item) in sonic_rs::to_array_iter(arr.as_str()).enumerate() {
            let l = item.map_err(|e| Fail::new("C13/iter/rejects-valid", format!("{e}")))?;
            check_lazy_children("lazy(array iter)", &l, &items[i], arr.as_bytes(), 1)?;
            check_owned("owned(From<LazyValue from iter>)", &OwnedLazyValue::from(l), &items[i], arr.as_bytes(), 1)?;
        }
    }
    // OwnedLazyValue from serde, From<LazyValue>, to_lazyvalue
    let ov: OwnedLazyValue = sonic_rs::from_str(s).map_err(|e| Fail::new("C13/owned/rejects-valid", format!("{e}")))?;
    check_owned("owned(from_str)", &ov, &root, doc, 0)?;
    ensure!(ser(&ov)?.as_bytes() == trimmed, "C13/owned(from_str)/roundtrip", "to_string(from_str::<OwnedLazyValue>(t)) != t.trim()");
    check_owned("owned(clone)", &ov.clone(), &root, doc, 1)?;
    let of = OwnedLazyValue::from(lv.clone());
    check_owned("owned(From<LazyValue>)", &of, &root, doc, 0)?;
    // to_lazyvalue of the DOM value: its raw text is the compact serialization
    let compact = ser(&dv)?;
    let (croot, _) = refjson::parse(compact.as_bytes()).map_err(|_| Fail::new("C13/generator", "compact output malformed"))?;
    // (a conversion that failed half-way just before must not leak into this one)
    ensure!(sonic_rs::to_lazyvalue(&std::collections::BTreeMap::from([((1u8, 2u8), 3u8)])).is_err(), "C13/to_lazyvalue/accepts-bad-key", "to_lazyvalue accepted a tuple key");
    let tl = sonic_rs::to_lazyvalue(&dv).map_err(|e| Fail::new("C13/to_lazyvalue/error", format!("{e}")))?;
    check_owned("owned(to_lazyvalue)", &tl, &croot, compact.as_bytes(), 0)?;
    Ok(())
}

// ---- histories on OwnedLazyValue -------------------------------------------------------------

fn model_of(n: &Node, doc: &[u8]) -> M {
    n.model(doc, false)
}

/// case: [u16 len][doc][ops...]
pub fn oracle_history(case: &[u8], obs: &mut Obs) -> Result<(), Fail> {
    if case.len() < 2 {
        return Ok(());
    }
    let n = ((case[0] as usize) << 8) | case[1] as usize;
    if case.len() < 2 + n {
        return Ok(());
    }
    let doc = &case[2..2 + n];
    let mut src = Src::new(&case[2 + n..]);
    let Ok((root, sum)) = refjson::parse(doc) else { return Ok(()) };
    let Ok(s) = std::str::from_utf8(doc) else { return Ok(()) };
    if !(sum.scalars_ok && sum.finite_ok) || sum.has_dup_keys {
        return Ok(());
    }
    let mut v: OwnedLazyValue = sonic_rs::from_str(s).map_err(|e| Fail::new("C13/history/rejects-valid", format!("{e}")))?;
    let mut model = model_of(&root, doc);
    let mut clones: Vec<(OwnedLazyValue, M)> = Vec::new();
    let mut log = Vec::new();
    let mut mutated_after_clone = false;
    let nops = 1 + src.below(8);
    for _ in 0..nops {
        let op = src.below(11);
        match op {
            0 => {
                clones.push((v.clone(), model.clone()));
                log.push("clone".to_string());
            }
            1 => {
                // push into the root array / append_pair into the root object
                let newtext = *src.pick(&["7", "\"n\\u00e9w\"", "[1, 2]", "{\"q\":null}", "true", "null", "-0.5"]);
                let newv: OwnedLazyValue = sonic_rs::from_str(newtext).unwrap();
                let newm = refjson::parse(newtext.as_bytes()).unwrap().0.model(newtext.as_bytes(), false);
                match &mut model {
                    M::Arr(items) => {
                        let a = v.as_array_mut().ok_or_else(|| Fail::new("C13/history/as_array_mut", "as_array_mut is None for an array"))?;
                        a.push(newv);
                        items.push(newm);
                        log.push(format!("push {newtext}"));
                        mutated_after_clone |= !clones.is_empty();
                    }
                    M::Obj(members) => {
                        let key = format!("new{}", log.len());
                        let o = v.as_object_mut().ok_or_else(|| Fail::new("C13/history/as_object_mut", "as_object_mut is None for an object"))?;
                        o.append_pair(faststr::FastStr::new(&key), newv);
                        members.push((key.clone(), newm));
                        log.push(format!("append_pair {key} {newtext}"));
                        mutated_after_clone |= !clones.is_empty();
                    }
                    _ => {
                        ensure!(v.as_array_mut().is_none() && v.as_object_mut().is_none(), "C13/history/as_mut-on-scalar", "as_array_mut/as_object_mut is Some for a scalar");
                    }
                }
            }
            2 => {
                // replace a child through get_mut
                match &mut model {
                    M::Arr(items) if !items.is_empty() => {
                        let i = src.below(items.len());
                        let slot = v.get_mut(i).ok_or_else(|| Fail::new("C13/history/get_mut", format!("get_mut({i}) is None")))?;
                        *slot = sonic_rs::from_str("\"replaced\"").unwrap();
                        items[i] = M::Str("replaced".into());
                        log.push(format!("get_mut({i}) = \"replaced\""));
                        mutated_after_clone |= !clones.is_empty();
                    }
                    M::Obj(members) if !members.is_empty() => {
                        let i = src.below(members.len());
                        let key = members[i].0.clone();
                        let slot = v.get_mut(key.as_str()).ok_or_else(|| Fail::new("C13/history/get_mut", format!("get_mut({key:?}) is None")))?;
                        *slot = sonic_rs::from_str("[false]").unwrap();
                        members[i].1 = M::Arr(vec![M::Bool(false)]);
                        log.push(format!("get_mut({key:?}) = [false]"));
                        mutated_after_clone |= !clones.is_empty();
                    }
                    _ => {
                        ensure!(v.get_mut(0usize).is_none() || matches!(model, M::Arr(_)), "C13/history/get_mut", "get_mut(0) is Some on a non-array");
                    }
                }
            }
            3 => {
                // remove the last element through the Vec deref
                match &mut model {
                    M::Arr(items) if !items.is_empty() => {
                        let a = v.as_array_mut().ok_or_else(|| Fail::new("C13/history/as_array_mut", "as_array_mut is None"))?;
                        a.pop();
                        items.pop();
                        log.push("pop".into());
                        mutated_after_clone |= !clones.is_empty();
                    }
                    M::Obj(members) if !members.is_empty() => {
                        let o = v.as_object_mut().ok_or_else(|| Fail::new("C13/history/as_object_mut", "as_object_mut is None"))?;
                        o.remove(0);
                        members.remove(0);
                        log.push("remove(0)".into());
                        mutated_after_clone |= !clones.is_empty();
                    }
                    _ => {}
                }
            }
            4 => {
                // pointer_mut two levels deep, if such a path exists in the model
                let path: Option<(Vec<PointerNode>, Vec<usize>)> = match &model {
                    M::Arr(items) => items.iter().position(|x| matches!(x, M::Arr(y) if !y.is_empty())).map(|i| (vec![PointerNode::Index(i), PointerNode::Index(0)], vec![i, 0])),
                    M::Obj(members) => members.iter().position(|(_, x)| matches!(x, M::Arr(y) if !y.is_empty())).map(|i| (vec![PointerNode::Key(faststr::FastStr::new(&members[i].0)), PointerNode::Index(0)], vec![i, 0])),
                    _ => None,
                };
                if let Some((ptr, idx)) = path {
                    let slot = v.pointer_mut(&ptr).ok_or_else(|| Fail::new("C13/history/pointer_mut", format!("pointer_mut({ptr:?}) is None")))?;
                    *slot = sonic_rs::from_str("12345678901234567890").unwrap();
                    let inner = match &mut model {
                        M::Arr(items) => &mut items[idx[0]],
                        M::Obj(members) => &mut members[idx[0]].1,
                        _ => unreachable!(),
                    };
                    if let M::Arr(y) = inner {
                        y[0] = M::U64(12345678901234567890);
                    }
                    log.push(format!("pointer_mut({ptr:?}) = 12345678901234567890"));
                    mutated_after_clone |= !clones.is_empty();
                }
                // the empty path is the value itself
                let e: [PointerNode; 0] = [];
                ensure!(v.pointer_mut(&e).is_some(), "C13/history/pointer_mut-empty", "pointer_mut(empty path) is None");
            }
            5 => {
                // take leaves null behind and returns the value
                let before = ser(&v)?;
                let t = v.take();
                ensure!(ser(&t)? == before, "C13/history/take", "take() returned {:?}, expected {:?}", trunc(&ser(&t)?, 120), trunc(&before, 120));
                ensure!(v.is_null() && ser(&v)? == "null", "C13/history/take", "after take() the value is {:?}", ser(&v)?);
                v = t;
                log.push("take+restore".into());
            }
            6 => {
                // reads in between must not disturb anything
                let _ = v.get(0usize).map(|x| x.get_type());
                let _ = v.as_array().map(|a| a.len());
                let _ = v.as_object().map(|o| o.len());
                let _ = v.as_str();
                log.push("reads".into());
            }
            7 => {
                // conversion owned -> Value
                let dv: Value = sonic_rs::from_str(&ser(&v)?).map_err(|e| Fail::new("C13/history/reparse", format!("{e}")))?;
                let got = walk(&dv, false);
                ensure!(m_equal(&got, &model), "C13/history/model-mismatch", "after [{}] the value is {}, model {}", log.join("; "), trunc(&got.dump(), 300), trunc(&model.dump(), 300));
                log.push("to-Value".into());
            }
            9 => {
                // a mutable lookup that must fail (it descends into a scalar child, asks an array for a key,
                // an object for an index, or runs past the end) leaves every child exactly as it was
                let nchildren = match &model {
                    M::Arr(items) => items.len(),
                    M::Obj(members) => members.len(),
                    _ => 0,
                };
                if nchildren > 0 {
                    let i = src.below(nchildren);
                    let (first, child_is_scalar, child_is_arr): (PointerNode, bool, bool) = match &model {
                        M::Arr(items) => (PointerNode::Index(i), !matches!(items[i], M::Arr(_) | M::Obj(_)), matches!(items[i], M::Arr(_))),
                        M::Obj(members) => (PointerNode::Key(faststr::FastStr::new(&members[i].0)), !matches!(members[i].1, M::Arr(_) | M::Obj(_)), matches!(members[i].1, M::Arr(_))),
                        _ => unreachable!(),
                    };
                    let snapshot = |v: &OwnedLazyValue| -> Result<(String, Option<String>, JsonType), Fail> {
                        let c = v.pointer(&[first.clone()]).ok_or_else(|| Fail::new("C13/history/child", format!("child {first:?} is missing after [{}]", log.join("; "))))?;
                        Ok((ser(c)?, c.as_raw_number().map(|r| r.as_str().to_string()), c.get_type()))
                    };
                    let before = snapshot(&v)?;
                    let whole_before = ser(&v)?;
                    let second = if child_is_scalar {
                        if src.bool() { PointerNode::Index(0) } else { PointerNode::Key("x".into()) }
                    } else if child_is_arr {
                        if src.bool() { PointerNode::Key("0".into()) } else { PointerNode::Index(1 << 20) }
                    } else {
                        if src.bool() { PointerNode::Index(0) } else { PointerNode::Key("\u{a7}missing".into()) }
                    };
                    let path = [first.clone(), second.clone()];
                    if src.bool() {
                        ensure!(v.pointer_mut(&path).is_none(), "C13/history/failed-lookup-found", "pointer_mut({path:?}) is Some after [{}]", log.join("; "));
                    } else {
                        let slot = v.get_mut(&first).ok_or_else(|| Fail::new("C13/history/get_mut", format!("get_mut({first:?}) is None")))?;
                        ensure!(slot.get_mut(&second).is_none(), "C13/history/failed-lookup-found", "get_mut({first:?}).get_mut({second:?}) is Some after [{}]", log.join("; "));
                    }
                    let after = snapshot(&v)?;
                    let whole_after = ser(&v)?;
                    if child_is_scalar {
                        // a scalar has no parts to load: text, raw number and type stay byte for byte
                        ensure!(after == before, "C13/history/failed-lookup-changed-child", "after [{}] a failed mutable lookup {path:?} changed the child: {:?} -> {:?}", log.join("; "), before, after);
                        // (the root itself may be loaded one level by the lookup: its own layout is re-emitted)
                        let pm = |t: &str| refjson::parse(t.as_bytes()).map(|(n, _)| n.model(t.as_bytes(), false)).map_err(|_| Fail::new("C13/history/malformed-output", format!("output {:?} does not parse", trunc(t, 200))));
                        ensure!(m_equal(&pm(&whole_after)?, &pm(&whole_before)?), "C13/history/failed-lookup-changed-child", "after [{}] a failed mutable lookup {path:?} changed the value: {:?} -> {:?}", log.join("; "), trunc(&whole_before, 200), trunc(&whole_after, 200));
                    } else {
                        // a container child may be loaded one level (layout inside it is then re-emitted): same value
                        let pm = |t: &str| refjson::parse(t.as_bytes()).map(|(n, _)| n.model(t.as_bytes(), false)).map_err(|_| Fail::new("C13/history/malformed-output", format!("output {:?} does not parse", trunc(t, 200))));
                        ensure!(m_equal(&pm(&after.0)?, &pm(&before.0)?) && after.2 == before.2, "C13/history/failed-lookup-changed-child", "after [{}] a failed mutable lookup {path:?} changed the child: {:?} -> {:?}", log.join("; "), before, after);
                        ensure!(m_equal(&pm(&whole_after)?, &pm(&whole_before)?), "C13/history/failed-lookup-changed-child", "after [{}] a failed mutable lookup {path:?} changed the value", log.join("; "));
                    }
                    log.push(format!("failed-lookup {path:?}"));
                }
            }
            10 => {
                // clone_from: the value takes over everything from another (fresh or already read) value, and
                // nothing of its own earlier state — cached parse included — may survive
                let other_text = *src.pick(&["[10, \"b\\n\", {\"k\": 2.50}]", "{\"x\": [1e2, \"\\u00e9\"], \"y\": null}", "\"esc\\taped\"", "12345678901234567890123", "[[1, 2], [3]]", "{\"a\":{\"b\":{\"c\":[true]}}}"]);
                let other: OwnedLazyValue = sonic_rs::from_str(other_text).unwrap();
                if src.bool() {
                    // fill the receiver's caches first
                    let _ = (v.as_str().map(|s| s.len()), v.as_number(), v.get(0usize).map(|x| x.get_type()), v.as_array().map(|a| a.len()), v.as_object().map(|o| o.len()));
                }
                if src.bool() {
                    let _ = (other.as_str().map(|s| s.len()), other.as_number(), other.as_array().map(|a| a.len()), other.as_object().map(|o| o.len()));
                }
                if src.bool() {
                    v.clone_from(&other);
                } else {
                    let mut two = vec![std::mem::take(&mut v)];
                    two.clone_from(&vec![other.clone()]);
                    v = two.pop().unwrap();
                }
                let (oroot, _) = refjson::parse(other_text.as_bytes()).unwrap();
                model = model_of(&oroot, other_text.as_bytes());
                // every view answers from the new text
                check_owned("owned(clone_from)", &v, &oroot, other_text.as_bytes(), 0)?;
                log.push(format!("clone_from({other_text})"));
                mutated_after_clone |= !clones.is_empty();
                // the verbatim checks at the end refer to the original document: they no longer apply
                log.push("pointer_mut (whole value replaced)".into());
            }
            _ => {
                let c = v.clone();
                ensure!(ser(&c)? == ser(&v)?, "C13/history/clone-differs", "clone serializes differently after [{}]", log.join("; "));
            }
        }
    }
    if mutated_after_clone {
        obs.nt();
    }
    obs.render = Some(format!("doc={} ops=[{}]", show_bytes(doc, 200), log.join("; ")));
    // final state equals the model
    let out = ser(&v)?;
    let (oroot, _) = refjson::parse(out.as_bytes()).map_err(|e| Fail::new("C13/history/malformed-output", format!("after [{}]: output {:?} does not parse: {}", log.join("; "), trunc(&out, 300), e.reason)))?;
    let got = model_of(&oroot, out.as_bytes());
    ensure!(m_equal(&got, &model), "C13/history/model-mismatch", "after [{}] the value serializes to {}, model {}", log.join("; "), trunc(&got.dump(), 300), trunc(&model.dump(), 300));
    // clones taken earlier are unchanged
    for (i, (c, m)) in clones.iter().enumerate() {
        let out = ser(c)?;
        let (cr, _) = refjson::parse(out.as_bytes()).map_err(|_| Fail::new("C13/history/malformed-output", "clone output does not parse"))?;
        ensure!(m_equal(&model_of(&cr, out.as_bytes()), m), "C13/history/clone-changed", "clone {i} changed after [{}]: now {}", log.join("; "), trunc(&out, 300));
    }
    // untouched children still serialize to their source span byte for byte
    if let (Kind::Arr(items), M::Arr(mitems)) = (&root.kind, &model) {
        for (i, c) in items.iter().enumerate() {
            let loaded = matches!(c.kind, Kind::Arr(_) | Kind::Obj(_)) && log.iter().any(|l| l.starts_with("failed-lookup"));
            if !loaded && i < mitems.len() && m_equal(&mitems[i], &model_of(c, doc)) && !log.iter().any(|l| l.starts_with(&format!("get_mut({i})")) || l.starts_with("pointer_mut")) {
                if let Some(ch) = v.get(i) {
                    ensure!(ser(ch)?.as_bytes() == c.span.of(doc), "C13/history/untouched-child-changed", "untouched element {i} serializes as {:?}, source span {:?}", trunc(&ser(ch)?, 120), show_bytes(c.span.of(doc), 120));
                }
            }
        }
    }
    if let (Kind::Obj(members), M::Obj(mm)) = (&root.kind, &model) {
        for (k, c) in members.iter() {
            let loaded = matches!(c.kind, Kind::Arr(_) | Kind::Obj(_)) && log.iter().any(|l| l.starts_with("failed-lookup"));
            let touched = loaded || log.iter().any(|l| l.starts_with(&format!("get_mut({:?})", k.text)) || l.starts_with("pointer_mut"));
            if let Some((_, m)) = mm.iter().find(|(kk, _)| *kk == k.text) {
                if !touched && m_equal(m, &model_of(c, doc)) {
                    if let Some(ch) = v.get(k.text.as_str()) {
                        ensure!(ser(ch)?.as_bytes() == c.span.of(doc), "C13/history/untouched-child-changed", "untouched member {:?} serializes as {:?}, source span {:?}", k.text, trunc(&ser(ch)?, 120), show_bytes(c.span.of(doc), 120));
                    }
                }
            }
        }
    }
    Ok(())
}

/// model equality that treats 0 / -0.0 classes alike (C07 reading of `-0`)
fn m_equal(a: &M, b: &M) -> bool {
    match (a, b) {
        (M::Arr(x), M::Arr(y)) => x.len() == y.len() && x.iter().zip(y).all(|(p, q)| m_equal(p, q)),
        (M::Obj(x), M::Obj(y)) => x.len() == y.len() && x.iter().zip(y).all(|((k, p), (l, q))| k == l && m_equal(p, q)),
        (M::U64(0) | M::I64(0), M::F64(f)) | (M::F64(f), M::U64(0) | M::I64(0)) => f64::from_bits(*f) == 0.0,
        _ => a == b,
    }
}

pub fn subs() -> Vec<Sub<'static>> {
    vec![Sub { name: "views", oracle: &oracle, minimise_bytes: false }, Sub { name: "histories", oracle: &oracle_history, minimise_bytes: false }]
}

pub fn run(ctx: &Ctx) {
    let subs = subs();
    // every type incl. bare literals
    let list: Vec<Vec<u8>> = ["true", "false", "null", " true ", "\nnull\t", "0", "-0", "1.5", "\"\"", "\"a\\nb\"", "[]", "{}", "[true,false,null]", "{\"t\":true,\"f\":false,\"n\":null}", "[ true , null ]"].iter().map(|s| s.as_bytes().to_vec()).collect();
    ctx.cases(&subs[0], &list);
    // numbers of every length (integer digits 1..=40 x fraction digits 0..=70) as members followed by a delimiter
    ctx.sweep(&subs[0], true, &|shard, n, emit| {
        let mut k = 0usize;
        for int_len in 1..=40usize {
            for frac_len in 0..=70usize {
                k += 1;
                if k % n != shard {
                    continue;
                }
                let mut num = String::new();
                for i in 0..int_len {
                    num.push((b'1' + (i % 9) as u8) as char);
                }
                if frac_len > 0 {
                    num.push('.');
                    for i in 0..frac_len {
                        num.push((b'0' + ((i * 7 + 3) % 10) as u8) as char);
                    }
                }
                for doc in [format!("[{num},1,\"0123456789012345678901234567890123456789\"]"), format!("{{\"a\":-{num},\"b\":[2],\"c\":\"0123456789012345678901234567890123456789\"}}"), format!("[[{num}e-3],{{\"k\":{num}}} ]")] {
                    if !emit(doc.as_bytes()) {
                        return;
                    }
                }
            }
        }
    });
    let p = DocParams { ws: 2, max_depth: 4, max_items: 5, dup_keys: true, ..DocParams::default() };
    let pc = p.clone();
    ctx.search(&subs[0], "docs", ctx.n(2_000_000, 16_000_000), 600, &move |src: &mut Src| gens::gen_doc(src, &pc));
    let pc = DocParams { dup_keys: false, ..p.clone() };
    ctx.search(&subs[1], "histories", ctx.n(4_000_000, 32_000_000), 500, &move |src: &mut Src| {
        let doc = gens::gen_container_doc(src, &pc);
        let doc = if doc.len() > 60_000 { b"[1,[2]]".to_vec() } else { doc };
        let mut c = vec![(doc.len() >> 8) as u8, doc.len() as u8];
        c.extend_from_slice(&doc);
        c.extend_from_slice(&src.take(40));
        c
    });
}
