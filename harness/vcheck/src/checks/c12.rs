//! C12 — lazy iterators yield exactly the members of the container, then stop.

use bytes::Bytes;
use faststr::FastStr;
use sonic_rs::{LazyValue, Result as SResult};
use vbase::engine::{Ctx, Fail, Obs, Src, Sub};
use vbase::gens::{self, DocParams};
use vbase::refjson::{self, is_ws, lex_string, scan, show_bytes, skip_ws, trunc, NoSink, Span};
use vbase::{ensure, fail};

pub const RULE: &str = "cases are byte strings whose first value is (usually) an array or object: generated containers of size 0..=40 with nesting, escaped keys, whitespace variation and trailing bytes after the container, shallow containers with 64..1030 tiny members, every byte value at every position of an escape (letter, each hex digit, low half of a surrogate pair) in element / nested / member-value / member-name position, bracket-burst containers whose elements close one or more 64-byte blocks after they opened, every truncation / substitution / deletion of a set of them, random mutations, UTF-8 damage. For each input both iterator kinds run over &[u8], &str, &String, &Bytes, &FastStr (checked), the *_unchecked forms and LazyValue::into_array_iter/into_object_iter (well-formed input only). Iterator adaptors (nth, skip, step_by, count, last, fold) on a fresh iterator must agree with the same adaptor applied to the items collected by repeated next(), and leave the iterator latched. Expected (reference scan): one item per leading member that is a well-formed value behind a correct separator (and key and colon) with raw text == exact source span and key == decoded name; then None if the container closed correctly, otherwise exactly one Err; afterwards None on three further polls. For non-UTF-8 input the Ok items must be a prefix of the reference items followed by exactly one Err (the iterators validate UTF-8 up front). Non-trivial = >= 2 members (well-formed) or >= 1 leading member before the violation (malformed); distinct by input.";
pub const ASSUMPTIONS: &[&str] = &["refjson scanner", "members whose only defect is an unpaired surrogate escape may be yielded or rejected (the statement does not fix the tier for values)"];

#[derive(Debug, Clone, PartialEq)]
enum End {
    /// the container closed correctly after the items
    Closed,
    /// a violation follows the items: exactly one Err expected
    Error,
    /// the next member is grammatical but contains an unpaired surrogate escape: either way
    Ambiguous,
}

struct Lead {
    items: Vec<(Option<String>, Span)>,
    end: End,
}

fn leading(b: &[u8], is_obj: bool) -> Lead {
    let mut items = Vec::new();
    let mut i = skip_ws(b, 0);
    let (open, close) = if is_obj { (b'{', b'}') } else { (b'[', b']') };
    if i >= b.len() || b[i] != open {
        return Lead { items, end: End::Error };
    }
    i += 1;
    let mut first = true;
    loop {
        i = skip_ws(b, i);
        if i >= b.len() {
            return Lead { items, end: End::Error };
        }
        if b[i] == close {
            // `[1,]` is caught below: after a comma a member is required
            return Lead { items, end: End::Closed };
        }
        if !first {
            if b[i] != b',' {
                return Lead { items, end: End::Error };
            }
            i = skip_ws(b, i + 1);
            if i >= b.len() {
                return Lead { items, end: End::Error };
            }
        }
        first = false;
        let mut key = None;
        let mut ambiguous = false;
        if is_obj {
            if b[i] != b'"' {
                return Lead { items, end: End::Error };
            }
            match lex_string(b, i, true) {
                Ok(s) => {
                    if !s.scalars_ok {
                        ambiguous = true;
                    }
                    key = Some(s.text.clone());
                    i = skip_ws(b, s.span.end);
                    if i >= b.len() || b[i] != b':' {
                        return Lead { items, end: if ambiguous { End::Ambiguous } else { End::Error } };
                    }
                    i += 1;
                }
                Err(_) => return Lead { items, end: End::Error },
            }
        }
        match scan(b, i, &mut NoSink) {
            Ok(sum) => {
                if ambiguous {
                    return Lead { items, end: End::Ambiguous };
                }
                if !sum.scalars_ok {
                    // value is skip-valid only; sonic-rs yields it (validate-and-skip) — accept both
                    return Lead { items, end: End::Ambiguous };
                }
                // a number or literal directly followed by more token characters (`00`, `1x`,
                // `truex`, `1.5.2`): whether that is a well-formed member followed by garbage or a
                // malformed member is a matter of tokenisation the statement does not fix
                let scalar_token = matches!(b[sum.start], b'-' | b'0'..=b'9' | b't' | b'f' | b'n');
                if scalar_token && sum.end < b.len() && !(is_ws(b[sum.end]) || matches!(b[sum.end], b',' | b']' | b'}')) {
                    return Lead { items, end: End::Ambiguous };
                }
                items.push((key, Span { start: sum.start, end: sum.end }));
                i = sum.end;
            }
            Err(_) => return Lead { items, end: if ambiguous { End::Ambiguous } else { End::Error } },
        }
    }
}

#[derive(PartialEq, Clone, Debug)]
enum Item {
    Ok(Option<String>, Vec<u8>),
    Err,
}

fn arr_item(r: SResult<LazyValue<'_>>) -> Item {
    match r {
        Ok(l) => Item::Ok(None, l.as_raw_str().as_bytes().to_vec()),
        Err(_) => Item::Err,
    }
}
fn obj_item(r: SResult<(std::borrow::Cow<'_, str>, LazyValue<'_>)>) -> Item {
    match r {
        Ok((k, l)) => Item::Ok(Some(k.into_owned()), l.as_raw_str().as_bytes().to_vec()),
        Err(_) => Item::Err,
    }
}

/// Iterator adaptors (`nth`, `skip`, `step_by`, `count`, `last`, `fold`-based consumers) on a fresh
/// iterator must give what the same adaptor gives on the item sequence collected by repeated `next()`
/// (`base`, which ends after the first error), and the iterator must stay silent afterwards.
fn adaptors<T, I: Iterator<Item = T>>(api: &str, kind: &str, make: &dyn Fn() -> I, conv: &dyn Fn(T) -> Item, base: &[Item], b: &[u8]) -> Result<(), Fail> {
    let show = |v: &[Item]| format!("{:?}", v.iter().map(|x| match x { Item::Ok(_, raw) => String::from_utf8_lossy(raw).into_owned(), Item::Err => "<Err>".into() }).collect::<Vec<_>>());
    for k in 0..=(base.len() + 1).min(5) {
        let mut it = make();
        let first = it.nth(k).map(conv);
        ensure!(first.as_ref() == base.get(k), format!("C12/{kind}/adaptor/nth"), "{api}.nth({k}) on {:?} = {:?}, but item {k} of plain iteration is {:?}", show_bytes(b, 300), first, base.get(k));
        let rest: Vec<Item> = it.by_ref().take(100_000).map(conv).collect();
        let want: &[Item] = if k + 1 <= base.len() { &base[k + 1..] } else { &[] };
        ensure!(rest == want, format!("C12/{kind}/adaptor/after-nth"), "{api} on {:?}: after nth({k}) the iterator yields {}, plain iteration continues with {}", show_bytes(b, 300), trunc(&show(&rest), 200), trunc(&show(want), 200));
        ensure!((0..3).all(|_| it.next().is_none()), format!("C12/{kind}/adaptor/not-latched"), "{api} on {:?}: yields something after nth({k}) and the end", show_bytes(b, 300));
        let skipped: Vec<Item> = make().skip(k).take(100_000).map(conv).collect();
        let want: &[Item] = if k <= base.len() { &base[k..] } else { &[] };
        ensure!(skipped == want, format!("C12/{kind}/adaptor/skip"), "{api}.skip({k}) on {:?} yields {}, expected {}", show_bytes(b, 300), trunc(&show(&skipped), 200), trunc(&show(want), 200));
    }
    for step in [2usize, 3] {
        let got: Vec<Item> = make().step_by(step).take(100_000).map(conv).collect();
        let want: Vec<Item> = base.iter().step_by(step).cloned().collect();
        ensure!(got == want, format!("C12/{kind}/adaptor/step_by"), "{api}.step_by({step}) on {:?} yields {}, expected {}", show_bytes(b, 300), trunc(&show(&got), 200), trunc(&show(&want), 200));
    }
    ensure!(make().count() == base.len(), format!("C12/{kind}/adaptor/count"), "{api}.count() on {:?} = {}, plain iteration yields {} items", show_bytes(b, 300), make().count(), base.len());
    ensure!(make().last().map(conv).as_ref() == base.last(), format!("C12/{kind}/adaptor/last"), "{api}.last() on {:?} differs from the last item of plain iteration", show_bytes(b, 300));
    let folded = make().fold(0usize, |n, _| n + 1);
    ensure!(folded == base.len(), format!("C12/{kind}/adaptor/fold"), "{api}.fold on {:?} visits {folded} items, plain iteration yields {}", show_bytes(b, 300), base.len());
    Ok(())
}

fn collect_arr<'a>(it: impl Iterator<Item = SResult<LazyValue<'a>>>) -> (Vec<Item>, bool) {
    let mut it = it;
    let mut v = Vec::new();
    let mut guard = 0;
    loop {
        guard += 1;
        match it.next() {
            Some(Ok(l)) => v.push(Item::Ok(None, l.as_raw_str().as_bytes().to_vec())),
            Some(Err(_)) => v.push(Item::Err),
            None => break,
        }
        if guard > 100_000 {
            break;
        }
    }
    let quiet = (0..3).all(|_| it.next().is_none());
    (v, quiet)
}

fn collect_obj<'a>(it: impl Iterator<Item = SResult<(std::borrow::Cow<'a, str>, LazyValue<'a>)>>) -> (Vec<Item>, bool) {
    let mut it = it;
    let mut v = Vec::new();
    let mut guard = 0;
    loop {
        guard += 1;
        match it.next() {
            Some(Ok((k, l))) => v.push(Item::Ok(Some(k.into_owned()), l.as_raw_str().as_bytes().to_vec())),
            Some(Err(_)) => v.push(Item::Err),
            None => break,
        }
        if guard > 100_000 {
            break;
        }
    }
    let quiet = (0..3).all(|_| it.next().is_none());
    (v, quiet)
}

fn judge(api: &str, kind: &str, got: &(Vec<Item>, bool), want: &Lead, b: &[u8], utf8: bool, exact: bool) -> Result<(), Fail> {
    let (items, quiet) = got;
    let class = if api.contains("unchecked") || api.contains("LazyValue") { "unchecked" } else { "checked" };
    ensure!(*quiet, format!("C12/{kind}/{class}/not-latched"), "{api} on {:?}: yields something after it ended", show_bytes(b, 300));
    let n_ok = items.iter().take_while(|x| matches!(x, Item::Ok(..))).count();
    let errs = items.iter().filter(|x| matches!(x, Item::Err)).count();
    ensure!(errs <= 1 && (errs == 0 || matches!(items.last(), Some(Item::Err))), format!("C12/{kind}/{class}/multiple-errors"), "{api} on {:?}: {} errors, items after an error", show_bytes(b, 300), errs);
    // the Ok items must equal the reference items, in order
    for (i, it) in items.iter().take(n_ok).enumerate() {
        let Item::Ok(k, raw) = it else { unreachable!() };
        match want.items.get(i) {
            Some((wk, span)) => {
                ensure!(raw.as_slice() == span.of(b), format!("C12/{kind}/{class}/wrong-span"), "{api} on {:?}: item {i} is {:?}, expected {:?}", show_bytes(b, 300), show_bytes(raw, 120), show_bytes(span.of(b), 120));
                ensure!(k == wk, format!("C12/{kind}/{class}/wrong-key"), "{api} on {:?}: item {i} has key {:?}, expected {:?}", show_bytes(b, 300), k, wk);
            }
            None => {
                if want.end == End::Ambiguous && i == want.items.len() {
                    return Ok(()); // the ambiguous member was yielded: nothing more is asserted
                }
                fail!(format!("C12/{kind}/{class}/extra-item"), "{api} on {:?}: yields item {i} = {:?} but the reference has only {} leading members", show_bytes(b, 300), show_bytes(raw, 120), want.items.len());
            }
        }
    }
    if !utf8 || !exact {
        // prefix rule: items are a prefix (checked above), exactly one Err unless complete
        if n_ok < want.items.len() || want.end == End::Error {
            ensure!(errs == 1, format!("C12/{kind}/{class}/missing-error"), "{api} on {:?}: {} items and no error (reference: {} members, end {:?})", show_bytes(b, 300), n_ok, want.items.len(), want.end);
        }
        return Ok(());
    }
    match want.end {
        End::Closed => {
            ensure!(n_ok == want.items.len() && errs == 0, format!("C12/{kind}/{class}/wrong-count"), "{api} on {:?}: {} items, {} errors; expected {} items then end", show_bytes(b, 300), n_ok, errs, want.items.len());
        }
        End::Error => {
            ensure!(n_ok == want.items.len(), format!("C12/{kind}/{class}/wrong-count"), "{api} on {:?}: {} items before the error; expected {} leading members", show_bytes(b, 300), n_ok, want.items.len());
            ensure!(errs == 1, format!("C12/{kind}/{class}/missing-error"), "{api} on {:?}: ended without an error after {} items although the input is malformed there", show_bytes(b, 300), n_ok);
        }
        End::Ambiguous => {
            ensure!(n_ok >= want.items.len(), format!("C12/{kind}/{class}/wrong-count"), "{api} on {:?}: only {} items; expected at least {}", show_bytes(b, 300), n_ok, want.items.len());
        }
    }
    Ok(())
}

pub fn oracle(b: &[u8], obs: &mut Obs) -> Result<(), Fail> {
    let utf8 = std::str::from_utf8(b).is_ok();
    let wa = leading(b, false);
    let wo = leading(b, true);
    let first = b.get(skip_ws(b, 0)).copied();
    let well_formed = utf8 && matches!(refjson::parse_at(b, 0), Ok((_, s)) if s.scalars_ok);
    let main = if first == Some(b'{') { &wo } else { &wa };
    if (main.end == End::Closed && main.items.len() >= 2) || (main.end != End::Closed && !main.items.is_empty()) {
        obs.nt();
    }
    obs.label(match (&main.end, utf8) {
        (_, false) => "not-utf8",
        (End::Closed, _) => "closed",
        (End::Error, _) => "violation",
        (End::Ambiguous, _) => "ambiguous",
    });
    // trailing garbage after a closed container must not matter
    if main.end == End::Closed && !well_formed {
        obs.label("closed+trailing-bytes");
    }
    // checked iterators over every carrier
    judge("to_array_iter(&[u8])", "array", &collect_arr(sonic_rs::to_array_iter(b)), &wa, b, utf8, true)?;
    judge("to_object_iter(&[u8])", "object", &collect_obj(sonic_rs::to_object_iter(b)), &wo, b, utf8, true)?;
    adaptors("to_array_iter(&[u8])", "array", &|| sonic_rs::to_array_iter(b), &arr_item, &collect_arr(sonic_rs::to_array_iter(b)).0, b)?;
    adaptors("to_object_iter(&[u8])", "object", &|| sonic_rs::to_object_iter(b), &obj_item, &collect_obj(sonic_rs::to_object_iter(b)).0, b)?;
    let by = Bytes::copy_from_slice(b);
    adaptors("to_array_iter(&Bytes)", "array", &|| sonic_rs::to_array_iter(&by), &arr_item, &collect_arr(sonic_rs::to_array_iter(&by)).0, b)?;
    adaptors("to_object_iter(&Bytes)", "object", &|| sonic_rs::to_object_iter(&by), &obj_item, &collect_obj(sonic_rs::to_object_iter(&by)).0, b)?;
    judge("to_array_iter(&Bytes)", "array", &collect_arr(sonic_rs::to_array_iter(&by)), &wa, b, utf8, true)?;
    judge("to_object_iter(&Bytes)", "object", &collect_obj(sonic_rs::to_object_iter(&by)), &wo, b, utf8, true)?;
    if let Ok(s) = std::str::from_utf8(b) {
        let string = s.to_string();
        let fs = FastStr::new(s);
        judge("to_array_iter(&str)", "array", &collect_arr(sonic_rs::to_array_iter(s)), &wa, b, utf8, true)?;
        judge("to_object_iter(&str)", "object", &collect_obj(sonic_rs::to_object_iter(s)), &wo, b, utf8, true)?;
        judge("to_array_iter(&String)", "array", &collect_arr(sonic_rs::to_array_iter(&string)), &wa, b, utf8, true)?;
        judge("to_object_iter(&String)", "object", &collect_obj(sonic_rs::to_object_iter(&string)), &wo, b, utf8, true)?;
        judge("to_array_iter(&FastStr)", "array", &collect_arr(sonic_rs::to_array_iter(&fs)), &wa, b, utf8, true)?;
        judge("to_object_iter(&FastStr)", "object", &collect_obj(sonic_rs::to_object_iter(&fs)), &wo, b, utf8, true)?;
        // unchecked forms and LazyValue iterators: well-formed input only
        if well_formed {
            // the first value is well-formed; the unchecked iterators need the whole container
            // to be so, which it is; trailing bytes after it are not visited
            unsafe {
                judge("to_array_iter_unchecked(&str)", "array", &collect_arr(sonic_rs::to_array_iter_unchecked(s)), &wa, b, true, first == Some(b'['))?;
                judge("to_object_iter_unchecked(&str)", "object", &collect_obj(sonic_rs::to_object_iter_unchecked(s)), &wo, b, true, first == Some(b'{'))?;
                judge("to_array_iter_unchecked(&[u8])", "array", &collect_arr(sonic_rs::to_array_iter_unchecked(b)), &wa, b, true, first == Some(b'['))?;
                judge("to_object_iter_unchecked(&Bytes)", "object", &collect_obj(sonic_rs::to_object_iter_unchecked(&by)), &wo, b, true, first == Some(b'{'))?;
                adaptors("to_array_iter_unchecked(&str)", "array", &|| sonic_rs::to_array_iter_unchecked(s), &arr_item, &collect_arr(sonic_rs::to_array_iter_unchecked(s)).0, b)?;
                adaptors("to_object_iter_unchecked(&str)", "object", &|| sonic_rs::to_object_iter_unchecked(s), &obj_item, &collect_obj(sonic_rs::to_object_iter_unchecked(s)).0, b)?;
            }
            // whole document well-formed: LazyValue route
            if let Ok(lv) = sonic_rs::from_str::<LazyValue>(s) {
                match first {
                    Some(b'[') => {
                        ensure!(lv.clone().into_object_iter().is_none(), "C12/array/lazyvalue/wrong-kind", "into_object_iter on an array is Some");
                        let it = lv.into_array_iter().ok_or_else(|| Fail::new("C12/array/lazyvalue/none", "into_array_iter is None for an array"))?;
                        judge("LazyValue::into_array_iter", "array", &collect_arr(it), &wa, b, true, true)?;
                    }
                    Some(b'{') => {
                        ensure!(lv.clone().into_array_iter().is_none(), "C12/object/lazyvalue/wrong-kind", "into_array_iter on an object is Some");
                        let it = lv.into_object_iter().ok_or_else(|| Fail::new("C12/object/lazyvalue/none", "into_object_iter is None for an object"))?;
                        judge("LazyValue::into_object_iter", "object", &collect_obj(it), &wo, b, true, true)?;
                    }
                    _ => {
                        ensure!(lv.clone().into_array_iter().is_none() && lv.into_object_iter().is_none(), "C12/scalar/lazyvalue/wrong-kind", "into_*_iter on a scalar is Some");
                    }
                }
            }
        }
    }
    let _ = is_ws;
    Ok(())
}

pub fn subs() -> Vec<Sub<'static>> {
    ["containers", "mutated", "sweep", "sizes", "many-small", "brackets", "escape-bytes"].iter().map(|n| Sub { name: n, oracle: &oracle, minimise_bytes: true }).collect()
}

fn sub(name: &str) -> Sub<'static> {
    subs().into_iter().find(|s| s.name == name).unwrap()
}

fn gen_container(src: &mut Src, p: &DocParams) -> Vec<u8> {
    let mut d = gens::gen_container_doc(src, p);
    // trailing bytes after the container
    match src.below(6) {
        0 => d.extend_from_slice(b" x"),
        1 => d.extend_from_slice(b"]"),
        2 => d.extend_from_slice(b",1"),
        3 => d.extend_from_slice(b"\"unterminated"),
        _ => {}
    }
    d
}

pub fn run(ctx: &Ctx) {
    let p = DocParams { ws: 2, max_depth: 4, max_items: 8, allow_lone_surrogates: true, allow_inf: true, ..DocParams::default() };
    let pc = p.clone();
    ctx.search(&sub("containers"), "generated", ctx.n(2_000_000, 16_000_000), 800, &move |src: &mut Src| gen_container(src, &pc));
    let pc = p.clone();
    ctx.search(&sub("mutated"), "mutated", ctx.n(4_000_000, 32_000_000), 600, &move |src: &mut Src| {
        let d = gen_container(src, &pc);
        let mut m = gens::mutate(src, &d).0;
        if src.chance(50) {
            m = gens::mutate(src, &m).0;
        }
        m
    });
    ctx.search(&sub("many-small"), "many-small", ctx.n(6_000, 60_000), 200, &|src: &mut Src| gens::gen_many_small(src));
    ctx.search(&sub("brackets"), "bracket-stress", ctx.n(600_000, 4_800_000), 300, &|src: &mut Src| crate::lazyhelp::gen_bracket_stress(src));
    // sizes 0..=40 with each element kind
    ctx.sweep(&sub("sizes"), true, &|shard, n, emit| {
        let elems: [&str; 8] = ["1", "\"a\\\"b\"", "null", "[1,[2]]", "{\"k\":{}}", "-1.5e3", "\"\"", "true"];
        let mut k = 0usize;
        for size in 0..=40usize {
            for (ei, e) in elems.iter().enumerate() {
                for ws in ["", " ", "\n\t "] {
                    k += 1;
                    if k % n != shard {
                        continue;
                    }
                    let mut a = format!("{ws}[{ws}");
                    let mut o = format!("{ws}{{{ws}");
                    for i in 0..size {
                        if i > 0 {
                            a.push_str(&format!("{ws},{ws}"));
                            o.push_str(&format!("{ws},{ws}"));
                        }
                        let el = elems[(ei + i) % elems.len()];
                        a.push_str(el);
                        o.push_str(&format!("\"k\\u00e9{i}\"{ws}:{ws}{el}"));
                        let _ = e;
                    }
                    a.push_str(&format!("{ws}]{ws}"));
                    o.push_str(&format!("{ws}}}{ws}"));
                    if !(emit(a.as_bytes()) && emit(o.as_bytes())) {
                        return;
                    }
                }
            }
        }
    });
    // every byte value at every position of an escape (the letter after the backslash, each of the four hex
    // digits of a \u escape, each hex digit of the low half of a surrogate pair), the string being an element, an
    // element of a nested array, a member value, a member value two levels down and a member name; short and
    // longer than one 32/64-byte block
    ctx.sweep(&sub("escape-bytes"), true, &|shard, n, emit| {
        let mut k = 0usize;
        for b in 0..=255u8 {
            for (esc, positions) in [(&b"\\u00e9"[..], 1..6usize), (&b"\\ud83d\\ude00"[..], 7..12usize), (&b"\\n"[..], 1..2usize)] {
                for pos in positions {
                    k += 1;
                    if k % n != shard {
                        continue;
                    }
                    let mut e = esc.to_vec();
                    if e[pos] == b {
                        continue;
                    }
                    e[pos] = b;
                    for pad in [0usize, 29, 61] {
                        let mut lit = vec![b'"'];
                        lit.extend(std::iter::repeat(b'a').take(pad));
                        lit.extend_from_slice(&e);
                        lit.extend_from_slice(b"z\"");
                        let l = &lit[..];
                        let docs: [Vec<u8>; 6] = [
                            [b"[\"ok\", ", l, b", 1]"].concat(),
                            [b"[\"ok\",[[", l, b"]],1]"].concat(),
                            [b"{\"a\":true,\"b\":", l, b",\"c\":1}"].concat(),
                            [b"{\"a\":true,\"b\":{\"x\":[0,", l, b"]},\"c\":1}"].concat(),
                            [b"{\"a\":true,", l, b":2,\"c\":1}"].concat(),
                            [b"[", l, b"]"].concat(),
                        ];
                        for d in &docs {
                            if !emit(d) {
                                return;
                            }
                        }
                    }
                }
            }
        }
    });
    // systematic mutation sweep
    let ndocs = ctx.n(160, 1600);
    let seed = ctx.seed;
    ctx.sweep(&sub("sweep"), false, &|shard, n, emit| {
        let pm = DocParams { ws: 1, max_depth: 3, max_items: 4, long_strings: false, align: 0, allow_lone_surrogates: true, ..DocParams::default() };
        for i in (shard..ndocs).step_by(n) {
            let bytes = super::c02::pseudo_bytes(seed ^ 0xc12, i as u64, 160);
            let mut src = Src::new(&bytes);
            let d = gens::gen_container_doc(&mut src, &pm);
            if !gens::sweep_mutations(&d, 1, &mut |c, _| emit(c)) {
                return;
            }
        }
    });
}
