//! C18 — lazily cached decodings are correct and leak-free under concurrent readers.

use std::cell::Cell;
use std::sync::{Arc, Mutex};

use sonic_rs::verif::sync::{set_hook, Op};
use sonic_rs::{JsonValueTrait, LazyValue, OwnedLazyValue};
use vbase::alloc;
use vbase::engine::{Ctx, Fail, Obs, Sub};
use vbase::{ensure, fail};

pub const RULE: &str = "cases are schedules: choice vectors consumed by a controlled scheduler that serialises 2-3 real threads at the granularity of the atomic operations of the two cache fields (yield points supplied by the cfg(sonic_rs_verif) AtomicPtr shim) and additionally decides, at every weak compare-exchange, whether it fails spuriously. Scenarios: a shared LazyValue holding an escaped string with threads doing {as_str, clone + as_str on the clone + drop}; a shared raw OwnedLazyValue (object, array, escaped string, number) with threads doing {get(key|index), as_str, as_number, as_array/as_object, clone + read + drop}; an owned object with a duplicated member name read by two threads in opposite orders; a clone converted into an OwnedLazyValue while another thread reads. The schedule tree of every scenario is enumerated completely by depth-first search (stateless re-execution). Oracle: every reader's result equals what the same call returns on a fresh unshared value (reference decode / first matching child); no fault (a crash is captured by the signal handler with the schedule as replay); global live allocation count and bytes after all threads joined equal those of the sequential run of the same calls (exactly one cached decoding survives), and return to the baseline when the shared value is dropped (losers freed exactly once, nothing leaked, nothing freed twice). Non-trivial = a schedule with a context switch between a thread's load and its own compare-exchange, or with an injected weak-CAS failure; distinct by choice vector.";
pub const ASSUMPTIONS: &[&str] = &["sequentially consistent interleavings only; reorderings that only a weak memory model allows are not explored", "the hook shim has the API and semantics of std's AtomicPtr (a spurious weak-CAS failure stores nothing and reports the current value)"];

// ------------------------------------------------------------------------------------------
// controlled scheduler

// statuses: 0 not started, 1 running, 2 done, 10+op waiting at a yield point
const NOT_STARTED: u8 = 0;
const RUNNING: u8 = 1;
const DONE: u8 = 2;
const WAIT_LOAD: u8 = 10;
const WAIT_CAS: u8 = 11;
const WAIT_CAS_WEAK: u8 = 12;
const NO_TURN: usize = usize::MAX;

struct Sched {
    status: Vec<std::sync::atomic::AtomicU8>,
    turn: std::sync::atomic::AtomicUsize,
    inject: std::sync::atomic::AtomicBool,
}

static SCHED: Mutex<Option<Arc<Sched>>> = Mutex::new(None);

thread_local! {
    static MY_INDEX: Cell<usize> = const { Cell::new(usize::MAX) };
    static MY_SCHED: std::cell::RefCell<Option<Arc<Sched>>> = const { std::cell::RefCell::new(None) };
}

fn hook(op: Op) -> bool {
    let i = MY_INDEX.with(|c| c.get());
    if i == usize::MAX {
        return false;
    }
    let s = MY_SCHED.with(|c| c.borrow().clone());
    match s {
        Some(s) => s.yield_point(i, op),
        None => false,
    }
}

impl Sched {
    fn new(n: usize) -> Sched {
        Sched { status: (0..n).map(|_| std::sync::atomic::AtomicU8::new(NOT_STARTED)).collect(), turn: std::sync::atomic::AtomicUsize::new(NO_TURN), inject: std::sync::atomic::AtomicBool::new(false) }
    }
    fn yield_point(&self, i: usize, op: Op) -> bool {
        use std::sync::atomic::Ordering::SeqCst;
        let code = match op {
            Op::Load => WAIT_LOAD,
            Op::CompareExchange => WAIT_CAS,
            Op::CompareExchangeWeak => WAIT_CAS_WEAK,
        };
        self.status[i].store(code, SeqCst);
        let mut spins = 0u32;
        while self.turn.load(SeqCst) != i {
            spins += 1;
            if spins > 2000 {
                std::thread::yield_now();
            } else {
                std::hint::spin_loop();
            }
        }
        self.status[i].store(RUNNING, SeqCst);
        let inj = self.inject.swap(false, SeqCst);
        self.turn.store(NO_TURN, SeqCst);
        inj
    }
    fn done(&self, i: usize) {
        self.status[i].store(DONE, std::sync::atomic::Ordering::SeqCst);
    }
}

/// outcome of one controlled run
struct RunLog {
    /// (chosen, number of options) at every decision point
    decisions: Vec<(usize, usize)>,
    switches_inside: bool,
    injected: bool,
}

/// Drive the registered threads to completion following `prefix` (choices beyond it are 0).
fn drive(s: &Sched, nthreads: usize, prefix: &[usize]) -> RunLog {
    use std::sync::atomic::Ordering::SeqCst;
    let mut log = RunLog { decisions: Vec::with_capacity(64), switches_inside: false, injected: false };
    let mut last_loaded: Vec<bool> = vec![false; nthreads]; // thread has loaded and not yet done its CAS
    let mut last_run: Option<usize> = None;
    // spurious failures are finite: at most two are injected per run
    let mut injected_count = 0;
    loop {
        // wait until nobody is running
        let mut spins = 0u32;
        loop {
            let busy = s.turn.load(SeqCst) != NO_TURN || s.status.iter().any(|x| matches!(x.load(SeqCst), RUNNING | NOT_STARTED));
            if !busy {
                break;
            }
            spins += 1;
            if spins > 2000 {
                std::thread::yield_now();
            } else {
                std::hint::spin_loop();
            }
        }
        let waiting: Vec<usize> = (0..nthreads).filter(|i| s.status[*i].load(SeqCst) >= WAIT_LOAD).collect();
        if waiting.is_empty() {
            return log;
        }
        let k = log.decisions.len();
        let c = prefix.get(k).copied().unwrap_or(0).min(waiting.len() - 1);
        log.decisions.push((c, waiting.len()));
        let t = waiting[c];
        let op = s.status[t].load(SeqCst);
        let mut inject = false;
        if op == WAIT_CAS_WEAK && injected_count < 2 {
            let k = log.decisions.len();
            let c2 = prefix.get(k).copied().unwrap_or(0).min(1);
            log.decisions.push((c2, 2));
            inject = c2 == 1;
            if inject {
                log.injected = true;
                injected_count += 1;
            }
        }
        // a context switch between a thread's load and its own compare-exchange
        if let Some(prev) = last_run {
            if prev != t && last_loaded[prev] {
                log.switches_inside = true;
            }
        }
        last_loaded[t] = op == WAIT_LOAD;
        last_run = Some(t);
        s.inject.store(inject, SeqCst);
        s.status[t].store(RUNNING, SeqCst);
        s.turn.store(t, SeqCst);
    }
}

// ------------------------------------------------------------------------------------------
// scenarios

#[derive(Clone, Copy, Debug)]
enum TOp {
    AsStr,
    CloneAsStrDrop,
    GetKey,
    GetIdx,
    AsNumber,
    AsContainer,
    CloneReadDrop,
    /// get of a member name that occurs twice (the first occurrence must win in every schedule)
    GetDup,
    /// get of the member right before the second occurrence of the duplicated name
    GetTag,
    /// clone, read the clone, convert the clone into an OwnedLazyValue, read and drop that
    CloneConvertDrop,
}

#[derive(Clone, Debug)]
struct Scenario {
    name: &'static str,
    owned: bool,
    json: &'static str,
    programs: Vec<Vec<TOp>>,
}

/// an escaped string literal of about 9 KiB
fn long_escaped() -> &'static str {
    static S: std::sync::OnceLock<String> = std::sync::OnceLock::new();
    S.get_or_init(|| {
        let mut s = String::from("\"");
        for i in 0..600 {
            s.push_str(if i % 7 == 0 { "caf\\u00e9 \\n " } else { "0123456789abcde" });
        }
        s.push('"');
        s
    })
}

fn scenarios(quick: bool) -> Vec<Scenario> {
    use TOp::*;
    let esc = "\"caf\\u00e9 \\\"quoted\\\" \\n tail that is long enough to need a heap buffer for the decoded text\"";
    let obj = "{\"k\":[1,2,{\"z\":\"\\u00e9\"}],\"s\":\"a\\nb\",\"n\":-1.5e3}";
    let arr = "[\"x\\ty\",{\"k\":null},3]";
    let mut v = vec![
        Scenario { name: "lazy-2x-as_str", owned: false, json: esc, programs: vec![vec![AsStr], vec![AsStr]] },
        Scenario { name: "lazy-as_str+clone", owned: false, json: esc, programs: vec![vec![AsStr], vec![CloneAsStrDrop]] },
        Scenario { name: "lazy-2x-clone", owned: false, json: esc, programs: vec![vec![CloneAsStrDrop], vec![CloneAsStrDrop, AsStr]] },
        Scenario { name: "owned-obj-2x-get", owned: true, json: obj, programs: vec![vec![GetKey], vec![GetKey]] },
        Scenario { name: "owned-obj-get+clone", owned: true, json: obj, programs: vec![vec![GetKey], vec![CloneReadDrop]] },
        Scenario { name: "owned-arr-get+container", owned: true, json: arr, programs: vec![vec![GetIdx], vec![AsContainer]] },
        Scenario { name: "owned-str-2x-as_str", owned: true, json: esc, programs: vec![vec![AsStr], vec![AsStr]] },
        Scenario { name: "owned-num-2x-as_number", owned: true, json: "-12345.678e-3", programs: vec![vec![AsNumber], vec![AsNumber]] },
    ];
    v.push(Scenario { name: "lazy-3x-as_str", owned: false, json: esc, programs: vec![vec![AsStr], vec![AsStr], vec![AsStr]] });
    if !quick {
        v.push(Scenario { name: "owned-obj-3x", owned: true, json: obj, programs: vec![vec![GetKey], vec![AsContainer], vec![CloneReadDrop]] });
        v.push(Scenario { name: "lazy-3x-mixed", owned: false, json: esc, programs: vec![vec![AsStr, AsStr], vec![CloneAsStrDrop], vec![AsStr]] });
        v.push(Scenario { name: "owned-arr-3x", owned: true, json: arr, programs: vec![vec![GetIdx, GetIdx], vec![CloneReadDrop], vec![AsContainer]] });
        v.push(Scenario { name: "owned-str-3x", owned: true, json: esc, programs: vec![vec![AsStr], vec![CloneReadDrop], vec![AsStr]] });
    }
    // values that pass validation but cannot be decoded (a lone surrogate escape, a number beyond f64): the
    // negative outcome goes through the same cache protocol
    v.push(Scenario { name: "owned-undecodable-str", owned: true, json: "\"undecodable tail \\ud800\"", programs: vec![vec![AsStr], vec![AsStr, CloneReadDrop]] });
    v.push(Scenario { name: "owned-undecodable-num", owned: true, json: "1e999", programs: vec![vec![AsNumber], vec![AsNumber]] });
    v.push(Scenario { name: "owned-obj-undecodable-children", owned: true, json: "{\"s\":\"x\\ud800\",\"k\":1e999,\"id\":3}", programs: vec![vec![GetKey], vec![GetKey, GetDup]] });
    // a long escaped string (several KiB of raw text): decoding takes long, clones arrive meanwhile
    v.push(Scenario { name: "lazy-long-as_str+clone", owned: false, json: long_escaped(), programs: vec![vec![AsStr], vec![CloneAsStrDrop]] });
    v.push(Scenario { name: "owned-long-as_str+clone", owned: true, json: long_escaped(), programs: vec![vec![AsStr], vec![CloneReadDrop, AsStr]] });
    // (appended so that the scenario indices used by saved replay files stay stable)
    let dup = "{\"id\":1,\"kind\":\"k\",\"tag\":\"t\\n\",\"id\":2,\"z\":[3]}";
    v.push(Scenario { name: "owned-dupkey-get", owned: true, json: dup, programs: vec![vec![GetTag, GetDup], vec![GetDup, GetTag]] });
    v.push(Scenario { name: "lazy-as_str+convert", owned: false, json: esc, programs: vec![vec![AsStr], vec![CloneConvertDrop]] });
    v
}

enum Shared {
    Lazy(LazyValue<'static>),
    Owned(OwnedLazyValue),
}
unsafe impl Sync for Shared {}

fn run_op(sh: &Shared, op: TOp) -> String {
    match (sh, op) {
        (Shared::Lazy(l), TOp::AsStr) => format!("{:?}", l.as_str()),
        (Shared::Lazy(l), TOp::CloneAsStrDrop) => {
            let c = l.clone();
            let r = format!("{:?}", c.as_str());
            drop(c);
            r
        }
        (Shared::Lazy(l), TOp::CloneConvertDrop) => {
            let c = l.clone();
            let a = format!("{:?}", c.as_str());
            let o = OwnedLazyValue::from(c);
            let r = format!("{a}/{:?}", o.as_str());
            drop(o);
            r
        }
        (Shared::Lazy(l), _) => format!("{:?}", l.as_str()),
        (Shared::Owned(o), TOp::GetDup) => format!("{:?}", o.get("id").and_then(|x| x.as_u64())),
        (Shared::Owned(o), TOp::GetTag) => format!("{:?}", o.get("tag").and_then(|x| x.as_str().map(|s| s.to_string()))),
        (Shared::Owned(o), TOp::CloneConvertDrop) => format!("{:?}", o.clone().as_str()),
        (Shared::Owned(o), TOp::AsStr) => format!("{:?}", o.as_str()),
        (Shared::Owned(o), TOp::GetKey) => format!("{:?}", o.get("s").and_then(|x| x.as_str().map(|s| s.to_string()))),
        (Shared::Owned(o), TOp::GetIdx) => format!("{:?}", o.get(0usize).and_then(|x| x.as_str().map(|s| s.to_string()))),
        (Shared::Owned(o), TOp::AsNumber) => format!("{:?}", o.as_number()),
        (Shared::Owned(o), TOp::AsContainer) => {
            use sonic_rs::JsonContainerTrait;
            format!("{:?}/{:?}", o.as_array().map(|a| a.len()), o.as_object().map(|a| a.len()))
        }
        (Shared::Owned(o), TOp::CloneReadDrop) => {
            let c = o.clone();
            let r = format!("{:?}/{:?}/{:?}", c.as_str().map(|s| s.len()), c.get("k").is_some(), c.get(1usize).is_some());
            drop(c);
            r
        }
        (Shared::Owned(o), TOp::CloneAsStrDrop) => format!("{:?}", o.clone().as_str()),
    }
}

fn make_shared(sc: &Scenario) -> Shared {
    if sc.owned {
        Shared::Owned(sonic_rs::from_str(sc.json).unwrap())
    } else {
        Shared::Lazy(sonic_rs::from_str(sc.json).unwrap())
    }
}

/// expected results: the same programs run sequentially (no contention), plus the live
/// allocation deltas at the two measurement points
fn sequential(sc: &Scenario) -> (Vec<Vec<String>>, (i64, i64)) {
    let sh = make_shared(sc);
    let seq: Vec<Vec<String>> = sc.programs.iter().map(|p| p.iter().map(|op| run_op(&sh, *op)).collect()).collect();
    // the expected result of an operation is what it returns on a fresh, unshared value: it must not
    // depend on what other readers did before
    let res: Vec<Vec<String>> = sc.programs.iter().map(|p| p.iter().map(|op| run_op(&make_shared(sc), *op)).collect()).collect();
    let _ = seq;
    let mid = alloc::global_live();
    drop(sh);
    let end = alloc::global_live();
    // what dropping the shared value releases: the value itself plus its cached decoding
    (res, (mid.0 - end.0, mid.1 - end.1))
}

struct Outcome {
    results: Vec<Vec<String>>,
    mid: (i64, i64),
    end: (i64, i64),
    log: RunLog,
}

fn controlled_run(sc: &Scenario, prefix: &[usize], case: &[u8]) -> Outcome {
    let n = sc.programs.len();
    let sched = Arc::new(Sched::new(n));
    let base = alloc::global_live();
    let sh = Arc::new(make_shared(sc));
    let after_shared = alloc::global_live();
    let mut handles = Vec::new();
    for (i, prog) in sc.programs.iter().enumerate() {
        let sh = sh.clone();
        let prog = prog.clone();
        let sched = sched.clone();
        let case = case.to_vec();
        handles.push(std::thread::spawn(move || {
            MY_INDEX.with(|c| c.set(i));
            MY_SCHED.with(|c| *c.borrow_mut() = Some(sched.clone()));
            vbase::crash::set_current("schedules", &case);
            // first yield: the scheduler decides who starts
            sched.yield_point(i, Op::Load);
            let mut r: Vec<String> = Vec::new();
            // references handed out by as_str stay valid as long as the shared value lives:
            // keep them across the other threads' operations and read them again at the end
            let mut held: Vec<(&str, String)> = Vec::new();
            for op in prog.iter() {
                match (&*sh, op) {
                    (Shared::Lazy(l), TOp::AsStr) => {
                        let s = l.as_str();
                        if let Some(s) = s {
                            held.push((s, s.to_string()));
                        }
                        r.push(format!("{:?}", s));
                    }
                    (Shared::Owned(o), TOp::AsStr) => {
                        let s = o.as_str();
                        if let Some(s) = s {
                            held.push((s, s.to_string()));
                        }
                        r.push(format!("{:?}", s));
                    }
                    (Shared::Owned(o), TOp::GetKey) | (Shared::Owned(o), TOp::GetIdx) => {
                        let c = if matches!(op, TOp::GetKey) { o.get("s") } else { o.get(0usize) };
                        let s = c.and_then(|x| x.as_str());
                        if let Some(s) = s {
                            held.push((s, s.to_string()));
                        }
                        r.push(format!("{:?}", s));
                    }
                    _ => r.push(run_op(&sh, *op)),
                }
            }
            // let the others run before the references are read again
            sched.yield_point(i, Op::Load);
            for (now, then) in &held {
                if *now != then.as_str() {
                    r.push(format!("<a reference handed out earlier now reads {:?} instead of {:?}>", vbase::refjson::trunc(&now.chars().take(40).collect::<String>(), 60), vbase::refjson::trunc(then, 60)));
                }
            }
            sched.done(i);
            vbase::crash::clear_current();
            MY_INDEX.with(|c| c.set(usize::MAX));
            MY_SCHED.with(|c| *c.borrow_mut() = None);
            r
        }));
    }
    let log = drive(&sched, n, prefix);
    let results: Vec<Vec<String>> = handles.into_iter().map(|h| h.join().unwrap_or_else(|_| vec!["<thread panicked>".into()])).collect();
    // measurement points: `mid` = all readers done, shared value alive; `end` = shared value
    // dropped. What the drop releases (value + the one surviving cached decoding) is compared
    // with the sequential run; what is left at `end` beyond the locals of this function
    // (results, decision log) is a leak.
    let res2 = results;
    let mid = alloc::global_live();
    let sh = Arc::try_unwrap(sh).ok();
    drop(sh);
    let end = alloc::global_live();
    let _ = after_shared;
    let fp = footprint(&res2);
    let dl = if log.decisions.capacity() > 0 { (1i64, (log.decisions.capacity() * std::mem::size_of::<(usize, usize)>()) as i64) } else { (0, 0) };
    // the Arc around the shared value is released by try_unwrap as well: one allocation of
    // ArcInner<Shared>
    let arc = (1i64, (std::mem::size_of::<Shared>() + 2 * std::mem::size_of::<usize>()) as i64);
    Outcome { results: res2, mid: (mid.0 - end.0 - arc.0, mid.1 - end.1 - arc.1), end: (end.0 - base.0 - fp.0 - dl.0, end.1 - base.1 - fp.1 - dl.1), log }
}

fn footprint(v: &Vec<Vec<String>>) -> (i64, i64) {
    let mut c = 0i64;
    let mut b = 0i64;
    if v.capacity() > 0 {
        c += 1;
        b += (v.capacity() * std::mem::size_of::<Vec<String>>()) as i64;
    }
    for x in v {
        if x.capacity() > 0 {
            c += 1;
            b += (x.capacity() * std::mem::size_of::<String>()) as i64;
        }
        for s in x {
            if s.capacity() > 0 {
                c += 1;
                b += s.capacity() as i64;
            }
        }
    }
    (c, b)
}

/// case = [scenario index][choices...] ; used for replay
pub fn oracle(case: &[u8], obs: &mut Obs) -> Result<(), Fail> {
    if case.is_empty() {
        return Ok(());
    }
    let scs = scenarios(false);
    let sc = &scs[case[0] as usize % scs.len()];
    let prefix: Vec<usize> = case[1..].iter().map(|b| *b as usize).collect();
    set_hook(Some(hook));
    alloc::set_global_counting(true);
    alloc::set_poison_on_free(true);
    // warm-up + expectations
    let _ = sequential(sc);
    let (want, want_mid) = sequential(sc);
    let out = controlled_run(sc, &prefix, case);
    alloc::set_poison_on_free(false);
    alloc::set_global_counting(false);
    set_hook(None);
    obs.render = Some(format!("scenario {} schedule {:?}", sc.name, out.log.decisions.iter().map(|d| d.0).collect::<Vec<_>>()));
    if out.log.switches_inside || out.log.injected {
        obs.nt();
    }
    judge(sc, &out, &want, want_mid)
}

fn judge(sc: &Scenario, out: &Outcome, want: &[Vec<String>], want_mid: (i64, i64)) -> Result<(), Fail> {
    let sched: Vec<usize> = out.log.decisions.iter().map(|d| d.0).collect();
    let kind = if sc.owned { "owned" } else { "lazy" };
    ensure!(out.results == want, format!("C18/{kind}/wrong-result"), "scenario {} schedule {sched:?}: readers saw {:?}, expected {:?}", sc.name, out.results, want);
    ensure!(out.mid == want_mid, format!("C18/{kind}/cached-decodings"), "scenario {} schedule {sched:?}: dropping the shared value after all readers finished releases {} allocations / {} bytes, the sequential run releases {} / {} (exactly one cached decoding must survive, losers freed exactly once)", sc.name, out.mid.0, out.mid.1, want_mid.0, want_mid.1);
    ensure!(out.end == (0, 0), format!("C18/{kind}/leak-after-drop"), "scenario {} schedule {sched:?}: after dropping the shared value {} allocations / {} bytes remain", sc.name, out.end.0, out.end.1);
    Ok(())
}

pub fn subs() -> Vec<Sub<'static>> {
    vec![Sub { name: "schedules", oracle: &oracle, minimise_bytes: false }]
}

pub fn run(ctx: &Ctx) {
    let subs = subs();
    let sub = &subs[0];
    let scs = scenarios(ctx.quick());
    let all = scenarios(false);
    set_hook(Some(hook));
    alloc::set_global_counting(true);
    alloc::set_poison_on_free(true);
    let mut samples = Vec::new();
    for sc in &scs {
        let idx = all.iter().position(|s| s.name == sc.name).unwrap();
        let _ = sequential(sc);
        let (want, want_mid) = sequential(sc);
        // DFS over the schedule tree by stateless re-execution
        let mut prefix: Vec<usize> = Vec::new();
        let mut runs = 0u64;
        let mut nontrivial = 0u64;
        let cap = if ctx.quick() { 60_000 } else { 2_000_000 };
        let mut complete = true;
        loop {
            let mut case = vec![idx as u8];
            case.extend(prefix.iter().map(|c| *c as u8));
            let out = controlled_run(sc, &prefix, &case);
            runs += 1;
            if out.log.switches_inside || out.log.injected {
                nontrivial += 1;
            }
            if samples.len() < 4 && (out.log.injected || runs % 97 == 5) {
                samples.push(format!("scenario {} schedule {:?}", sc.name, out.log.decisions.iter().map(|d| d.0).collect::<Vec<_>>()));
            }
            if let Err(f) = judge(sc, &out, &want, want_mid) {
                // full decision vector as the replay case
                let mut case = vec![idx as u8];
                case.extend(out.log.decisions.iter().map(|d| d.0 as u8));
                alloc::set_poison_on_free(false);
                alloc::set_global_counting(false);
                set_hook(None);
                ctx.record_violation(sub, &case, f);
                ctx.add_raw_evaluations("schedules", runs, nontrivial, &[], samples);
                return;
            }
            // next schedule: increment the last decision that has options left
            let mut d = out.log.decisions;
            loop {
                match d.pop() {
                    None => break,
                    Some((c, n)) => {
                        if c + 1 < n {
                            d.push((c + 1, n));
                            break;
                        }
                    }
                }
            }
            if d.is_empty() {
                break;
            }
            prefix = d.iter().map(|x| x.0).collect();
            if runs >= cap {
                complete = false;
                break;
            }
        }
        ctx.add_raw_evaluations("schedules", runs, nontrivial, &[(sc.name, runs)], Vec::new());
        if complete {
            ctx.mark_exhaustive(format!("all {runs} schedules of scenario {} (threads x atomic operations x weak-CAS failure choices)", sc.name));
        } else {
            ctx.note(format!("scenario {}: schedule tree cut after {runs} runs", sc.name));
        }
    }
    ctx.add_raw_evaluations("schedules", 0, 0, &[], samples);
    alloc::set_poison_on_free(false);
    alloc::set_global_counting(false);
    set_hook(None);
    let _: Option<Fail> = None;
    let _ = |x: &str| -> Result<(), Fail> { fail!("x", "{x}") };
}
