//! C07 — numbers are parsed exactly.

use std::collections::HashMap;

use sonic_rs::{JsonContainerTrait, JsonNumberTrait, JsonValueTrait, Number, Value};
use vbase::engine::{Ctx, Fail, Obs, Src, Sub};
use vbase::gens;
use vbase::refjson::{self, classify_number, is_int_literal, NumClass};
use vbase::{ensure, fail};

pub const RULE: &str = "cases are number literals: every grammatical string of <=6 chars over {-019.eE+} (exhaustive), digit counts 1..=800 in integer part / fraction / both, every decimal exponent -400..=400 x mantissa shapes, exact decimal midpoints of adjacent doubles (every binary exponent incl. subnormals and the f32 boundary) truncated / perturbed / extended, 19/20-digit integer boundaries, 15..18-digit runs with the decimal point at every position and varying bytes remaining (SIMD digit path), all sign-of-zero forms, random literals. Each literal is parsed by sonic_number::parse_number (with every terminator), from_str for f64/f32/u8..u128/i8..i128/Number/Value, as array element in the in-place and in the copying DOM parser, and as a map key; results are compared with Rust std parsing (exact integer class within u64/i64, else bits of str::parse::<f64>, rejected iff infinite). Non-trivial = anything but a plain integer of <=15 digits; distinct by literal.";
pub const ASSUMPTIONS: &[&str] = &["Rust std str::parse::<f64>/<u64>/<i64>/<u128>/<i128> are exact and correctly rounded", "for the literal -0 both integer 0 and float -0.0 are accepted; integer targets are not asserted on -0"];

fn shape_label(lit: &str) -> &'static str {
    let digits = lit.bytes().filter(|c| c.is_ascii_digit()).count();
    let has_exp = lit.bytes().any(|c| c == b'e' || c == b'E');
    let f = lit.parse::<f64>().unwrap_or(f64::NAN);
    if is_int_literal(lit) {
        if digits <= 15 {
            "int<=15"
        } else if digits <= 19 {
            "int16-19"
        } else if digits == 20 {
            "int20"
        } else {
            "int>20"
        }
    } else if f.is_infinite() {
        "overflow"
    } else if f != 0.0 && f.abs() < f64::MIN_POSITIVE {
        "subnormal"
    } else if f == 0.0 {
        "zero-or-underflow"
    } else if digits > 19 {
        "float>19digits"
    } else if digits > 15 {
        "float16-19digits"
    } else if has_exp {
        "float-exp"
    } else {
        "float-short"
    }
}

fn bits_ok(want: f64, got: f64) -> bool {
    want.to_bits() == got.to_bits()
}

macro_rules! int_target {
    ($lit:expr, $s:expr, $t:ty, $is_int:expr, $negzero:expr) => {{
        if !$negzero {
            let want: Option<$t> = if $is_int { $lit.parse::<$t>().ok() } else { None };
            let got: Option<$t> = sonic_rs::from_str::<$t>($s).ok();
            ensure!(want == got, format!("C07/int-target/{}", stringify!($t)), "from_str::<{}>({:?}) = {:?}, expected {:?}", stringify!($t), $lit, got, want);
        }
    }};
}

pub fn oracle(case: &[u8], obs: &mut Obs) -> Result<(), Fail> {
    let Ok(lit) = std::str::from_utf8(case) else { return Ok(()) };
    if !refjson::is_number(case) {
        // not a number literal: every numeric context must reject it
        ensure!(sonic_rs::from_str::<f64>(lit).is_err(), "C07/accepts-invalid/f64", "from_str::<f64> accepted {:?}", lit);
        ensure!(sonic_rs::from_str::<Number>(lit).is_err(), "C07/accepts-invalid/Number", "from_str::<Number> accepted {:?}", lit);
        ensure!(sonic_rs::from_str::<u64>(lit).is_err(), "C07/accepts-invalid/u64", "from_str::<u64> accepted {:?}", lit);
        ensure!(sonic_rs::from_str::<i64>(lit).is_err(), "C07/accepts-invalid/i64", "from_str::<i64> accepted {:?}", lit);
        return Ok(());
    }
    let class = classify_number(lit);
    let is_int = is_int_literal(lit);
    let digits = lit.bytes().filter(|c| c.is_ascii_digit()).count();
    if !(is_int && digits <= 15) {
        obs.nt();
    }
    obs.label(shape_label(lit));
    let negzero_int = is_int && matches!(class, NumClass::F64(f) if f.to_bits() == (-0.0f64).to_bits());
    let sig_class = |ctx: &str| -> String {
        let zero = lit.parse::<f64>().map(|f| f == 0.0).unwrap_or(false);
        if zero && lit.starts_with('-') {
            format!("C07/{ctx}/negative-zero")
        } else {
            format!("C07/{ctx}/{}", shape_label(lit))
        }
    };

    // --- sonic_number::parse_number directly, with several terminators
    for term in [&b""[..], b",", b"]", b"}", b" ", b"\n", b"x", b"\"", b"\0"] {
        let mut data = case.to_vec();
        data.extend_from_slice(term);
        let neg = data[0] == b'-';
        let mut idx = if neg { 1 } else { 0 };
        let r = sonic_number::parse_number(&data, &mut idx, neg);
        match (&class, &r) {
            (NumClass::Inf, Err(_)) => {}
            (NumClass::Inf, Ok(x)) => fail!(sig_class("parse_number"), "parse_number({:?}) = {:?}, expected rejection (infinite)", lit, x),
            (_, Err(e)) => fail!(sig_class("parse_number"), "parse_number({:?}+{:?}) failed: {:?}", lit, refjson::show_bytes(term, 4), e),
            (c, Ok(x)) => {
                let ok = match (c, x) {
                    (NumClass::U64(u), sonic_number::ParserNumber::Unsigned(v)) => u == v,
                    (NumClass::I64(i), sonic_number::ParserNumber::Signed(v)) => i == v,
                    (NumClass::F64(f), sonic_number::ParserNumber::Float(v)) => bits_ok(*f, *v),
                    (NumClass::F64(_), sonic_number::ParserNumber::Unsigned(0)) | (NumClass::F64(_), sonic_number::ParserNumber::Signed(0)) => negzero_int,
                    _ => false,
                };
                ensure!(ok, sig_class("parse_number"), "parse_number({:?}+{:?}) = {:?}, expected {:?}", lit, refjson::show_bytes(term, 4), x, c);
                ensure!(idx == case.len(), sig_class("parse_number-end"), "parse_number({:?}+{:?}) stopped at {} instead of {}", lit, refjson::show_bytes(term, 4), idx, case.len());
            }
        }
    }

    // --- f64 / f32 targets
    let want_f64: Option<f64> = match class {
        NumClass::Inf => None,
        _ => Some(lit.parse::<f64>().unwrap()),
    };
    let got = sonic_rs::from_str::<f64>(lit).ok();
    ensure!(want_f64.map(f64::to_bits) == got.map(f64::to_bits), sig_class("f64"), "from_str::<f64>({:?}) = {:?}, expected {:?}", lit, got, want_f64);
    let got = sonic_rs::from_slice::<f64>(case).ok();
    ensure!(want_f64.map(f64::to_bits) == got.map(f64::to_bits), sig_class("f64"), "from_slice::<f64>({:?}) = {:?}, expected {:?}", lit, got, want_f64);
    let want_f32 = want_f64.map(|f| f as f32);
    let got = sonic_rs::from_str::<f32>(lit).ok();
    // an integer literal within u64/i64 is handed over as that exact integer; narrowing the exact integer
    // once is as good as narrowing its f64 value once (they differ when the integer is a tie of two doubles)
    let alt_f32: Option<f32> = match class {
        NumClass::U64(u) => Some(u as f32),
        NumClass::I64(i) => Some(i as f32),
        _ => None,
    };
    ensure!(want_f32.map(f32::to_bits) == got.map(f32::to_bits) || (alt_f32.is_some() && alt_f32.map(f32::to_bits) == got.map(f32::to_bits)), sig_class("f32"), "from_str::<f32>({:?}) = {:?}, expected {:?} (f64 result narrowed once{})", lit, got, want_f32, alt_f32.map(|a| format!(", or the exact integer narrowed once: {a:?}")).unwrap_or_default());

    // --- the same literal behind an escaped string in a tuple / sequence read by one deserializer: what
    // the string left in the deserializer's scratch space must not reach the number
    {
        let text = format!("[\"\\u0034\\u0032\", {lit}, \"x\\ty\", {lit}]");
        macro_rules! after_string {
            ($t:ty) => {{
                let want: Option<$t> = sonic_rs::from_str::<$t>(lit).ok();
                let got = sonic_rs::from_str::<(String, $t, String, $t)>(&text).ok().map(|t| (t.1, t.3));
                let same = match (&want, &got) {
                    (Some(w), Some((a, b))) => format!("{w:?}") == format!("{a:?}") && format!("{w:?}") == format!("{b:?}"),
                    (None, None) => true,
                    _ => false,
                };
                ensure!(same, sig_class(concat!("after-string/", stringify!($t))), "from_str::<(String,{0},String,{0})>({text:?}) gives {got:?}, the bare literal gives {want:?}", stringify!($t));
            }};
        }
        after_string!(u128);
        after_string!(i128);
        after_string!(u64);
        after_string!(i64);
        after_string!(u8);
        after_string!(f64);
    }

    // --- Number and Value classification
    let check_number = |ctx: &'static str, n: Option<Number>| -> Result<(), Fail> {
        match (&class, n) {
            (NumClass::Inf, None) => Ok(()),
            (NumClass::Inf, Some(n)) => fail!(sig_class(ctx), "{ctx}: {:?} accepted as {:?}, expected rejection", lit, n),
            (_, None) => fail!(sig_class(ctx), "{ctx}: {:?} rejected", lit),
            (NumClass::U64(u), Some(n)) => {
                ensure!(n.is_u64() && !n.is_f64() && n.as_u64() == Some(*u) && n.is_i64() == (*u <= i64::MAX as u64) && n.as_i64() == i64::try_from(*u).ok(), sig_class(ctx), "{ctx}: {:?} -> {:?} (is_u64={}, is_i64={}, is_f64={})", lit, n, n.is_u64(), n.is_i64(), n.is_f64());
                Ok(())
            }
            (NumClass::I64(i), Some(n)) => {
                ensure!(n.is_i64() && !n.is_u64() && !n.is_f64() && n.as_i64() == Some(*i) && n.as_u64().is_none(), sig_class(ctx), "{ctx}: {:?} -> {:?} (is_u64={}, is_i64={}, is_f64={})", lit, n, n.is_u64(), n.is_i64(), n.is_f64());
                Ok(())
            }
            (NumClass::F64(f), Some(n)) => {
                let ok = (n.is_f64() && n.as_f64().map(f64::to_bits) == Some(f.to_bits())) || (negzero_int && (n.as_u64() == Some(0) || n.as_i64() == Some(0)));
                ensure!(ok, sig_class(ctx), "{ctx}: {:?} -> {:?} (is_f64={}), expected f64 {:?}", lit, n, n.is_f64(), f);
                Ok(())
            }
        }
    };
    check_number("Number", sonic_rs::from_str::<Number>(lit).ok())?;
    check_number("Value", sonic_rs::from_str::<Value>(lit).ok().and_then(|v| v.as_number()))?;
    // array element: in-place parser (whole input) and copying parser (behind whitespace / second element of a tuple)
    for (ctx, text) in [("array-inplace", format!("[{lit}]")), ("array-inplace-2", format!("[1,{lit} ]")), ("object-inplace", format!("{{\"k\":{lit}}}"))] {
        match sonic_rs::from_str::<Value>(&text) {
            Ok(v) => {
                let n = if ctx == "object-inplace" { v.get("k").and_then(|x| x.as_number()) } else { v.as_array().and_then(|a| a.last()).and_then(|x| x.as_number()) };
                check_number(ctx, n)?;
            }
            Err(_) => check_number(ctx, None)?,
        }
    }
    {
        let text = format!(" [{lit},{lit}]");
        match sonic_rs::from_str::<Option<Value>>(&text) {
            Ok(Some(v)) => {
                for x in v.as_array().map(|a| a.iter().collect::<Vec<_>>()).unwrap_or_default() {
                    check_number("array-copy", x.as_number())?;
                }
                ensure!(v.as_array().map(|a| a.len()) == Some(2), sig_class("array-copy"), "copy parser: wrong shape for {:?}", text);
            }
            Ok(None) => fail!(sig_class("array-copy"), "Option<Value> None for {:?}", text),
            Err(_) => check_number("array-copy", None)?,
        }
    }

    // --- integer targets of every width
    int_target!(lit, lit, u8, is_int, negzero_int);
    int_target!(lit, lit, u16, is_int, negzero_int);
    int_target!(lit, lit, u32, is_int, negzero_int);
    int_target!(lit, lit, u64, is_int, negzero_int);
    int_target!(lit, lit, usize, is_int, negzero_int);
    int_target!(lit, lit, i8, is_int, negzero_int);
    int_target!(lit, lit, i16, is_int, negzero_int);
    int_target!(lit, lit, i32, is_int, negzero_int);
    int_target!(lit, lit, i64, is_int, negzero_int);
    int_target!(lit, lit, u128, is_int, negzero_int);
    int_target!(lit, lit, i128, is_int, negzero_int);
    // a Vec target drives the SeqAccess path
    if !negzero_int {
        let text = format!("[{lit}, {lit}]");
        let want: Option<Vec<i64>> = if is_int { lit.parse::<i64>().ok().map(|x| vec![x, x]) } else { None };
        let got = sonic_rs::from_str::<Vec<i64>>(&text).ok();
        ensure!(want == got, "C07/int-target/Vec<i64>", "from_str::<Vec<i64>>({:?}) = {:?}, expected {:?}", text, got, want);
        // map-key position
        let text = format!("{{\"{lit}\":true}}");
        let want: Option<i64> = if is_int { lit.parse::<i64>().ok() } else { None };
        let got = sonic_rs::from_str::<HashMap<i64, bool>>(&text).ok().and_then(|m| m.keys().next().copied());
        ensure!(want == got, "C07/int-target/map-key-i64", "from_str::<HashMap<i64,bool>>({:?}) key = {:?}, expected {:?}", text, got, want);
        let want: Option<u64> = if is_int { lit.parse::<u64>().ok() } else { None };
        let got = sonic_rs::from_str::<HashMap<u64, bool>>(&text).ok().and_then(|m| m.keys().next().copied());
        ensure!(want == got, "C07/int-target/map-key-u64", "from_str::<HashMap<u64,bool>>({:?}) key = {:?}, expected {:?}", text, got, want);
    }
    Ok(())
}

// ---- decimal string arithmetic for exact midpoints ---------------------------------------

/// exact decimal expansion of a finite non-negative f64 as (integer digits, fraction digits)
fn exact_decimal(x: f64) -> (Vec<u8>, Vec<u8>) {
    let s = format!("{:.1100}", x);
    let (ip, fp) = s.split_once('.').unwrap();
    (ip.bytes().map(|c| c - b'0').collect(), fp.bytes().map(|c| c - b'0').collect())
}

/// exact decimal string of (a+b)/2 for adjacent non-negative doubles
pub fn midpoint_decimal(a: f64, b: f64) -> String {
    let (ai, af) = exact_decimal(a);
    let (bi, bf) = exact_decimal(b);
    // align
    let il = ai.len().max(bi.len());
    let mut x: Vec<u8> = vec![0; il - ai.len()];
    x.extend(ai);
    x.extend(af);
    let mut y: Vec<u8> = vec![0; il - bi.len()];
    y.extend(bi);
    y.extend(bf);
    let fl = 1100usize;
    // sum
    let mut sum = vec![0u8; x.len() + 1];
    let mut carry = 0u8;
    for i in (0..x.len()).rev() {
        let s = x[i] + y[i] + carry;
        sum[i + 1] = s % 10;
        carry = s / 10;
    }
    sum[0] = carry;
    // halve = multiply by 5, shift decimal point one to the left
    let mut prod = vec![0u8; sum.len() + 1];
    let mut carry = 0u8;
    for i in (0..sum.len()).rev() {
        let p = sum[i] * 5 + carry;
        prod[i + 1] = p % 10;
        carry = p / 10;
    }
    prod[0] = carry;
    // prod has (il + 2) integer digits and fl fraction digits, value = sum*5; /10 moves the point
    let int_len = prod.len() - fl - 1;
    let mut s = String::new();
    for (i, d) in prod.iter().enumerate() {
        if i == int_len {
            s.push('.');
        }
        s.push((b'0' + d) as char);
    }
    // trim
    let s = s.trim_end_matches('0').to_string();
    let s = s.trim_start_matches('0').to_string();
    let s = if s.starts_with('.') { format!("0{s}") } else { s };
    if s.ends_with('.') {
        format!("{s}0")
    } else {
        s
    }
}

pub fn next_up(x: f64) -> f64 {
    f64::from_bits(x.to_bits() + 1)
}

pub fn perturbations(mid: &str, emit: &mut dyn FnMut(&[u8]) -> bool) -> bool {
    // exact midpoint
    if !emit(mid.as_bytes()) {
        return false;
    }
    // very long zero tails (beyond any fixed digit buffer: 768, 800), with and without a final sticky digit
    if mid.contains('.') && mid.len() < 40 {
        for n in [700usize, 745, 752, 760, 766, 767, 768, 769, 800, 1100] {
            let z = "0".repeat(n);
            for tail in ["", "1"] {
                let s = format!("{mid}{z}{tail}");
                if !emit(s.as_bytes()) {
                    return false;
                }
            }
        }
    }
    // extended with zeros / a trailing nonzero
    for ext in ["0", "000000", "1", "0000000000000000000000001", "9"] {
        let s = format!("{mid}{ext}");
        if !emit(s.as_bytes()) {
            return false;
        }
    }
    // an integer-valued midpoint (large binary exponent): the same value spelt with an all-zero
    // fraction, a zero exponent, or a fraction that only matters as a sticky bit
    if let Some(mid) = mid.strip_suffix(".0") {
        for ext in ["", ".0", ".000000", ".0e0", "e0", ".0E+0", ".00000000000000000000000000001", ".0e-0", "E+00"] {
            let s = format!("{mid}{ext}");
            if !emit(s.as_bytes()) {
                return false;
            }
        }
        let mut v = mid.as_bytes().to_vec();
        if let Some(l) = v.last_mut() {
            if *l > b'0' {
                *l -= 1;
                for ext in [".0", ".99999", ".0e0"] {
                    let mut w = v.clone();
                    w.extend_from_slice(ext.as_bytes());
                    if !emit(&w) {
                        return false;
                    }
                }
            }
        }
    }
    // last digit -1 (below the midpoint)
    let b = mid.as_bytes();
    if let Some(&last) = b.last() {
        if last > b'0' && last <= b'9' {
            let mut v = b.to_vec();
            *v.last_mut().unwrap() = last - 1;
            if !emit(&v) {
                return false;
            }
            v.extend_from_slice(b"99999999");
            if !emit(&v) {
                return false;
            }
        }
    }
    // truncations to 17..=25 significant digits and a few longer ones
    let digits_start = b.iter().position(|c| (b'1'..=b'9').contains(c)).unwrap_or(0);
    for keep in [15usize, 16, 17, 18, 19, 20, 21, 25, 40, 100, 400, 760, 770] {
        let mut cnt = 0;
        let mut end = b.len();
        for (i, c) in b.iter().enumerate().skip(digits_start) {
            if c.is_ascii_digit() {
                cnt += 1;
                if cnt == keep {
                    end = i + 1;
                    break;
                }
            }
        }
        if end < b.len() && b[..end].contains(&b'.') {
            if !emit(&b[..end]) {
                return false;
            }
        }
    }
    // scientific re-spelling of the midpoint: d.ddddde±x
    if let Some(dot) = mid.find('.') {
        let all: String = mid.chars().filter(|c| *c != '.').collect();
        let lead = all.bytes().position(|c| c != b'0').unwrap_or(0);
        let sig = &all[lead..];
        if !sig.is_empty() {
            let exp = dot as i32 - lead as i32 - 1;
            let s = if sig.len() > 1 { format!("{}.{}e{}", &sig[..1], &sig[1..], exp) } else { format!("{sig}e{exp}") };
            if !emit(s.as_bytes()) {
                return false;
            }
            let s2 = format!("{}e{}", sig, exp - (sig.len() as i32 - 1));
            if !emit(s2.as_bytes()) {
                return false;
            }
            // every spelling of the exponent: explicit plus sign, upper-case marker, zero padding
            for s3 in [format!("{}.{}E{:+}", &sig[..1], if sig.len() > 1 { &sig[1..] } else { "0" }, exp), format!("{}.{}e{:+03}", &sig[..1], if sig.len() > 1 { &sig[1..] } else { "0" }, exp), format!("0.{}e{:+}", sig, exp + 1), format!("{}E{:+}", sig, exp - (sig.len() as i32 - 1))] {
                if !emit(s3.as_bytes()) {
                    return false;
                }
            }
        }
    }
    true
}

/// map-key position: the key text must be exactly an integer literal in range
pub fn oracle_key(case: &[u8], obs: &mut Obs) -> Result<(), Fail> {
    let Ok(key) = std::str::from_utf8(case) else { return Ok(()) };
    if key.bytes().any(|c| c == b'"' || c == b'\\' || c < 0x20) {
        return Ok(());
    }
    let is_lit = refjson::is_number(case) && is_int_literal(key);
    if is_lit && key.starts_with('-') && key[1..].bytes().all(|c| c == b'0') {
        return Ok(()); // -0: not asserted for integer targets
    }
    obs.nt();
    obs.label(if is_lit { "key-is-int-literal" } else { "key-decorated" });
    let text = format!("{{\"{key}\":true}}");
    macro_rules! key_target {
        ($t:ty) => {{
            let want: Option<$t> = if is_lit { key.parse::<$t>().ok() } else { None };
            let got = sonic_rs::from_str::<HashMap<$t, bool>>(&text).ok().and_then(|m| m.keys().next().copied());
            ensure!(want == got, format!("C07/map-key/{}/{}", stringify!($t), if is_lit { "literal" } else { "decorated" }), "from_str::<HashMap<{},bool>>({:?}) key = {:?}, expected {:?}", stringify!($t), text, got, want);
        }};
    }
    key_target!(u8);
    key_target!(i8);
    key_target!(u16);
    key_target!(i16);
    key_target!(u32);
    key_target!(i32);
    key_target!(u64);
    key_target!(i64);
    key_target!(u128);
    key_target!(i128);
    Ok(())
}

pub fn subs() -> Vec<Sub<'static>> {
    let mut v: Vec<Sub<'static>> = subs0();
    v.push(Sub { name: "map-keys", oracle: &oracle_key, minimise_bytes: true });
    v
}

fn subs0() -> Vec<Sub<'static>> {
    ["small-grammar", "digit-counts", "exponents", "halfway", "boundaries", "simd-digits", "random"].iter().map(|n| Sub { name: n, oracle: &oracle, minimise_bytes: false }).collect()
}

fn sub(name: &str) -> Sub<'static> {
    subs().into_iter().find(|s| s.name == name).unwrap()
}

pub fn run(ctx: &Ctx) {
    // (1) exhaustive small grammar
    let s = sub("small-grammar");
    let nl = ctx.n(6, 7);
    ctx.sweep(&s, true, &|shard, n, emit| {
        gens::number_candidates(nl, shard, n, &mut |c| emit(c));
    });
    ctx.mark_exhaustive(format!("all strings of length <= {nl} over {{-019.eE+}}"));

    // (2) digit counts
    let s = sub("digit-counts");
    ctx.sweep(&s, true, &|shard, n, emit| {
        let mut k = 0usize;
        for len in 1..=800usize {
            for fill in [b'1', b'9', b'5', b'0'] {
                for neg in [false, true] {
                    k += 1;
                    if k % n != shard {
                        continue;
                    }
                    let mut digits = vec![fill; len];
                    if fill == b'0' {
                        digits[0] = b'7';
                        *digits.last_mut().unwrap() = b'3';
                    }
                    let sign = if neg { "-" } else { "" };
                    let d = std::str::from_utf8(&digits).unwrap();
                    let forms = [format!("{sign}{d}"), format!("{sign}0.{d}"), format!("{sign}{d}.{d}"), format!("{sign}{d}e-{len}"), format!("{sign}0.{d}e{len}"), format!("{sign}1.{d}E+10")];
                    for f in &forms {
                        if !emit(f.as_bytes()) {
                            return;
                        }
                    }
                }
            }
        }
    });

    // (3) exponents
    let s = sub("exponents");
    ctx.sweep(&s, true, &|shard, n, emit| {
        let mants = ["1", "9", "2.5", "1.7976931348623157", "1.7976931348623159", "2.2250738585072014", "4.9406564584124654", "2.4703282292062327", "2.4703282292062328", "123456789012345678", "0.000001", "9007199254740993", "1.0000000000000002", "3.4028235", "3.4028236", "1.1754943508", "0.3"];
        let mut k = 0usize;
        for e in -400i32..=400 {
            for m in mants.iter() {
                k += 1;
                if k % n != shard {
                    continue;
                }
                for f in [format!("{m}e{e}"), format!("-{m}E{e:+}"), format!("{m}e{e:+04}")] {
                    if !emit(f.as_bytes()) {
                        return;
                    }
                }
            }
        }
        if shard == 0 {
            for e in ["1e1000", "1e-1000", "1e99999", "1e-99999", "0e99999", "1e2147483647", "1e-2147483648", "1e4294967296", "1e18446744073709551616", "0.0e-99999999999999999999", "1E+0000000000000000000000000000000000001", "1e000000400"] {
                if !emit(e.as_bytes()) {
                    return;
                }
            }
        }
    });

    // (3b) significands of every digit count 1..=25 against exponents that put the value next to the
    // overflow and underflow limits (every fast path has its own exponent guard)
    ctx.sweep(&s, true, &|shard, n, emit| {
        let mut k = 0usize;
        for nd in 1usize..=25 {
            for pat in 0..5u8 {
                k += 1;
                if k % n != shard {
                    continue;
                }
                let full = match pat {
                    0 => "1797693134862315708145274237317043567980705675258449965989174768".to_string(),
                    1 => "9".repeat(64),
                    2 => format!("1{}", "0".repeat(63)),
                    3 => "1797693134862315807937289714053034150799341327100378269361737789".to_string(),
                    _ => "4940656458412465441765687928682213723650598026143247644255856825".to_string(),
                };
                let m = &full[..nd];
                // value ~ 0.m x 10^(nd + e): overflow limit at nd + e = 309, underflow at about -323
                for target in (300i32..=312).chain(-330..=-318) {
                    let e = target - nd as i32;
                    for f in [format!("{m}e{e}"), format!("-{m}E{e:+}"), format!("{m}.0e{e}"), format!("{}.{}e{}", &m[..1], &m[1..], e + nd as i32 - 1)] {
                        if f.ends_with('.') || f.contains(".e") {
                            continue;
                        }
                        if !emit(f.as_bytes()) {
                            return;
                        }
                    }
                }
            }
        }
    });

    // (4) exact halfway cases
    let s = sub("halfway");
    let per_exp = ctx.n(2, 12);
    let seed = ctx.seed;
    ctx.sweep(&s, false, &|shard, n, emit| {
        let mut k = 0u64;
        // every binary exponent incl. subnormals (biased exponent 0..=2046)
        for be in 0u64..=2046 {
            k += 1;
            if k as usize % n != shard {
                continue;
            }
            let bytes = super::c02::pseudo_bytes(seed, be, 8 * per_exp + 8);
            let mut src = Src::new(&bytes);
            let mut mantissas: Vec<u64> = vec![0, 1, (1u64 << 52) - 1, (1u64 << 52) - 2, 1u64 << 51];
            for _ in 0..per_exp {
                mantissas.push(src.u64() & ((1u64 << 52) - 1));
            }
            // f32-boundary doubles: mantissa with low 29 bits = 0x10000000 (exactly between two f32)
            mantissas.push(((src.u64() & ((1u64 << 52) - 1)) & !((1u64 << 29) - 1)) | (1u64 << 28));
            for m in mantissas {
                let bits = (be << 52) | m;
                let a = f64::from_bits(bits);
                let b = next_up(a);
                if !b.is_finite() {
                    continue;
                }
                let mid = midpoint_decimal(a, b);
                if !perturbations(&mid, emit) {
                    return;
                }
            }
        }
    });

    // (5) integer boundaries
    let s = sub("boundaries");
    let mut list: Vec<Vec<u8>> = Vec::new();
    for base in [1u128 << 63, 1u128 << 64, 10u128.pow(19), 10u128.pow(20), 1u128 << 53, 1u128 << 31, 1u128 << 32, 1u128 << 15, 1u128 << 16, 1u128 << 7, 1u128 << 8, 10u128.pow(18), u128::MAX - 3, 1u128 << 127, i128::MAX as u128 - 3] {
        for d in -3i128..=3 {
            let v = (base as i128).wrapping_add(d);
            let vu = base.wrapping_add(d as u128);
            list.push(format!("{vu}").into_bytes());
            list.push(format!("-{vu}").into_bytes());
            list.push(format!("{v}").into_bytes());
            list.push(format!("{vu}.0").into_bytes());
            list.push(format!("{vu}e0").into_bytes());
        }
    }
    for z in ["0", "-0", "0.0", "-0.0", "0e0", "-0e0", "0E-0", "-0E+0", "0.000", "-0.000", "0.0e5", "-0.0e-5", "-0e99999", "0.00000000000000000000000000000000000000000000000001e-400", "-0.00000000000000000000000000000000000000000000000001e-400", "-1e-400", "1e-400"] {
        list.push(z.as_bytes().to_vec());
    }
    ctx.cases(&s, &list);

    // (6) 15..18-digit runs with the point at every position and varying tail length
    let s = sub("simd-digits");
    ctx.sweep(&s, false, &|shard, n, emit| {
        let mut k = 0usize;
        for total in 14usize..=20 {
            for point in 0..=total {
                for variant in 0..6u64 {
                    k += 1;
                    if k % n != shard {
                        continue;
                    }
                    let bytes = super::c02::pseudo_bytes(seed ^ 0xd161, (total * 1000 + point * 10) as u64 + variant, 32);
                    let mut digits: Vec<u8> = bytes.iter().take(total).map(|b| b'0' + b % 10).collect();
                    if digits[0] == b'0' {
                        digits[0] = b'1';
                    }
                    let d = std::str::from_utf8(&digits).unwrap();
                    let lit = if point == 0 { format!("0.{d}") } else if point == total { d.to_string() } else { format!("{}.{}", &d[..point], &d[point..]) };
                    for suffix in ["", "e5", "e-7", "E+22", "e-300"] {
                        let f = format!("{lit}{suffix}");
                        if !emit(f.as_bytes()) {
                            return;
                        }
                    }
                }
            }
        }
    });

    // (6b) map keys: integer literals with one decoration
    let s = sub("map-keys");
    let mut list: Vec<Vec<u8>> = Vec::new();
    for core in ["0", "1", "7", "12", "127", "128", "255", "256", "-1", "-128", "-129", "65535", "65536", "4294967295", "4294967296", "18446744073709551615", "18446744073709551616", "-9223372036854775808", "-9223372036854775809", "340282366920938463463374607431768211455", "340282366920938463463374607431768211456", "-170141183460469231731687303715884105728", "-170141183460469231731687303715884105729"] {
        list.push(core.as_bytes().to_vec());
        for (pre, post) in [(" ", ""), ("", " "), ("\t", ""), ("+", ""), ("0", ""), ("00", ""), ("", ".0"), ("", "e0"), ("", "E1"), ("-", ""), ("", "x"), ("x", ""), ("", ","), ("", ":"), ("", "}"), (" ", " "), ("", "."), ("", "e"), ("0x", ""), ("", "_"), ("", "u8"), ("\u{a0}", ""), ("", "\u{661}")] {
            list.push(format!("{pre}{core}{post}").into_bytes());
        }
    }
    for k in ["", " ", "-", "+", ".", "e", "--1", "- 1", "1 2", "true", "null", "NaN", "Infinity", "1e400", "٣"] {
        list.push(k.as_bytes().to_vec());
    }
    ctx.cases(&s, &list);

    // (7) random literals
    let s = sub("random");
    ctx.search(&s, "gen_number", ctx.n(400_000, 20_000_000), 64, &|src: &mut Src| {
        let mut out = Vec::new();
        gens::gen_number(src, true, &mut out);
        out
    });
    ctx.search(&s, "f64-roundtrip-forms", ctx.n(200_000, 10_000_000), 16, &|src: &mut Src| {
        let f = f64::from_bits(src.u64());
        let f = if f.is_finite() { f } else { 1.5 };
        match src.below(4) {
            0 => format!("{f:?}"),
            1 => format!("{f:e}"),
            2 => format!("{:.*e}", src.below(25), f),
            _ => format!("{:.*}", src.below(30), f),
        }
        .into_bytes()
    });
}

#[cfg(test)]
mod tests {
    #[test]
    fn midpoint() {
        assert_eq!(super::midpoint_decimal(1.0, f64::from_bits(1.0f64.to_bits() + 1)), "1.00000000000000011102230246251565404236316680908203125");
        assert_eq!(super::midpoint_decimal(0.0, f64::from_bits(1)).len() > 700, true);
    }
}
