//! C06 — parse then serialize is lossless and reaches a fixpoint.

use sonic_rs::{Deserializer, Value};
use vbase::engine::{Ctx, Fail, Obs, Src, Sub};
use vbase::gens::{self, DocParams};
use vbase::refjson::{self, classify_number, show_bytes, trunc, Kind, Node, NumClass};
use vbase::{ensure, fail};

pub const RULE: &str = "cases are well-formed JSON texts t (generated with duplicate keys, escapes, every number class, layout variation; golden documents; corpus files). v = parse(t), s = to_string(v): parse(s) == v, to_string(parse(s)) == s byte for byte, the reference trees of s and t have identical key sequences at every object (order and duplicates kept), every integer-class literal reappears with its canonical digits, every float keeps its f64 bits, strings keep their decoded text; Display, to_string and to_vec agree; the same text read as Vec<Value> element, map value and later stream document serializes to the same bytes; documents of 4..64 KiB of multi-byte characters, flat containers of ~200,000 members, documents nested 20..=122 levels deep with two or more members per level; pretty output re-parses to v and equals reindent(s). In the sort_keys build every object's members are the stable sort of the source members by key (ascending, members sharing a key keep their order); in raw-number mode (use_rawnumber / arbitrary_precision build) every number token of s is byte-identical to the literal in t. Non-trivial = an object with >= 2 members or a float needing >= 15 significant digits; distinct by text.";
pub const ASSUMPTIONS: &[&str] = &["refjson parser", "Rust std float parsing"];

/// compare the reference trees of source t and output s
fn cmp_trees(a: &Node, t: &[u8], b: &Node, s: &[u8], raw: bool, sorted: bool, path: &mut String) -> Result<(), (&'static str, String)> {
    let bad = |k: &'static str, path: &str, m: String| Err((k, format!("at {path}: {m}")));
    match (&a.kind, &b.kind) {
        (Kind::Null, Kind::Null) => Ok(()),
        (Kind::Bool(x), Kind::Bool(y)) if x == y => Ok(()),
        (Kind::Str(x), Kind::Str(y)) => {
            if x.text == y.text {
                Ok(())
            } else {
                bad("string", path, format!("{:?} became {:?}", trunc(&x.text, 80), trunc(&y.text, 80)))
            }
        }
        (Kind::Num, Kind::Num) => {
            let la = std::str::from_utf8(a.span.of(t)).unwrap();
            let lb = std::str::from_utf8(b.span.of(s)).unwrap();
            if raw {
                return if la == lb { Ok(()) } else { bad("raw-number", path, format!("literal {la} became {lb}")) };
            }
            match classify_number(la) {
                NumClass::U64(u) => {
                    if lb == u.to_string() {
                        Ok(())
                    } else {
                        bad("integer-digits", path, format!("integer {la} became {lb}"))
                    }
                }
                NumClass::I64(i) => {
                    if lb == i.to_string() {
                        Ok(())
                    } else {
                        bad("integer-digits", path, format!("integer {la} became {lb}"))
                    }
                }
                NumClass::F64(f) => {
                    let zero_int = refjson::is_int_literal(la) && f == 0.0;
                    match lb.parse::<f64>() {
                        Ok(g) if g.to_bits() == f.to_bits() => Ok(()),
                        Ok(g) if zero_int && g == 0.0 => Ok(()), // `-0` may be kept as integer 0
                        _ => bad("float-bits", path, format!("float {la} became {lb}")),
                    }
                }
                NumClass::Inf => bad("float-bits", path, format!("infinite literal {la} was accepted")),
            }
        }
        (Kind::Arr(x), Kind::Arr(y)) => {
            if x.len() != y.len() {
                return bad("structure", path, format!("array of {} became {}", x.len(), y.len()));
            }
            for (i, (p, q)) in x.iter().zip(y.iter()).enumerate() {
                let l = path.len();
                path.push_str(&format!("[{i}]"));
                cmp_trees(p, t, q, s, raw, sorted, path)?;
                path.truncate(l);
            }
            Ok(())
        }
        (Kind::Obj(x), Kind::Obj(y)) => {
            if x.len() != y.len() {
                return bad("members", path, format!("object of {} members became {} (duplicates must be kept)", x.len(), y.len()));
            }
            if sorted {
                // ascending keys in the output
                for w in y.windows(2) {
                    if w[0].0.text > w[1].0.text {
                        return bad("sort-order", path, format!("keys {:?} and {:?} are not ascending", w[0].0.text, w[1].0.text));
                    }
                }
                // "nothing else changes": the output is the stable sort of the source members, so
                // members sharing a key keep their relative order (and `get` its first-match answer)
                let mut order: Vec<usize> = (0..x.len()).collect();
                order.sort_by(|&i, &j| x[i].0.text.cmp(&x[j].0.text));
                for (&i, (kk, q)) in order.iter().zip(y.iter()) {
                    let (k, p) = &x[i];
                    if k.text != kk.text {
                        return bad("members", path, format!("output member {:?} where the sorted source has {:?}", kk.text, k.text));
                    }
                    let mut pp = path.clone();
                    pp.push_str(&format!(".{}", trunc(&k.text, 16)));
                    if let Err((kind, m)) = cmp_trees(p, t, q, s, raw, sorted, &mut pp) {
                        return Err((if kind == "members" || kind == "sort-order" { kind } else { "sorted-member" }, format!("{m} (members sharing a key must keep their source order)")));
                    }
                }
                return Ok(());
            }
            for ((k, p), (kk, q)) in x.iter().zip(y.iter()) {
                if k.text != kk.text {
                    return bad("key-order", path, format!("key {:?} became {:?}", k.text, kk.text));
                }
                let l = path.len();
                path.push_str(&format!(".{}", trunc(&k.text, 16)));
                cmp_trees(p, t, q, s, raw, sorted, path)?;
                path.truncate(l);
            }
            Ok(())
        }
        _ => bad("kind", path, "value kind changed".to_string()),
    }
}

fn needs_15_digits(n: &Node, t: &[u8]) -> bool {
    match &n.kind {
        Kind::Num => {
            let l = std::str::from_utf8(n.span.of(t)).unwrap();
            !refjson::is_int_literal(l) && l.bytes().filter(|c| c.is_ascii_digit()).count() >= 15
        }
        Kind::Arr(v) => v.iter().any(|x| needs_15_digits(x, t)),
        Kind::Obj(v) => v.iter().any(|(_, x)| needs_15_digits(x, t)),
        _ => false,
    }
}
fn has_obj2(n: &Node) -> bool {
    match &n.kind {
        Kind::Arr(v) => v.iter().any(has_obj2),
        Kind::Obj(v) => v.len() >= 2 || v.iter().any(|(_, x)| has_obj2(x)),
        _ => false,
    }
}

pub fn oracle(t: &[u8], obs: &mut Obs) -> Result<(), Fail> {
    let Ok((rt, sum)) = refjson::parse(t) else { fail!("C06/generator", "generator produced malformed text {:?}", show_bytes(t, 200)) };
    if !(sum.scalars_ok && sum.finite_ok) || std::str::from_utf8(t).is_err() {
        return Ok(());
    }
    if has_obj2(&rt) || needs_15_digits(&rt, t) {
        obs.nt();
    }
    if sum.has_dup_keys {
        obs.label("dup-keys");
    }
    let sorted = cfg!(feature = "sort_keys");
    let arbp = cfg!(feature = "arbitrary_precision");
    for raw in [false, true] {
        if arbp && !raw {
            continue; // from_slice is raw-number mode in this build
        }
        let mode = if raw { "raw" } else { "plain" };
        let v: Value = if raw && !arbp { Deserializer::from_slice(t).use_rawnumber().deserialize() } else { sonic_rs::from_slice(t) }.map_err(|e| Fail::new(format!("C06/{mode}/rejects-valid"), format!("parse of {:?} failed: {e}", show_bytes(t, 300))))?;
        let s = sonic_rs::to_string(&v).map_err(|e| Fail::new(format!("C06/{mode}/ser-error"), format!("{e}")))?;
        let sb = s.as_bytes();
        let (rs, _) = refjson::parse(sb).map_err(|e| Fail::new(format!("C06/{mode}/malformed-output"), format!("to_string(parse({:?})) = {:?} does not parse: {}", show_bytes(t, 200), show_bytes(sb, 300), e.reason)))?;
        ensure!(refjson::compact(sb) == sb, format!("C06/{mode}/whitespace"), "compact output has whitespace: {:?}", show_bytes(sb, 200));
        let mut path = String::from("$");
        if let Err((kind, msg)) = cmp_trees(&rt, t, &rs, sb, raw, sorted, &mut path) {
            fail!(format!("C06/{mode}/lossy/{kind}"), "{msg}; source {:?} output {:?}", show_bytes(t, 300), show_bytes(sb, 300));
        }
        // fixpoint
        let v2: Value = if raw && !arbp { Deserializer::from_slice(sb).use_rawnumber().deserialize() } else { sonic_rs::from_slice(sb) }.map_err(|e| Fail::new(format!("C06/{mode}/reparse"), format!("output {:?} does not re-parse: {e}", show_bytes(sb, 300))))?;
        ensure!(v2 == v, format!("C06/{mode}/reparse-not-equal"), "parse(to_string(v)) != v for {:?} (output {:?})", show_bytes(t, 300), show_bytes(sb, 300));
        ensure!(v == v2, format!("C06/{mode}/reparse-not-equal"), "v != parse(to_string(v)) (asymmetric) for {:?}", show_bytes(t, 300));
        let s2 = sonic_rs::to_string(&v2).map_err(|e| Fail::new(format!("C06/{mode}/ser-error"), format!("{e}")))?;
        ensure!(s2 == s, format!("C06/{mode}/no-fixpoint"), "to_string(parse(s)) != s: {:?} vs {:?}", trunc(&s2, 300), trunc(&s, 300));
        // Display / to_vec agree
        ensure!(format!("{v}") == s, format!("C06/{mode}/display"), "Display differs from to_string for {:?}", show_bytes(t, 200));
        ensure!(sonic_rs::to_vec(&v).map(|x| x == sb).unwrap_or(false), format!("C06/{mode}/to_vec"), "to_vec differs from to_string for {:?}", show_bytes(t, 200));
        // pretty
        let p = sonic_rs::to_string_pretty(&v).map_err(|e| Fail::new(format!("C06/{mode}/ser-error"), format!("{e}")))?;
        ensure!(p.as_bytes() == refjson::reindent(sb), format!("C06/{mode}/pretty"), "pretty output is not the re-indented compact output: {:?}", trunc(&p, 300));
        let vp: Value = if raw && !arbp { Deserializer::from_slice(p.as_bytes()).use_rawnumber().deserialize() } else { sonic_rs::from_str(&p) }.map_err(|e| Fail::new(format!("C06/{mode}/pretty-reparse"), format!("{e}")))?;
        ensure!(vp == v, format!("C06/{mode}/pretty-reparse"), "pretty output re-parses to a different value for {:?}", show_bytes(t, 200));
        // the same text read as an element of Vec<Value>, as a map value and as a later stream document
        // (copying parser, scalars included) serializes to the same bytes
        {
            let mut w = b"[".to_vec();
            w.extend_from_slice(t);
            w.extend_from_slice(b" , ");
            w.extend_from_slice(t);
            w.extend_from_slice(b"]");
            let vs: Vec<Value> = if raw && !arbp { Deserializer::from_slice(&w).use_rawnumber().deserialize() } else { sonic_rs::from_slice(&w) }.map_err(|e| Fail::new(format!("C06/{mode}/rejects-valid"), format!("Vec<Value> of two copies of {:?}: {e}", show_bytes(t, 300))))?;
            for (i, x) in vs.iter().enumerate() {
                let sx = sonic_rs::to_string(x).map_err(|e| Fail::new(format!("C06/{mode}/ser-error"), format!("{e}")))?;
                ensure!(sx == s, format!("C06/{mode}/embedded-differs"), "element {i} of Vec<Value> parsed from two copies of {:?} serializes to {:?}, the whole-input parse to {:?}", show_bytes(t, 300), trunc(&sx, 300), trunc(&s, 300));
            }
            let mut w = b"{\"m\": ".to_vec();
            w.extend_from_slice(t);
            w.extend_from_slice(b"}");
            let m: std::collections::BTreeMap<String, Value> = if raw && !arbp { Deserializer::from_slice(&w).use_rawnumber().deserialize() } else { sonic_rs::from_slice(&w) }.map_err(|e| Fail::new(format!("C06/{mode}/rejects-valid"), format!("map value {:?}: {e}", show_bytes(t, 300))))?;
            let sx = sonic_rs::to_string(&m["m"]).map_err(|e| Fail::new(format!("C06/{mode}/ser-error"), format!("{e}")))?;
            ensure!(sx == s, format!("C06/{mode}/embedded-differs"), "map value parsed from {:?} serializes to {:?}, the whole-input parse to {:?}", show_bytes(t, 300), trunc(&sx, 300), trunc(&s, 300));
            let mut w = b"0 ".to_vec();
            w.extend_from_slice(t);
            // (the arbitrary_precision feature switches the from_* functions to raw numbers, not a
            // Deserializer built by hand: ask for the mode explicitly)
            let mut de = if raw { Deserializer::from_slice(&w).use_rawnumber() } else { Deserializer::from_slice(&w) };
            let _ = de.deserialize::<Value>();
            let x: Value = de.deserialize().map_err(|e| Fail::new(format!("C06/{mode}/rejects-valid"), format!("second stream document {:?}: {e}", show_bytes(t, 300))))?;
            let sx = sonic_rs::to_string(&x).map_err(|e| Fail::new(format!("C06/{mode}/ser-error"), format!("{e}")))?;
            ensure!(sx == s, format!("C06/{mode}/embedded-differs"), "second stream document {:?} serializes to {:?}, the whole-input parse to {:?}", show_bytes(t, 300), trunc(&sx, 300), trunc(&s, 300));
        }
        // a clone serializes identically
        ensure!(sonic_rs::to_string(&v.clone()).ok().as_deref() == Some(s.as_str()), format!("C06/{mode}/clone"), "clone serializes differently for {:?}", show_bytes(t, 200));
    }
    Ok(())
}

pub fn subs() -> Vec<Sub<'static>> {
    vec![Sub { name: "docs", oracle: &oracle, minimise_bytes: false }, Sub { name: "corpus", oracle: &oracle, minimise_bytes: false }]
}

pub fn run(ctx: &Ctx) {
    let subs = subs();
    let s = &subs[0];
    let p = DocParams { ws: 2, dup_keys: true, max_depth: 6, ..DocParams::default() };
    ctx.search(s, "dup-keys", ctx.n(150_000, 2_000_000), 600, &move |src: &mut Src| gens::gen_doc(src, &p));
    let p = DocParams { ws: 1, dup_keys: false, max_depth: 8, max_items: 12, ..DocParams::default() };
    ctx.search(s, "plain", ctx.n(150_000, 2_000_000), 1200, &move |src: &mut Src| gens::gen_container_doc(src, &p));
    // number-heavy documents
    ctx.search(s, "numbers", ctx.n(100_000, 1_000_000), 400, &|src: &mut Src| {
        let mut out = b"{\"n\":[".to_vec();
        let n = 1 + src.below(6);
        for i in 0..n {
            if i > 0 {
                out.push(b',');
            }
            gens::gen_number(src, false, &mut out);
        }
        out.extend_from_slice(b"],\"m\":");
        gens::gen_number(src, false, &mut out);
        out.push(b'}');
        out
    });
    // documents of 4..64 KiB filled with multi-byte characters (writers that work in blocks)
    ctx.search(s, "large-utf8", ctx.n(300, 4_000), 120, &|src: &mut Src| gens::gen_large_utf8(src));
    // flat containers whose node count exceeds the thread-local node buffer
    {
        let mut big: Vec<Vec<u8>> = Vec::new();
        for n in [196_607usize, 196_608, 200_000] {
            let mut a = Vec::with_capacity(n * 2 + 2);
            a.push(b'[');
            for i in 0..n {
                if i > 0 {
                    a.push(b',');
                }
                a.push(b'0' + (i % 10) as u8);
            }
            a.push(b']');
            big.push(a);
        }
        // (an object with ~100,000 members would do as well, but `Object ==` on parsed objects is quadratic in
        // the member count; a small object holding a large array crosses the same node count)
        let mut o = b"{\"k\":1,\"arr\":".to_vec();
        o.extend_from_slice(&big[1]);
        o.extend_from_slice(b",\"z\":[2]}");
        big.push(o);
        ctx.cases(&subs[1], &big);
    }
    // deep nesting with two or more members per level (separators and indentation at depth)
    ctx.search(s, "deep", ctx.n(6_000, 60_000), 200, &|src: &mut Src| gens::gen_deep(src));
    // wide objects (more members than any small-sort cutoff), keys from a small pool so that many repeat
    ctx.search(s, "wide-objects", ctx.n(60_000, 600_000), 400, &|src: &mut Src| {
        let n = *src.pick(&[21usize, 22, 24, 30, 33, 40, 64, 65, 100]) + src.below(4);
        let pool = *src.pick(&[3usize, 5, 8, 20, 200]);
        let nested = src.chance(30);
        let mut out = if nested { b"[1,{\"w\":".to_vec() } else { Vec::new() };
        out.push(b'{');
        for i in 0..n {
            if i > 0 {
                out.push(b',');
            }
            let k = src.below(pool);
            match src.below(4) {
                0 => out.extend_from_slice(format!("\"k{k}\":").as_bytes()),
                1 => out.extend_from_slice(format!("\"{}\":", "zyxwvutsrqponmlkjihgfedcba".get(k % 26..k % 26 + 1).unwrap()).as_bytes()),
                2 => out.extend_from_slice(format!("\"\\u006b{k}\":").as_bytes()),
                _ => out.extend_from_slice(format!("\"{}\":", k * 7919 % 100).as_bytes()),
            }
            match src.below(4) {
                0 => out.extend_from_slice(format!("{i}").as_bytes()),
                1 => out.extend_from_slice(format!("\"v{i}\"").as_bytes()),
                2 => out.extend_from_slice(format!("[{i}]").as_bytes()),
                _ => out.extend_from_slice(format!("{{\"b\":{i},\"a\":{i},\"b\":null}}").as_bytes()),
            }
        }
        out.push(b'}');
        if nested {
            out.extend_from_slice(b"}]");
        }
        out
    });
    let mut list = gens::golden_docs();
    let mut files = vec!["book.json", "github_events.json"];
    if !ctx.quick() {
        files.extend(["twitter.json", "citm_catalog.json", "canada.json"]);
    }
    list.extend(files.iter().filter_map(|f| std::fs::read(format!("/repo/benchmarks/benches/testdata/{f}")).ok()));
    ctx.cases(&subs[1], &list);
}
