//! C09 — string literals decode exactly, at every length and alignment.

use std::borrow::Cow;
use std::collections::BTreeMap;

use serde::Deserialize;
use sonic_rs::{Deserializer, JsonContainerTrait, JsonValueTrait, LazyValue, OwnedLazyValue, Value};
use vbase::engine::{Ctx, Fail, Obs, Src, Sub};
use vbase::gens::{self, DocParams};
use vbase::refjson::{self, show_bytes, Kind, StrLit};
use vbase::{ensure, fail};

pub const RULE: &str = "cases are (string literal, placement) pairs: the literal is placed as root value, first array element before a sibling, object key, or object value, behind 0..64 spaces and before varying trailing bytes. Literals: all 1,114,112 code points as \\uXXXX escapes / surrogate pairs in both hex cases and as raw UTF-8 (exhaustive); each feature (nine escapes, \\u BMP, surrogate pair, escaped quote, escaped backslash, raw control, 2/3/4-byte characters, each malformed kind: bad escape letter, bad hex digit in each place, lone high/low surrogate, reversed pair, high+non-\\u, invalid UTF-8 of every kind, missing quote, trailing backslash) at every position 0..=130 of strings of many lengths; random well-formed and damaged literals; keys spelled with random escape spellings. Each case goes through the decoders {in-place Value, copying Value, String, &str, borrowed Cow, object key in both Value parsers, BTreeMap<String,_> key, struct field, get by key/index, LazyValue/OwnedLazyValue as_str from serde/get/iterators; a LazyValue is read through a copy taken before its first read, itself, a copy taken afterwards and itself again, all of which must agree} in strict mode and {Value in-place, Value copying, String, struct fields decoded after the same literal was skipped as an unknown member, String after IgnoredAny} in lossy mode (Deserializer::utf8_lossy(); the `lossy` build runs the same through from_slice). The expected result is computed by the reference parser on the whole document: decoded text, borrowed iff no escape, rejected iff malformed; lossy: U+FFFD for invalid UTF-8 (as String::from_utf8_lossy) and unpaired surrogates, nothing else changed. Non-trivial = literal with an escape, a non-ASCII byte or length >= 32; distinct by (literal, placement).";
pub const ASSUMPTIONS: &[&str] = &["refjson string decoder is correct (self-tested against serde_json)", "String::from_utf8_lossy defines lossy replacement of invalid UTF-8"];

#[derive(Deserialize)]
struct BorrowCow<'a>(#[serde(borrow)] Cow<'a, str>);

#[derive(Deserialize)]
struct KString {
    k: String,
}
#[derive(Deserialize)]
struct KStr<'a> {
    k: &'a str,
}
#[derive(Deserialize)]
struct KCow<'a> {
    #[serde(borrow)]
    k: Cow<'a, str>,
}

pub fn build_doc(ctx: u8, off: usize, trail: u8, inner: &[u8]) -> (Vec<u8>, usize) {
    let mut d = vec![b' '; off];
    match ctx {
        0 => {}
        1 => d.push(b'['),
        2 => d.push(b'{'),
        _ => d.extend_from_slice(b"{\"k\":"),
    }
    let lit_start = d.len();
    d.push(b'"');
    d.extend_from_slice(inner);
    d.push(b'"');
    match ctx {
        0 => {}
        1 => d.extend_from_slice(b",\"sib\",1]"),
        2 => d.extend_from_slice(b":1,\"z\":\"zzzzzzzzzzzzzzzzzzzzzzzzzzzzzzzzzzzzzzzz\"}"),
        _ => d.push(b'}'),
    }
    match trail {
        0 => {}
        1 => d.push(b' '),
        2 => d.extend_from_slice(&[b' '; 70]),
        _ => d.extend_from_slice(b"\n\t "),
    }
    (d, lit_start)
}

fn in_range(doc: &[u8], s: &str) -> bool {
    let a = doc.as_ptr() as usize;
    let p = s.as_ptr() as usize;
    p >= a && p + s.len() <= a + doc.len()
}

struct Want<'a> {
    /// the reference accepts the document for decoding entry points and the target literal
    lit: Option<&'a StrLit>,
}

fn sig(kind: &str, dec: &str) -> String {
    format!("C09/{kind}/{dec}")
}

fn check_text(dec: &'static str, got: Result<Option<String>, String>, want: &Want, doc: &[u8]) -> Result<(), Fail> {
    match (&want.lit, got) {
        (Some(l), Ok(Some(t))) => {
            ensure!(t == l.text, sig("wrong-text", dec), "{dec} decoded {:?} as {:?}, expected {:?}", show_bytes(doc, 300), refjson::trunc(&t, 120), refjson::trunc(&l.text, 120));
            Ok(())
        }
        (Some(_), Ok(None)) => fail!(sig("none-for-valid", dec), "{dec} returned no string for well-formed {:?}", show_bytes(doc, 300)),
        (Some(_), Err(e)) => fail!(sig("rejects-valid", dec), "{dec} rejected well-formed {:?}: {}", show_bytes(doc, 300), refjson::trunc(&e, 200)),
        (None, Ok(Some(t))) => fail!(sig("accepts-malformed", dec), "{dec} accepted malformed {:?} as {:?}", show_bytes(doc, 300), refjson::trunc(&t, 120)),
        (None, _) => Ok(()),
    }
}

fn es<T>(r: Result<T, sonic_rs::Error>) -> Result<T, String> {
    r.map_err(|e| e.to_string())
}

/// The decoded text of a lazy value, read three ways: through a copy taken before the value was ever read,
/// through the value itself, and through a copy taken afterwards (a copy shares or re-creates the cached
/// decoding). All three must agree; the caller compares the result with the reference decoding.
fn lazy_text(l: &LazyValue, route: &str, doc: &[u8]) -> Result<Option<String>, Fail> {
    let before = l.clone();
    let a = before.as_str().map(|x| x.to_string());
    let b = l.as_str().map(|x| x.to_string());
    let after = l.clone();
    let c = after.as_str().map(|x| x.to_string());
    drop(before);
    let d = l.as_str().map(|x| x.to_string());
    ensure!(a == b && b == c && c == d, format!("C09/lazy-copies-disagree/{route}"), "{route} on {:?}: as_str of a copy taken before the first read = {:?}, of the value = {:?}, of a copy taken afterwards = {:?}, of the value again = {:?}", show_bytes(doc, 300), a, b, c, d);
    Ok(b)
}

pub fn oracle(case: &[u8], obs: &mut Obs) -> Result<(), Fail> {
    if case.len() < 3 {
        return Ok(());
    }
    let (ctx, off, trail) = (case[0] % 4, (case[1] as usize) % 65, case[2] % 4);
    let inner = &case[3..];
    let (doc, lit_start) = build_doc(ctx, off, trail, inner);
    obs.render = Some(format!("ctx={ctx} doc={}", show_bytes(&doc, 400)));
    if inner.iter().any(|&c| c == b'\\' || c >= 0x80) || inner.len() >= 32 {
        obs.nt();
    }
    let utf8 = std::str::from_utf8(&doc).is_ok();
    let parsed = refjson::parse(&doc);
    // locate the target literal in the reference tree; if the literal's content changed the
    // document's shape, the case is outside this check (C02/C03 cover it)
    let (target, full_ok, skip_ok): (Option<StrLit>, bool, bool) = match &parsed {
        Err(_) => (None, false, false),
        Ok((node, sum)) => {
            let t = match (ctx, &node.kind) {
                (0, Kind::Str(s)) => Some(s.clone()),
                (1, Kind::Arr(v)) if v.len() == 3 => match &v[0].kind {
                    Kind::Str(s) => Some(s.clone()),
                    _ => None,
                },
                (2, Kind::Obj(v)) if v.len() == 2 => Some(v[0].0.clone()),
                (3, Kind::Obj(v)) if v.len() == 1 && v[0].0.text == "k" => match &v[0].1.kind {
                    Kind::Str(s) => Some(s.clone()),
                    _ => None,
                },
                _ => None,
            };
            match t {
                Some(t) if t.span.start == lit_start => (Some(t), utf8 && sum.scalars_ok && sum.finite_ok, utf8),
                _ => {
                    obs.label("shape-changed");
                    return Ok(());
                }
            }
        }
    };
    let strict = Want { lit: if full_ok { target.as_ref() } else { None } };
    let grammar_ok = parsed.is_ok();
    obs.label(if full_ok { "well-formed" } else if grammar_ok && utf8 { "bad-surrogate-escape" } else if grammar_ok { "invalid-utf8" } else { "grammar-error" });
    let has_escape = target.as_ref().map(|t| t.has_escape).unwrap_or(false);
    let s: Option<&str> = std::str::from_utf8(&doc).ok();
    let lossy_build = cfg!(feature = "utf8_lossy");

    if !lossy_build {
        // ------------------------------------------------------------------ strict decoders
        let root: Result<Value, String> = es(sonic_rs::from_slice::<Value>(&doc));
        let mut ws_doc = b"\n ".to_vec();
        ws_doc.extend_from_slice(&doc);
        let copy: Result<Option<Value>, String> = es(sonic_rs::from_slice::<Option<Value>>(&ws_doc));
        let lazy: Result<LazyValue, String> = es(sonic_rs::from_slice::<LazyValue>(&doc));
        let olazy: Result<OwnedLazyValue, String> = es(sonic_rs::from_slice::<OwnedLazyValue>(&doc));
        // skip-tier acceptance (grammar + utf8)
        ensure!(lazy.is_ok() == skip_ok, sig(if skip_ok { "rejects-valid" } else { "accepts-malformed" }, "LazyValue"), "from_slice::<LazyValue> on {:?}: ok={} expected {}", show_bytes(&doc, 300), lazy.is_ok(), skip_ok);
        ensure!(olazy.is_ok() == skip_ok, sig(if skip_ok { "rejects-valid" } else { "accepts-malformed" }, "OwnedLazyValue"), "from_slice::<OwnedLazyValue> on {:?}: ok={} expected {}", show_bytes(&doc, 300), olazy.is_ok(), skip_ok);
        match ctx {
            0 => {
                check_text("Value(in-place)", root.map(|v| v.as_str().map(|x| x.to_string())), &strict, &doc)?;
                check_text("Value(copy)", copy.map(|v| v.and_then(|v| v.as_str().map(|x| x.to_string()))), &strict, &doc)?;
                check_text("String", es(sonic_rs::from_slice::<String>(&doc)).map(Some), &strict, &doc)?;
                check_text("Option<String>(ws)", es(sonic_rs::from_slice::<Option<String>>(&ws_doc)), &strict, &doc)?;
                // Cow: borrowed iff no escape
                let c = es(sonic_rs::from_slice::<BorrowCow>(&doc));
                if let (Ok(BorrowCow(c)), Some(_)) = (&c, &strict.lit) {
                    let borrowed = matches!(c, Cow::Borrowed(_));
                    ensure!(borrowed == !has_escape, sig("borrow", "Cow"), "Cow<str> for {:?} is {} but the literal has{} escape", show_bytes(&doc, 300), if borrowed { "Borrowed" } else { "Owned" }, if has_escape { " an" } else { " no" });
                    if borrowed {
                        ensure!(in_range(&doc, c), sig("borrow-range", "Cow"), "borrowed Cow does not point into the input");
                    }
                }
                check_text("Cow", c.map(|c| Some(c.0.into_owned())), &strict, &doc)?;
                // &str: succeeds iff well-formed and escape-free, and points into the input
                let r = es(sonic_rs::from_slice::<&str>(&doc));
                match (&strict.lit, &r) {
                    (Some(l), Ok(t)) => {
                        ensure!(!has_escape, sig("borrow", "&str"), "&str succeeded for a literal with escapes: {:?}", show_bytes(&doc, 300));
                        ensure!(*t == l.text, sig("wrong-text", "&str"), "&str decoded {:?} as {:?}", show_bytes(&doc, 300), t);
                        ensure!(in_range(&doc, t), sig("borrow-range", "&str"), "&str does not point into the input");
                    }
                    (Some(_), Err(e)) => ensure!(has_escape, sig("rejects-valid", "&str"), "&str rejected escape-free {:?}: {e}", show_bytes(&doc, 300)),
                    (None, Ok(t)) => fail!(sig("accepts-malformed", "&str"), "&str accepted malformed {:?} as {:?}", show_bytes(&doc, 300), t),
                    (None, Err(_)) => {}
                }
                if let Some(s) = s {
                    check_text("from_str::<String>", es(sonic_rs::from_str::<String>(s)).map(Some), &strict, &doc)?;
                    check_text("from_str::<Value>", es(sonic_rs::from_str::<Value>(s)).map(|v| v.as_str().map(|x| x.to_string())), &strict, &doc)?;
                }
                if let Ok(l) = &lazy {
                    let got = lazy_text(l, "LazyValue", &doc)?;
                    match (&strict.lit, got) {
                        (Some(w), Some(t)) => ensure!(t == w.text, sig("wrong-text", "LazyValue::as_str"), "LazyValue::as_str on {:?} = {:?}", show_bytes(&doc, 300), t),
                        (Some(_), None) => fail!(sig("none-for-valid", "LazyValue::as_str"), "LazyValue::as_str is None for {:?}", show_bytes(&doc, 300)),
                        (None, Some(t)) => fail!(sig("accepts-malformed", "LazyValue::as_str"), "LazyValue::as_str decoded malformed {:?} as {:?}", show_bytes(&doc, 300), t),
                        (None, None) => {}
                    }
                }
                if let Ok(l) = &olazy {
                    let got = l.as_str().map(|x| x.to_string());
                    match (&strict.lit, got) {
                        (Some(w), Some(t)) => ensure!(t == w.text, sig("wrong-text", "OwnedLazyValue::as_str"), "OwnedLazyValue::as_str on {:?} = {:?}", show_bytes(&doc, 300), t),
                        (Some(_), None) => fail!(sig("none-for-valid", "OwnedLazyValue::as_str"), "OwnedLazyValue::as_str is None for {:?}", show_bytes(&doc, 300)),
                        (None, Some(t)) => fail!(sig("accepts-malformed", "OwnedLazyValue::as_str"), "OwnedLazyValue::as_str decoded malformed {:?} as {:?}", show_bytes(&doc, 300), t),
                        (None, None) => {}
                    }
                }
            }
            1 => {
                let first = |v: &Value| v.as_array().and_then(|a| a.first()).and_then(|x| x.as_str()).map(|x| x.to_string());
                check_text("Value(in-place)[0]", root.map(|v| first(&v)), &strict, &doc)?;
                check_text("Value(copy)[0]", copy.map(|v| v.and_then(|v| first(&v))), &strict, &doc)?;
                check_text("(String,String,u8)", es(sonic_rs::from_slice::<(String, String, u8)>(&doc)).map(|t| Some(t.0)), &strict, &doc)?;
                check_text("(Value,Value,u8)", es(sonic_rs::from_slice::<(Value, Value, u8)>(&doc)).map(|t| t.0.as_str().map(|x| x.to_string())), &strict, &doc)?;
                // lazy routes: element 0 via get and via the array iterator
                let g = sonic_rs::get(&doc[..], &[0usize]);
                if let Ok(l) = &g {
                    let got = lazy_text(l, "get[0]", &doc)?;
                    match (&strict.lit, got) {
                        (Some(w), Some(t)) => ensure!(t == w.text, sig("wrong-text", "get[0].as_str"), "get(..,[0]).as_str on {:?} = {:?}", show_bytes(&doc, 300), t),
                        (Some(_), None) => fail!(sig("none-for-valid", "get[0].as_str"), "get(..,[0]).as_str is None for {:?}", show_bytes(&doc, 300)),
                        (None, Some(t)) => {
                            // only when the reference located the literal (the document is
                            // grammatical) can the lazy result be tied to it: then a literal with a
                            // bad surrogate escape / invalid UTF-8 must not decode. Otherwise what
                            // get returns before the damage is C14's business.
                            if target.as_ref().map(|x| !x.scalars_ok || !x.utf8_ok).unwrap_or(false) {
                                fail!(sig("accepts-malformed", "get[0].as_str"), "get(..,[0]).as_str decoded malformed {:?} as {:?}", show_bytes(&doc, 300), t)
                            }
                        }
                        _ => {}
                    }
                } else if strict.lit.is_some() {
                    fail!(sig("rejects-valid", "get[0]"), "get(..,[0]) failed on well-formed {:?}", show_bytes(&doc, 300));
                }
                let mut it = sonic_rs::to_array_iter(&doc[..]);
                match it.next() {
                    Some(Ok(l)) => {
                        let got = lazy_text(&l, "to_array_iter[0]", &doc)?;
                        if let Some(w) = &strict.lit {
                            ensure!(got.as_deref() == Some(w.text.as_str()), sig("wrong-text", "to_array_iter[0].as_str"), "to_array_iter first item as_str on {:?} = {:?}", show_bytes(&doc, 300), got);
                        } else if let (Some(t), Some(tg)) = (&got, &target) {
                            ensure!(tg.scalars_ok && tg.utf8_ok, sig("accepts-malformed", "to_array_iter[0].as_str"), "iterator item decoded malformed literal as {:?}", t);
                        }
                    }
                    _ => ensure!(strict.lit.is_none(), sig("rejects-valid", "to_array_iter"), "to_array_iter yields no first item for well-formed {:?}", show_bytes(&doc, 300)),
                }
            }
            2 => {
                let firstkey = |v: &Value| v.as_object().and_then(|o| o.iter().next().map(|(k, _)| k.to_string()));
                check_text("Value(in-place) key", root.map(|v| firstkey(&v)), &strict, &doc)?;
                check_text("Value(copy) key", copy.map(|v| v.and_then(|v| firstkey(&v))), &strict, &doc)?;
                let m = es(sonic_rs::from_slice::<BTreeMap<String, Value>>(&doc));
                match (&strict.lit, m) {
                    (Some(w), Ok(m)) => {
                        // the other key is "z"; duplicate-by-content collapses in the map
                        ensure!(m.contains_key(w.text.as_str()), sig("wrong-text", "BTreeMap key"), "BTreeMap<String,_> of {:?} has keys {:?}", show_bytes(&doc, 300), m.keys().collect::<Vec<_>>());
                    }
                    (Some(_), Err(e)) => fail!(sig("rejects-valid", "BTreeMap key"), "BTreeMap<String,_> rejected {:?}: {e}", show_bytes(&doc, 300)),
                    (None, Ok(m)) => fail!(sig("accepts-malformed", "BTreeMap key"), "BTreeMap<String,_> accepted malformed {:?} with keys {:?}", show_bytes(&doc, 300), m.keys().collect::<Vec<_>>()),
                    (None, Err(_)) => {}
                }
                if let Some(w) = &strict.lit {
                    // lookup by the decoded key must find the member (value 1) unless the key equals "z"
                    if w.text != "z" {
                        let g = sonic_rs::get(&doc[..], &[w.text.as_str()]);
                        match g {
                            Ok(l) => ensure!(l.as_raw_str() == "1", sig("wrong-text", "get by key"), "get by decoded key on {:?} returned {:?}", show_bytes(&doc, 300), l.as_raw_str()),
                            Err(e) => fail!(sig("rejects-valid", "get by key"), "get by decoded key {:?} failed on {:?}: {e}", w.text, show_bytes(&doc, 300)),
                        }
                        let v = sonic_rs::from_slice::<Value>(&doc).unwrap();
                        ensure!(v.get(w.text.as_str()).and_then(|x| x.as_u64()) == Some(1), sig("wrong-text", "Value::get by key"), "Value::get by decoded key failed on {:?}", show_bytes(&doc, 300));
                        // every lookup decodes the member name: the text the name *denotes* finds it, through
                        // the unchecked walker and the lazy-value lookups as well; the raw spelling of the
                        // literal (when it differs) denotes some other name and must not
                        let lv: LazyValue = sonic_rs::from_slice(&doc).map_err(|e| Fail::new(sig("rejects-valid", "LazyValue"), format!("{e}")))?;
                        let ov: OwnedLazyValue = sonic_rs::from_slice(&doc).map_err(|e| Fail::new(sig("rejects-valid", "OwnedLazyValue"), format!("{e}")))?;
                        let by_text = [
                            ("get_unchecked by key", unsafe { sonic_rs::get_unchecked(&doc[..], &[w.text.as_str()]) }.ok().map(|l| l.as_raw_str().to_string())),
                            ("LazyValue::get by key", lv.get(w.text.as_str()).map(|l| l.as_raw_str().to_string())),
                            ("OwnedLazyValue::get by key", ov.get(w.text.as_str()).and_then(|l| sonic_rs::to_string(l).ok())),
                        ];
                        for (api, got) in by_text {
                            ensure!(got.as_deref() == Some("1"), sig("wrong-text", api), "{api}: looking up the decoded name {:?} on {:?} gives {:?}", w.text, show_bytes(&doc, 300), got);
                        }
                        if let Ok(raw_spelling) = std::str::from_utf8(inner) {
                            if raw_spelling != w.text && raw_spelling != "z" {
                                let by_raw = [
                                    ("get by raw spelling", sonic_rs::get(&doc[..], &[raw_spelling]).ok().map(|l| l.as_raw_str().to_string())),
                                    ("get_unchecked by raw spelling", unsafe { sonic_rs::get_unchecked(&doc[..], &[raw_spelling]) }.ok().map(|l| l.as_raw_str().to_string())),
                                    ("LazyValue::get by raw spelling", lv.get(raw_spelling).map(|l| l.as_raw_str().to_string())),
                                    ("OwnedLazyValue::get by raw spelling", ov.get(raw_spelling).and_then(|l| sonic_rs::to_string(l).ok())),
                                    ("Value::get by raw spelling", v.get(raw_spelling).and_then(|x| sonic_rs::to_string(x).ok())),
                                ];
                                for (api, got) in by_raw {
                                    ensure!(got.is_none(), sig("found-missing", api), "{api}: the text {:?} is not a member name of {:?} (its only other member is \"z\"), yet the lookup returned {:?}", raw_spelling, show_bytes(&doc, 300), got);
                                }
                            }
                        }
                    }
                    let mut it = sonic_rs::to_object_iter(&doc[..]);
                    match it.next() {
                        Some(Ok((k, _))) => ensure!(k == w.text, sig("wrong-text", "to_object_iter key"), "to_object_iter first key on {:?} = {:?}", show_bytes(&doc, 300), k),
                        _ => fail!(sig("rejects-valid", "to_object_iter"), "to_object_iter yields no first member for {:?}", show_bytes(&doc, 300)),
                    }
                } else {
                    let mut it = sonic_rs::to_object_iter(&doc[..]);
                    if let (Some(Ok((k, _))), Some(tg)) = (it.next(), &target) {
                        ensure!(tg.scalars_ok && tg.utf8_ok, sig("accepts-malformed", "to_object_iter key"), "to_object_iter decoded malformed key of {:?} as {:?}", show_bytes(&doc, 300), k);
                    }
                }
            }
            _ => {
                let getk = |v: &Value| v.get("k").and_then(|x| x.as_str()).map(|x| x.to_string());
                check_text("Value(in-place).k", root.map(|v| getk(&v)), &strict, &doc)?;
                check_text("Value(copy).k", copy.map(|v| v.and_then(|v| getk(&v))), &strict, &doc)?;
                check_text("struct{k:String}", es(sonic_rs::from_slice::<KString>(&doc)).map(|x| Some(x.k)), &strict, &doc)?;
                let c = es(sonic_rs::from_slice::<KCow>(&doc));
                if let (Ok(c), Some(_)) = (&c, &strict.lit) {
                    let borrowed = matches!(c.k, Cow::Borrowed(_));
                    ensure!(borrowed == !has_escape, sig("borrow", "struct Cow"), "struct Cow field for {:?} is {}", show_bytes(&doc, 300), if borrowed { "Borrowed" } else { "Owned" });
                }
                check_text("struct{k:Cow}", c.map(|x| Some(x.k.into_owned())), &strict, &doc)?;
                let r = es(sonic_rs::from_slice::<KStr>(&doc));
                match (&strict.lit, &r) {
                    (Some(l), Ok(t)) => {
                        ensure!(!has_escape && t.k == l.text && in_range(&doc, t.k), sig("borrow", "struct &str"), "struct &str field wrong for {:?}: {:?}", show_bytes(&doc, 300), t.k);
                    }
                    (Some(_), Err(e)) => ensure!(has_escape, sig("rejects-valid", "struct &str"), "struct &str rejected escape-free {:?}: {e}", show_bytes(&doc, 300)),
                    (None, Ok(t)) => fail!(sig("accepts-malformed", "struct &str"), "struct &str accepted malformed {:?} as {:?}", show_bytes(&doc, 300), t.k),
                    (None, Err(_)) => {}
                }
                let g = sonic_rs::get(&doc[..], &["k"]);
                match (&strict.lit, g) {
                    (Some(w), Ok(l)) => ensure!(l.as_str() == Some(w.text.as_str()), sig("wrong-text", "get.k.as_str"), "get(..,[\"k\"]).as_str on {:?} = {:?}", show_bytes(&doc, 300), l.as_str()),
                    (Some(_), Err(e)) => fail!(sig("rejects-valid", "get.k"), "get k failed on {:?}: {e}", show_bytes(&doc, 300)),
                    _ => {}
                }
            }
        }
    }

    // ------------------------------------------------ unchecked skippers (well-formed input only)
    if !lossy_build {
        if let Some(w) = &strict.lit {
            match ctx {
                1 => {
                    // skipping over the literal must land exactly on the sibling
                    let g = unsafe { sonic_rs::get_unchecked(&doc[..], &[1usize]) };
                    match g {
                        Ok(l) => ensure!(l.as_raw_str() == "\"sib\"", sig("wrong-text", "get_unchecked[1]"), "get_unchecked(..,[1]) on {:?} returned {:?}", show_bytes(&doc, 300), l.as_raw_str()),
                        Err(e) => fail!(sig("rejects-valid", "get_unchecked[1]"), "get_unchecked(..,[1]) failed on {:?}: {e}", show_bytes(&doc, 300)),
                    }
                    let g = unsafe { sonic_rs::get_unchecked(&doc[..], &[0usize]) };
                    match g {
                        Ok(l) => ensure!(l.as_str() == Some(w.text.as_str()), sig("wrong-text", "get_unchecked[0]"), "get_unchecked(..,[0]).as_str on {:?} = {:?}", show_bytes(&doc, 300), l.as_str()),
                        Err(e) => fail!(sig("rejects-valid", "get_unchecked[0]"), "get_unchecked(..,[0]) failed on {:?}: {e}", show_bytes(&doc, 300)),
                    }
                    let items: Vec<_> = unsafe { sonic_rs::to_array_iter_unchecked(&doc[..]) }.collect();
                    ensure!(items.len() == 3 && items.iter().all(|x| x.is_ok()), sig("rejects-valid", "to_array_iter_unchecked"), "to_array_iter_unchecked on {:?} yields {} items, {} ok", show_bytes(&doc, 300), items.len(), items.iter().filter(|x| x.is_ok()).count());
                    ensure!(items[0].as_ref().unwrap().as_str() == Some(w.text.as_str()) && items[1].as_ref().unwrap().as_raw_str() == "\"sib\"", sig("wrong-text", "to_array_iter_unchecked"), "to_array_iter_unchecked items wrong on {:?}", show_bytes(&doc, 300));
                    // LazyValue::get on a lazy root uses the unchecked skipper as well
                    if let Ok(l) = sonic_rs::from_slice::<LazyValue>(&doc) {
                        let x = l.get(1usize);
                        ensure!(x.as_ref().map(|x| x.as_raw_str()) == Some("\"sib\""), sig("wrong-text", "LazyValue::get(1)"), "LazyValue::get(1) on {:?} = {:?}", show_bytes(&doc, 300), x.map(|x| x.as_raw_str().to_string()));
                    }
                }
                2 => {
                    if w.text != "z" {
                        let g = unsafe { sonic_rs::get_unchecked(&doc[..], &["z"]) };
                        match g {
                            Ok(l) => ensure!(l.as_raw_str() == "\"zzzzzzzzzzzzzzzzzzzzzzzzzzzzzzzzzzzzzzzz\"", sig("wrong-text", "get_unchecked.z"), "get_unchecked(..,[\"z\"]) on {:?} returned {:?}", show_bytes(&doc, 300), l.as_raw_str()),
                            Err(e) => fail!(sig("rejects-valid", "get_unchecked.z"), "get_unchecked(..,[\"z\"]) failed on {:?}: {e}", show_bytes(&doc, 300)),
                        }
                    }
                    let items: Vec<_> = unsafe { sonic_rs::to_object_iter_unchecked(&doc[..]) }.collect();
                    ensure!(items.len() == 2 && items.iter().all(|x| x.is_ok()), sig("rejects-valid", "to_object_iter_unchecked"), "to_object_iter_unchecked on {:?} yields {} items", show_bytes(&doc, 300), items.len());
                    ensure!(items[0].as_ref().unwrap().0 == w.text, sig("wrong-text", "to_object_iter_unchecked"), "to_object_iter_unchecked first key on {:?} = {:?}", show_bytes(&doc, 300), items[0].as_ref().unwrap().0);
                }
                3 => {
                    let g = unsafe { sonic_rs::get_unchecked(&doc[..], &["k"]) };
                    match g {
                        Ok(l) => ensure!(l.as_str() == Some(w.text.as_str()), sig("wrong-text", "get_unchecked.k"), "get_unchecked(..,[\"k\"]).as_str on {:?} = {:?}", show_bytes(&doc, 300), l.as_str()),
                        Err(e) => fail!(sig("rejects-valid", "get_unchecked.k"), "get_unchecked(..,[\"k\"]) failed on {:?}: {e}", show_bytes(&doc, 300)),
                    }
                }
                _ => {}
            }
        }
    }

    // ---------------------------------------------------------------------- lossy decoders
    // accepted iff grammar holds (and numbers finite); text = lossy decode of the target
    let lossy_want = Want { lit: if grammar_ok { target.as_ref() } else { None } };
    let pick = |v: &Value| -> Option<String> {
        match ctx {
            0 => v.as_str().map(|x| x.to_string()),
            1 => v.as_array().and_then(|a| a.first()).and_then(|x| x.as_str()).map(|x| x.to_string()),
            2 => v.as_object().and_then(|o| o.iter().next().map(|(k, _)| k.to_string())),
            _ => v.get("k").and_then(|x| x.as_str()).map(|x| x.to_string()),
        }
    };
    let mut ws_doc = b"\n ".to_vec();
    ws_doc.extend_from_slice(&doc);
    if lossy_build {
        check_text("lossy-build Value(in-place)", es(sonic_rs::from_slice::<Value>(&doc)).map(|v| pick(&v)), &lossy_want, &doc)?;
        check_text("lossy-build Value(copy)", es(sonic_rs::from_slice::<Option<Value>>(&ws_doc)).map(|v| v.and_then(|v| pick(&v))), &lossy_want, &doc)?;
        if ctx == 0 {
            check_text("lossy-build String", es(sonic_rs::from_slice::<String>(&doc)).map(Some), &lossy_want, &doc)?;
        }
        if ctx == 3 {
            check_text("lossy-build struct{k:String}", es(sonic_rs::from_slice::<KString>(&doc)).map(|x| Some(x.k)), &lossy_want, &doc)?;
        }
    } else if !grammar_ok && refjson::parse_at(&doc, 0).is_ok() {
        // Deserializer::deserialize reads the first value of the input and does not look at
        // what follows: a document that is only malformed after a well-formed first value may
        // be accepted here
        obs.label("lossy-skipped:valid-prefix");
    } else {
        check_text("lossy Value(in-place)", es(Deserializer::from_slice(&doc).utf8_lossy().deserialize::<Value>()).map(|v| pick(&v)), &lossy_want, &doc)?;
        // the same document next to a sibling that carries the *other* kinds of damage (invalid UTF-8 and
        // an unpaired surrogate escape in one input): both are repaired, neither disturbs the other
        if lossy_want.lit.is_some() {
            let mut both = b"[\"a\xffb\",".to_vec();
            both.extend_from_slice(&doc);
            both.extend_from_slice(b",\"c\\ud83dd\",\"\xe2\x82\"]");
            let r = es(Deserializer::from_slice(&both).utf8_lossy().deserialize::<Value>());
            match r {
                Ok(v) => {
                    let a = v.as_array().map(|a| a.len()).unwrap_or(0);
                    ensure!(a == 4 && v[0].as_str() == Some("a\u{fffd}b") && v[2].as_str() == Some("c\u{fffd}d") && v[3].as_str() == Some("\u{fffd}"), sig("wrong-text", "lossy Value with mixed damage"), "lossy Value of {:?}: siblings decoded as {:?}, {:?}, {:?}", show_bytes(&both, 300), v[0].as_str(), v[2].as_str(), v[3].as_str());
                    check_text("lossy Value with mixed damage", Ok(pick(&v[1])), &lossy_want, &doc)?;
                }
                Err(e) => fail!(sig("rejects-valid", "lossy Value with mixed damage"), "lossy Value rejected {:?}: {}", show_bytes(&both, 300), refjson::trunc(&e, 200)),
            }
        }
        check_text("lossy Value(copy)", es(Deserializer::from_slice(&ws_doc).utf8_lossy().deserialize::<Option<Value>>()).map(|v| v.and_then(|v| pick(&v))), &lossy_want, &doc)?;
        if ctx == 0 {
            check_text("lossy String", es(Deserializer::from_slice(&doc).utf8_lossy().deserialize::<String>()).map(Some), &lossy_want, &doc)?;
        }
        if ctx == 3 {
            check_text("lossy struct{k:String}", es(Deserializer::from_slice(&doc).utf8_lossy().deserialize::<KString>()).map(|x| Some(x.k)), &lossy_want, &doc)?;
        }
    }
    // the same literal skipped (unknown member, IgnoredAny) and then decoded later in one document:
    // what the skipper saw must not influence the later decode
    if !lossy_build {
        if let Some(t) = lossy_want.lit {
            let lit = &doc[t.span.start..t.span.end];
            let mut d = b"{\"u\":".to_vec();
            d.extend_from_slice(lit);
            d.extend_from_slice(b",\"k\":");
            d.extend_from_slice(lit);
            d.extend_from_slice(b",\"w\":[");
            d.extend_from_slice(lit);
            d.extend_from_slice(b",1],\"k2\":");
            d.extend_from_slice(lit);
            d.push(b'}');
            #[derive(Deserialize)]
            struct K2 {
                k: String,
                k2: String,
            }
            let r = es(Deserializer::from_slice(&d).utf8_lossy().deserialize::<K2>());
            match r {
                Ok(x) => {
                    ensure!(x.k == t.text, sig("wrong-text", "lossy struct after skipped member"), "lossy struct field k of {:?} = {:?}, expected {:?}", show_bytes(&d, 300), refjson::trunc(&x.k, 120), refjson::trunc(&t.text, 120));
                    ensure!(x.k2 == t.text, sig("wrong-text", "lossy struct after skipped member"), "lossy struct field k2 of {:?} = {:?}, expected {:?}", show_bytes(&d, 300), refjson::trunc(&x.k2, 120), refjson::trunc(&t.text, 120));
                }
                Err(e) => fail!(sig("rejects-valid", "lossy struct after skipped member"), "lossy struct rejected {:?}: {}", show_bytes(&d, 300), refjson::trunc(&e, 200)),
            }
            let mut a = b"[".to_vec();
            a.extend_from_slice(lit);
            a.extend_from_slice(b", ");
            a.extend_from_slice(lit);
            a.push(b']');
            match es(Deserializer::from_slice(&a).utf8_lossy().deserialize::<(serde::de::IgnoredAny, String)>()) {
                Ok((_, x)) => ensure!(x == t.text, sig("wrong-text", "lossy String after IgnoredAny"), "lossy (IgnoredAny, String) of {:?} = {:?}, expected {:?}", show_bytes(&a, 300), refjson::trunc(&x, 120), refjson::trunc(&t.text, 120)),
                Err(e) => fail!(sig("rejects-valid", "lossy String after IgnoredAny"), "lossy (IgnoredAny, String) rejected {:?}: {}", show_bytes(&a, 300), refjson::trunc(&e, 200)),
            }
        }
    }
    Ok(())
}

// ------------------------------------------------------------------------------------------
// features

const GOOD_FEATURES: &[&[u8]] = &[
    b"\\\"", b"\\\\", b"\\/", b"\\b", b"\\f", b"\\n", b"\\r", b"\\t", b"\\u00e9", b"\\u00E9", b"\\ud83d\\ude00", b"\\uD83D\\uDE00", b"\\u0000", b"\\uffff", "é".as_bytes(), "中".as_bytes(), "😀".as_bytes(), b"\x7f", b"\\\\\\\"", b"\\\\\\\\",
];

const BAD_FEATURES: &[&[u8]] = &[
    b"\x00", b"\x1f", b"\n", b"\t", b"\\x", b"\\a", b"\\U0041", b"\\'", b"\\0", b"\\ug000", b"\\u0g00", b"\\u00g0", b"\\u000g", b"\\u 000", b"\\ud800", b"\\udc00", b"\\udfff", b"\\udbff", b"\\udc00\\ud800", b"\\ud800x", b"\\ud800\\n", b"\\ud800\\u0041", b"\\ud800\\ud800", b"\\ud800\\u00e9\\udc00",
    b"\x80", b"\xbf", b"\xc0\xaf", b"\xc1\xbf", b"\xe0\x80\xaf", b"\xed\xa0\x80", b"\xed\xbf\xbf", b"\xc3", b"\xe2\x82", b"\xf0\x9f\x98", b"\xf4\x90\x80\x80", b"\xf5\x80\x80\x80", b"\xff", b"\xfe", b"\xf8\x88\x80\x80\x80", b"\xe4\xb8", b"\xc3\x28",
];

fn emit_case(emit: &mut dyn FnMut(&[u8]) -> bool, ctx: u8, off: u8, trail: u8, inner: &[u8]) -> bool {
    let mut c = Vec::with_capacity(inner.len() + 3);
    c.push(ctx);
    c.push(off);
    c.push(trail);
    c.extend_from_slice(inner);
    emit(&c)
}

pub fn subs() -> Vec<Sub<'static>> {
    let mut v: Vec<Sub<'static>> = ["codepoints", "positional-good", "positional-bad", "random", "endings"].iter().map(|n| Sub { name: n, oracle: &oracle, minimise_bytes: false }).collect();
    v.push(Sub { name: "unterminated", oracle: &super::c02::oracle, minimise_bytes: true });
    v
}

fn sub(name: &str) -> Sub<'static> {
    subs().into_iter().find(|s| s.name == name).unwrap()
}

fn lengths(quick: bool) -> Vec<usize> {
    if quick {
        let mut v: Vec<usize> = (0..=40).collect();
        v.extend(60..=70);
        v.extend(94..=100);
        v.extend(126..=131);
        v.extend(190..=200);
        v
    } else {
        (0..=200).collect()
    }
}

pub fn run(ctx: &Ctx) {
    let quick = ctx.quick();
    // (1) all code points
    let s = sub("codepoints");
    ctx.sweep(&s, true, &|shard, n, emit| {
        let mut cp = shard as u32;
        while cp <= 0x10FFFF {
            let upper = cp % 2 == 0;
            let esc = if cp >= 0x10000 {
                let h = 0xD800 + ((cp - 0x10000) >> 10);
                let l = 0xDC00 + ((cp - 0x10000) & 0x3FF);
                if upper { format!("\\u{h:04X}\\u{l:04X}") } else { format!("\\u{h:04x}\\u{l:04x}") }
            } else if upper {
                format!("\\u{cp:04X}")
            } else {
                format!("\\u{cp:04x}")
            };
            // placement varies with the code point so that all contexts are covered
            let c = (cp % 4) as u8;
            let inner = format!("a{esc}b");
            if !emit_case(emit, c, (cp % 65) as u8, (cp % 3) as u8, inner.as_bytes()) {
                return;
            }
            if let Some(ch) = char::from_u32(cp) {
                if cp >= 0x20 && ch != '"' && ch != '\\' {
                    let inner = format!("a{ch}b");
                    if !emit_case(emit, ((cp + 1) % 4) as u8, (cp % 65) as u8, 0, inner.as_bytes()) {
                        return;
                    }
                }
            }
            cp += n as u32;
        }
    });
    ctx.mark_exhaustive("all 1,114,112 code points as \\u escapes (surrogate pairs above the BMP; lone surrogates expected to be rejected) and as raw UTF-8");

    // (2)/(3) positional sweeps
    for (name, feats) in [("positional-good", GOOD_FEATURES), ("positional-bad", BAD_FEATURES)] {
        let s = sub(name);
        let lens = lengths(quick);
        let offs: Vec<u8> = if quick { vec![0, 1, 7, 31, 32, 33, 63, 64] } else { (0..=64).collect() };
        ctx.sweep(&s, true, &|shard, n, emit| {
            let mut k = 0usize;
            for (fi, f) in feats.iter().enumerate() {
                for &len in &lens {
                    for pos in 0..=len.min(130) {
                        k += 1;
                        if k % n != shard {
                            continue;
                        }
                        // filler 'a'; feature inserted at `pos`; total filler = len
                        let mut inner = vec![b'a'; pos];
                        inner.extend_from_slice(f);
                        inner.resize(inner.len() + (len - pos), b'a');
                        // contexts and offsets: all contexts; offsets rotate through the list
                        for c in 0..4u8 {
                            let o = offs[(fi + len + pos + c as usize) % offs.len()];
                            let t = ((pos + len) % 3) as u8;
                            if !emit_case(emit, c, o, t, &inner) {
                                return;
                            }
                        }
                        if !quick || (pos % 8 == 0) {
                            for &o in &offs {
                                if !emit_case(emit, 0, o, 2, &inner) {
                                    return;
                                }
                            }
                        }
                    }
                }
            }
        });
    }
    ctx.mark_exhaustive("each string feature x every position 0..=130 x lengths x 4 placements");

    // (4) endings: missing closing quote / backslash as last byte / literal cut inside an escape
    let s = sub("endings");
    ctx.sweep(&s, false, &|shard, n, emit| {
        let mut k = 0usize;
        for len in 0..=140usize {
            for tail in [&b"\\"[..], b"\\u", b"\\u1", b"\\u12", b"\\u123", b"\\ud800", b"\\ud800\\", b"\\ud800\\u", b"\\ud800\\udc0", b"\xc3", b"\xe2\x82", b"\xf0\x9f\x98"] {
                k += 1;
                if k % n != shard {
                    continue;
                }
                let mut inner = vec![b'b'; len];
                inner.extend_from_slice(tail);
                for c in 0..4u8 {
                    if !emit_case(emit, c, (len % 65) as u8, 0, &inner) {
                        return;
                    }
                }
            }
        }
    });

    // (4b) unterminated literals as whole documents (document-level accept/reject oracle of C02)
    let s = Sub { name: "unterminated", oracle: &super::c02::oracle, minimise_bytes: true };
    ctx.sweep(&s, false, &|shard, n, emit| {
        let mut k = 0usize;
        for len in 0..=140usize {
            for tail in [&b""[..], b"\\", b"\\\"", b"\\u", b"\\u12", b"\\ud800", b"\\ud800\\udc0", b"\xc3", b"\xf0\x9f\x98", b"\\\\\\\""] {
                k += 1;
                if k % n != shard {
                    continue;
                }
                for pre in [&b"\""[..], b"[\"", b"{\"", b"{\"k\":\"", b"[1,\""] {
                    let mut doc = vec![b' '; len % 5];
                    doc.extend_from_slice(pre);
                    doc.resize(doc.len() + len, b'b');
                    doc.extend_from_slice(tail);
                    if !emit(&doc) {
                        return;
                    }
                }
            }
        }
    });

    // (5) random literals, valid and damaged
    let s = sub("random");
    let p = DocParams::default();
    let pc = p.clone();
    ctx.search(&s, "valid", ctx.n(150_000, 3_000_000), 300, &move |src: &mut Src| {
        let mut c = vec![src.byte() % 4, src.byte() % 65, src.byte() % 4];
        gens::gen_string_inner(src, &pc, &mut c);
        if src.chance(60) {
            let mut more = Vec::new();
            gens::gen_string_inner(src, &pc, &mut more);
            c.extend_from_slice(&more);
        }
        c
    });
    let pc = DocParams { allow_lone_surrogates: true, ..p.clone() };
    ctx.search(&s, "damaged", ctx.n(250_000, 5_000_000), 300, &move |src: &mut Src| {
        let mut c = vec![src.byte() % 4, src.byte() % 65, src.byte() % 4];
        let mut inner = Vec::new();
        gens::gen_string_inner(src, &pc, &mut inner);
        let ndmg = 1 + src.below(2);
        for _ in 0..ndmg {
            let dmg: &[u8] = if src.bool() { *src.pick(gens::ESCAPE_DAMAGE) } else { *src.pick(gens::UTF8_DAMAGE) };
            let pos = src.below(inner.len() + 1);
            inner.splice(pos..pos, dmg.iter().copied());
        }
        c.extend_from_slice(&inner);
        c
    });
}
