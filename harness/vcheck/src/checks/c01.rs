//! C01 — safe entry points never panic, abort or touch invalid memory on any input.

use std::collections::BTreeMap;

use bytes::Bytes;
use faststr::FastStr;
use serde::de::IgnoredAny;
use serde::Deserialize;
use sonic_rs::{Deserializer, JsonContainerTrait, JsonValueTrait, LazyValue, OwnedLazyValue, PointerNode, PointerTree, Value};
use vbase::alloc;
use vbase::crash::Guarded;
use vbase::engine::{Ctx, Fail, Obs, Src, Sub};
use vbase::gens::{self, DocParams};
use vbase::refjson::show_bytes;
use vbase::{ensure, fail};

use crate::family::{Adjacent, Deny, Enums, External, Flat, Internal, Nested, Plain, Tree, Untagged, WithOpt};

pub const RULE: &str = "cases are byte strings: generated well-formed documents, wide documents (objects of 40..260 members nesting objects of 10..150 members), number literals that reach the slow paths of the float parser (exact ties with zero tails of 700..5000 digits, 767..4000-digit significands), one or two random mutations of them, random bytes and token soup, every truncation / substitution / deletion of a document set, an alignment sweep (short documents padded to every total length 1..=200 at offsets 0..=64), and a depth sweep (nesting 1..=300, 1000, 10^4, 10^5, 10^6 of arrays, objects, alternating, closed and unclosed). Each input is handed to every safe entry point (from_slice/from_str/from_reader for Value, Option<Value>, structs, LazyValue, OwnedLazyValue, RawNumber, Number, strings, numbers, containers, enums, serde_json::Value, IgnoredAny; Deserializer::from_json over &str/&[u8]/&String/&Bytes/&FastStr with repeated deserialize, into_stream, use_rawnumber, utf8_lossy; get/get_from_*/get_many/get_by_schema with fixed path sets; both lazy iterators and LazyValue::into_*_iter; on every Ok the accessor set, to_string, to_string_pretty, Display, Debug, conversions LazyValue -> OwnedLazyValue -> Value; on every Err Display, Debug, offset/line/column/classify; owned results — Value, structs/Vec/maps of Value, later stream documents, OwnedLazyValue, get_by_schema, in default, raw-number and lossy mode — are also parsed from a private mapping that is unmapped before the result is read, cloned and serialized, so a pointer kept into the caller's input faults; borrowed results (&str, Cow<str>, borrowed LazyValue fields, keys and values of the lazy object iterators over every carrier and of LazyValue::into_object_iter) are read again after the reader / iterator that produced them was dropped and must not have changed). The input buffer is placed on the heap, ending exactly at a PROT_NONE guard page, or starting right after one. Violations: a panic (caught, with payload), a fatal signal (SIGSEGV incl. stack overflow, SIGABRT, SIGBUS — captured by a signal handler that writes the replay file), a double free or write after free seen by the quarantine allocator, or allocations left behind by the second of two identical runs (leak). Non-trivial = input of length >= 2 of which at least one entry point consumed >= 2 bytes (Ok, or an error with offset >= 1); distinct by input bytes.";
pub const ASSUMPTIONS: &[&str] = &["unsafe *_unchecked functions are not part of C01's entry points", "the depth sweep runs on threads with Rust's default 2 MiB stack; bounded stack means bounded independently of the nesting depth", "thorough tier: libFuzzer + AddressSanitizer + LeakSanitizer over the same entry-point table"];

#[derive(Deserialize)]
#[allow(dead_code)]
struct WithValue {
    v: Value,
    #[serde(default)]
    o: Option<OwnedLazyValue>,
}
#[derive(Deserialize)]
#[allow(dead_code)]
struct WithLazy<'a> {
    #[serde(borrow)]
    v: LazyValue<'a>,
}

struct Probe {
    consumed2: bool,
}

fn use_err(e: &sonic_rs::Error, p: &mut Probe) {
    let _ = format!("{e}");
    let _ = format!("{e:?}");
    let _ = (e.line(), e.column(), e.classify(), e.is_eof(), e.is_syntax());
    if e.offset() >= 1 {
        p.consumed2 = true;
    }
}

fn use_value(v: &Value, depth: usize) {
    let _ = v.get_type();
    let _ = (v.as_bool(), v.as_u64(), v.as_i64(), v.as_f64(), v.as_str().map(|s| s.len()), v.as_number(), v.as_raw_number().map(|r| r.as_str().len()));
    let _ = v.get("a").is_some();
    let _ = v.get(0usize).is_some();
    let _ = v.pointer(&[PointerNode::Key("a".into()), PointerNode::Index(0)]).is_some();
    let _ = v["a"][0].is_null();
    if depth < 3 {
        if let Some(a) = v.as_array() {
            for x in a.iter().take(4) {
                use_value(x, depth + 1);
            }
        }
        if let Some(o) = v.as_object() {
            for (k, x) in o.iter().take(4) {
                let _ = k.len();
                use_value(x, depth + 1);
            }
        }
    }
}

fn use_lazy<'a, T: JsonValueTrait>(v: &T) {
    let _ = v.get_type();
    let _ = (v.as_bool(), v.as_u64(), v.as_f64(), v.as_str().map(|s| s.len()), v.as_number(), v.as_raw_number().map(|r| r.as_str().len()), v.is_null());
    let _ = v.get("a").is_some();
    let _ = v.get(0usize).is_some();
    let _ = v.pointer(&[PointerNode::Key("a".into()), PointerNode::Index(0)]).is_some();
}

macro_rules! typed {
    ($t:ty, $input:expr, $p:expr) => {{
        match sonic_rs::from_slice::<$t>($input) {
            Ok(x) => {
                drop(x);
                $p.consumed2 |= $input.len() >= 2;
            }
            Err(e) => use_err(&e, $p),
        }
    }};
}

/// Run every safe entry point on `input`. `deep`: the input is a nesting-depth probe (skip the
/// quadratic-ish extras, keep every recursive entry point).
pub fn exercise(input: &[u8], deep: bool) -> bool {
    exercise_opts(input, deep, true)
}

/// `with_detached`: also run the routes that unmap the input before the owned result is used
pub fn exercise_opts(input: &[u8], deep: bool, with_detached: bool) -> bool {
    let mut p = Probe { consumed2: false };
    let p = &mut p;
    // ---- DOM
    match sonic_rs::from_slice::<Value>(input) {
        Ok(v) => {
            p.consumed2 |= input.len() >= 2;
            use_value(&v, 0);
            if let Ok(s) = sonic_rs::to_string(&v) {
                let _ = s.len();
            }
            if !deep {
                let _ = sonic_rs::to_string_pretty(&v).map(|s| s.len());
                let _ = format!("{v}").len();
                let _ = format!("{v:?}").len();
                let c = v.clone();
                let _ = c == v;
                let _ = sonic_rs::to_value(&v).map(|x| x == v);
                let _ = sonic_rs::from_value::<serde_json::Value>(&v).is_ok();
            }
            drop(v);
        }
        Err(e) => use_err(&e, p),
    }
    if let Ok(s) = std::str::from_utf8(input) {
        match sonic_rs::from_str::<Value>(s) {
            Ok(v) => drop(v),
            Err(e) => use_err(&e, p),
        }
        match sonic_rs::from_str::<LazyValue>(s) {
            Ok(l) => {
                use_lazy(&l);
                let _ = sonic_rs::to_string(&l).map(|x| x.len());
                let o = OwnedLazyValue::from(l.clone());
                use_lazy(&o);
                let _ = sonic_rs::to_string(&o).map(|x| x.len());
                let _ = Value::try_from(l.clone()).map(|v| v.get_type());
                if let Some(it) = l.clone().into_array_iter() {
                    for x in it.take(64) {
                        match x {
                            Ok(x) => use_lazy(&x),
                            Err(e) => use_err(&e, p),
                        }
                    }
                }
                if let Some(it) = l.into_object_iter() {
                    for x in it.take(64) {
                        match x {
                            Ok((k, x)) => {
                                let _ = k.len();
                                use_lazy(&x)
                            }
                            Err(e) => use_err(&e, p),
                        }
                    }
                }
            }
            Err(e) => use_err(&e, p),
        }
        for d in [Deserializer::from_json(s), Deserializer::from_str(s)] {
            let mut d = d;
            for _ in 0..3 {
                match d.deserialize::<Value>() {
                    Ok(v) => use_value(&v, 2),
                    Err(e) => {
                        use_err(&e, p);
                        break;
                    }
                }
            }
        }
        let string = s.to_string();
        let fs = FastStr::new(s);
        let _ = Deserializer::from_json(&string).deserialize::<OwnedLazyValue>().map(|o| use_lazy(&o));
        let _ = Deserializer::from_json(&fs).deserialize::<Value>().map(|v| use_value(&v, 2));
        let _ = Deserializer::from_json(&fs).deserialize::<LazyValue>().map(|l| use_lazy(&l));
        let _ = sonic_rs::get(&fs, &["a"]).map(|l| use_lazy(&l));
        let _ = sonic_rs::get_from_faststr(&fs, &[0usize]).map(|l| use_lazy(&l));
        let _ = sonic_rs::get_from_str(s, &["a", "b"]).map(|l| use_lazy(&l));
        let _ = sonic_rs::from_str::<WithLazy>(s).map(|w| use_lazy(&w.v));
        let _ = sonic_rs::from_str::<&str>(s).map(|x| x.len());
        let _ = sonic_rs::from_str::<std::borrow::Cow<str>>(s).map(|x| x.len());
    }
    match sonic_rs::from_reader::<_, Value>(input) {
        Ok(v) => drop(v),
        Err(e) => use_err(&e, p),
    }
    match sonic_rs::from_slice::<OwnedLazyValue>(input) {
        Ok(o) => {
            use_lazy(&o);
            let _ = o.as_array().map(|a| a.len());
            let _ = o.as_object().map(|a| a.len());
            let c = o.clone();
            let _ = sonic_rs::to_string(&c).map(|x| x.len());
            let _ = format!("{o:?}").len();
            let _ = format!("{o}").len();
        }
        Err(e) => use_err(&e, p),
    }
    match sonic_rs::from_slice::<LazyValue>(input) {
        Ok(l) => {
            use_lazy(&l);
            let _ = format!("{l:?}").len();
        }
        Err(e) => use_err(&e, p),
    }
    typed!(IgnoredAny, input, p);
    typed!(serde_json::Value, input, p);
    typed!(Option<Value>, input, p);
    typed!(WithValue, input, p);
    typed!(Vec<Value>, input, p);
    typed!(Tree, input, p);
    if !deep {
        typed!(sonic_rs::RawNumber, input, p);
        typed!(sonic_rs::Number, input, p);
        typed!(String, input, p);
        typed!(f64, input, p);
        typed!(f32, input, p);
        typed!(u8, input, p);
        typed!(i64, input, p);
        typed!(u128, input, p);
        typed!(bool, input, p);
        typed!((), input, p);
        typed!(char, input, p);
        typed!(Vec<i64>, input, p);
        typed!(Vec<String>, input, p);
        typed!((u8, String, bool), input, p);
        typed!(BTreeMap<String, Value>, input, p);
        typed!(BTreeMap<i32, f64>, input, p);
        typed!(Plain, input, p);
        typed!(WithOpt, input, p);
        typed!(Deny, input, p);
        typed!(Nested, input, p);
        typed!(External, input, p);
        typed!(Internal, input, p);
        typed!(Adjacent, input, p);
        typed!(Untagged, input, p);
        typed!(Flat, input, p);
        typed!(Enums, input, p);
        typed!(serde_bytes::ByteBuf, input, p);
    }
    // ---- Deserializer modes and carriers over bytes
    {
        let by = Bytes::copy_from_slice(input);
        let _ = Deserializer::from_json(input).use_rawnumber().deserialize::<Value>().map(|v| {
            use_value(&v, 1);
            sonic_rs::to_string(&v).map(|s| s.len())
        });
        let _ = Deserializer::from_json(input).utf8_lossy().deserialize::<Value>().map(|v| use_value(&v, 1));
        let _ = Deserializer::from_json(input).utf8_lossy().deserialize::<String>().map(|s| s.len());
        let _ = Deserializer::from_json(&by).deserialize::<Value>().map(|v| use_value(&v, 1));
        let mut st = Deserializer::from_json(&by).into_stream::<Value>();
        for _ in 0..6 {
            match st.next() {
                Some(Ok(v)) => use_value(&v, 2),
                Some(Err(e)) => use_err(&e, p),
                None => break,
            }
        }
        let mut st = Deserializer::from_slice(input).into_stream::<OwnedLazyValue>();
        for _ in 0..6 {
            match st.next() {
                Some(Ok(v)) => use_lazy(&v),
                Some(Err(e)) => use_err(&e, p),
                None => break,
            }
        }
        let _ = sonic_rs::get(&by, &["a"]).map(|l| use_lazy(&l));
        let _ = sonic_rs::get_from_bytes(&by, &[1usize]).map(|l| use_lazy(&l));
        for it in sonic_rs::to_array_iter(&by).take(16) {
            match it {
                Ok(l) => use_lazy(&l),
                Err(e) => use_err(&e, p),
            }
        }
    }
    // ---- owned results must not point into the caller's input: parse from a private mapping,
    // unmap it, and only then look at the result (a dangling pointer faults on the unmapped page)
    // (only worth the mappings when the input starts with a value some owned result can come from)
    if !deep && with_detached && Deserializer::from_json(input).utf8_lossy().deserialize::<IgnoredAny>().is_ok() {
        fn detached<T>(bytes: &[u8], parse: impl for<'a> FnOnce(&'a [u8]) -> T) -> T {
            let g = Guarded::ending_at_guard(bytes);
            let r = parse(g.bytes());
            drop(g);
            r
        }
        let mut streamed = Vec::with_capacity(input.len() + 2);
        streamed.extend_from_slice(b"0 ");
        streamed.extend_from_slice(input);
        for mode in 0..3u8 {
            fn de<'a>(b: &'a [u8], mode: u8) -> Deserializer<sonic_rs::Read<'a>> {
                let d = Deserializer::from_json(b);
                match mode {
                    0 => d,
                    1 => d.use_rawnumber(),
                    _ => d.utf8_lossy(),
                }
            }
            let use_owned = |v: &Value| {
                use_value(v, 1);
                let _ = sonic_rs::to_string(v).map(|s| s.len());
                let c = v.clone();
                let _ = c == *v;
            };
            if let Ok(v) = detached(input, |b| de(b, mode).deserialize::<Value>()) {
                use_owned(&v);
            }
            if let Ok(w) = detached(input, |b| de(b, mode).deserialize::<WithValue>()) {
                use_owned(&w.v);
                if let Some(o) = &w.o {
                    use_lazy(o);
                    let _ = sonic_rs::to_string(o).map(|s| s.len());
                }
            }
            if let Ok(vs) = detached(input, |b| de(b, mode).deserialize::<Vec<Value>>()) {
                for v in vs.iter().take(4) {
                    use_owned(v);
                }
            }
            if let Ok(m) = detached(input, |b| de(b, mode).deserialize::<BTreeMap<String, Value>>()) {
                for v in m.values().take(4) {
                    use_owned(v);
                }
            }
            let vs = detached(&streamed, |b| {
                let mut d = de(b, mode);
                let mut out = Vec::new();
                for _ in 0..3 {
                    match d.deserialize::<Value>() {
                        Ok(v) => out.push(v),
                        Err(_) => break,
                    }
                }
                out
            });
            for v in &vs {
                use_owned(v);
            }
            let os = detached(&streamed, |b| {
                let mut st = de(b, mode).into_stream::<OwnedLazyValue>();
                let mut out = Vec::new();
                for _ in 0..3 {
                    match st.next() {
                        Some(Ok(v)) => out.push(v),
                        _ => break,
                    }
                }
                out
            });
            for o in &os {
                use_lazy(o);
                let _ = sonic_rs::to_string(o).map(|s| s.len());
                let _ = o.as_array().map(|a| a.len());
                let _ = o.as_object().map(|a| a.len());
            }
        }
        if let Ok(o) = detached(input, |b| sonic_rs::from_slice::<LazyValue>(b).map(OwnedLazyValue::from)) {
            use_lazy(&o);
            let _ = sonic_rs::to_string(&o).map(|s| s.len());
        }
        if let Ok(Ok(v)) = detached(input, |b| sonic_rs::from_slice::<LazyValue>(b).map(Value::try_from)) {
            use_value(&v, 1);
            let _ = sonic_rs::to_string(&v).map(|s| s.len());
        }
        for schema in ["{\"a\":null,\"k\":{\"b\":[1]}}", "{}"] {
            let sv: Value = sonic_rs::from_str(schema).unwrap();
            if let Ok(v) = detached(input, |b| sonic_rs::get_by_schema(b, sv)) {
                use_value(&v, 1);
                let _ = sonic_rs::to_string(&v).map(|s| s.len());
            }
        }
    }
    // ---- borrowed results outlive the reader / iterator that produced them (their lifetime is the
    // input's): read them again after the producer is gone and fresh allocations were made
    if !deep {
        let by = Bytes::copy_from_slice(input);
        let fs = std::str::from_utf8(input).ok().map(FastStr::new);
        fn keys_live<'a>(it: impl Iterator<Item = sonic_rs::Result<(std::borrow::Cow<'a, str>, LazyValue<'a>)>>) -> Vec<(Vec<u8>, Vec<u8>)> {
            it.take(64).filter_map(|r| r.ok()).map(|(k, v)| (k.as_bytes().to_vec(), v.as_raw_str().as_bytes().to_vec())).collect()
        }
        fn keys_late<'a>(it: impl Iterator<Item = sonic_rs::Result<(std::borrow::Cow<'a, str>, LazyValue<'a>)>>) -> Vec<(Vec<u8>, Vec<u8>)> {
            let items: Vec<_> = it.take(64).collect(); // the iterator is dropped here
            let junk: Vec<Box<[u8; 48]>> = (0..4).map(|i| Box::new([0xA0 + i as u8; 48])).collect();
            let r = items.into_iter().filter_map(|r| r.ok()).map(|(k, v)| (k.as_bytes().to_vec(), v.as_raw_str().as_bytes().to_vec())).collect();
            drop(junk);
            r
        }
        assert!(keys_live(sonic_rs::to_object_iter(&by)) == keys_late(sonic_rs::to_object_iter(&by)), "dangling borrow: items of to_object_iter(&Bytes) change after the iterator is dropped");
        assert!(keys_live(sonic_rs::to_object_iter(input)) == keys_late(sonic_rs::to_object_iter(input)), "dangling borrow: items of to_object_iter(&[u8]) change after the iterator is dropped");
        if let Some(fs) = &fs {
            assert!(keys_live(sonic_rs::to_object_iter(fs)) == keys_late(sonic_rs::to_object_iter(fs)), "dangling borrow: items of to_object_iter(&FastStr) change after the iterator is dropped");
            let string = fs.to_string();
            assert!(keys_live(sonic_rs::to_object_iter(&string)) == keys_late(sonic_rs::to_object_iter(&string)), "dangling borrow: items of to_object_iter(&String) change after the iterator is dropped");
            for lazy_src in 0..2 {
                let mk = || -> Option<LazyValue> { if lazy_src == 0 { sonic_rs::get(fs, &[] as &[&str]).ok() } else { sonic_rs::get_from_bytes(&by, &[] as &[&str]).ok() } };
                if let (Some(a), Some(b)) = (mk().and_then(|l| l.into_object_iter()), mk().and_then(|l| l.into_object_iter())) {
                    assert!(keys_live(a) == keys_late(b), "dangling borrow: items of LazyValue::into_object_iter change after the iterator is dropped");
                }
            }
            // &str / Cow<str> / LazyValue borrowed through a Deserializer over an owning carrier
            let live: Option<Vec<u8>> = Deserializer::from_json(fs).deserialize::<&str>().ok().map(|s| s.as_bytes().to_vec());
            let late: Option<&str> = {
                let mut d = Deserializer::from_json(fs);
                d.deserialize::<&str>().ok()
            };
            let junk: Vec<Box<[u8; 40]>> = (0..4).map(|i| Box::new([0xB0 + i as u8; 40])).collect();
            assert!(live.as_deref() == late.map(|s| s.as_bytes()), "dangling borrow: &str from Deserializer::from_json(&FastStr) changes after the deserializer is dropped");
            let late: Option<std::borrow::Cow<str>> = {
                let mut d = Deserializer::from_json(&by);
                d.deserialize::<std::borrow::Cow<str>>().ok()
            };
            let live2: Option<Vec<u8>> = Deserializer::from_json(&by).deserialize::<std::borrow::Cow<str>>().ok().map(|s| s.as_bytes().to_vec());
            assert!(live2.as_deref() == late.as_ref().map(|s| s.as_bytes()), "dangling borrow: Cow<str> from Deserializer::from_json(&Bytes) changes after the deserializer is dropped");
            let late: Option<WithLazy> = {
                let mut d = Deserializer::from_json(fs);
                d.deserialize::<WithLazy>().ok()
            };
            let live3: Option<Vec<u8>> = Deserializer::from_json(fs).deserialize::<WithLazy>().ok().map(|w| w.v.as_raw_str().as_bytes().to_vec());
            assert!(live3.as_deref() == late.as_ref().map(|w| w.v.as_raw_str().as_bytes()), "dangling borrow: LazyValue field from Deserializer::from_json(&FastStr) changes after the deserializer is dropped");
            drop(junk);
        }
    }
    // ---- lookups
    let paths: [Vec<PointerNode>; 7] = [vec![], vec![PointerNode::Index(0)], vec![PointerNode::Index(3)], vec![PointerNode::Key("a".into())], vec![PointerNode::Key("k".into()), PointerNode::Index(0)], vec![PointerNode::Index(0), PointerNode::Index(0), PointerNode::Index(0)], vec![PointerNode::Key("".into())]];
    for path in &paths {
        match sonic_rs::get(input, path) {
            Ok(l) => {
                use_lazy(&l);
                p.consumed2 |= input.len() >= 2;
            }
            Err(e) => use_err(&e, p),
        }
        let _ = sonic_rs::get_from_slice(input, path).map(|l| l.as_raw_str().len());
    }
    for group in [&paths[1..3], &paths[3..5], &paths[0..1]] {
        let mut tree = PointerTree::new();
        for path in group {
            tree.add_path(path.iter());
        }
        match sonic_rs::get_many(input, &tree) {
            Ok(v) => {
                for x in v.iter().flatten() {
                    use_lazy(x);
                }
            }
            Err(e) => use_err(&e, p),
        }
    }
    for schema in ["{\"a\":null,\"k\":{\"b\":[1]}}", "{}", "{\"a\":{\"a\":{\"a\":{}}}}"] {
        let sv: Value = sonic_rs::from_str(schema).unwrap();
        match sonic_rs::get_by_schema(input, sv) {
            Ok(v) => use_value(&v, 1),
            Err(e) => use_err(&e, p),
        }
    }
    // ---- lazy iterators
    for it in sonic_rs::to_array_iter(input).take(64) {
        match it {
            Ok(l) => use_lazy(&l),
            Err(e) => use_err(&e, p),
        }
    }
    for it in sonic_rs::to_object_iter(input).take(64) {
        match it {
            Ok((k, l)) => {
                let _ = k.len();
                use_lazy(&l)
            }
            Err(e) => use_err(&e, p),
        }
    }
    p.consumed2
}

/// case = [placement][bytes]
pub fn oracle(case: &[u8], obs: &mut Obs) -> Result<(), Fail> {
    if case.is_empty() {
        return Ok(());
    }
    let placement = case[0] % 3;
    let bytes = &case[1..];
    obs.render = Some(format!("placement={placement} input={}", show_bytes(bytes, 400)));
    obs.label(["heap", "ends-at-guard-page", "starts-after-guard-page"][placement as usize]);
    let guarded;
    let heap;
    let input: &[u8] = match placement {
        0 => {
            heap = bytes.to_vec();
            &heap
        }
        1 => {
            guarded = Guarded::ending_at_guard(bytes);
            guarded.bytes()
        }
        _ => {
            guarded = Guarded::starting_after_guard(bytes);
            guarded.bytes()
        }
    };
    alloc::set_strict(true);
    let f0 = alloc::faults();
    // first run (warm-up for thread-local buffers), second run under leak accounting
    let consumed = exercise(input, false);
    alloc::flush_quarantine();
    let before = alloc::thread_live();
    let r = vbase::engine::catch(|| exercise_opts(input, false, false));
    alloc::flush_quarantine();
    let after = alloc::thread_live();
    alloc::set_strict(false);
    let f1 = alloc::faults();
    if let Err(pmsg) = r {
        fail!("C01/panic", "an entry point panicked on {:?}: {pmsg}", show_bytes(bytes, 300));
    }
    if consumed && bytes.len() >= 2 {
        obs.nt();
    }
    ensure!(f1.0 == f0.0, "C01/double-free", "a block was freed twice while handling {:?}", show_bytes(bytes, 300));
    ensure!(f1.1 == f0.1, "C01/write-after-free", "freed memory was written while handling {:?}", show_bytes(bytes, 300));
    ensure!(after == before, "C01/leak", "handling {:?} a second time leaves {} allocations / {} bytes behind", show_bytes(bytes, 300), after.0 - before.0, after.1 - before.1);
    Ok(())
}

/// depth probes: case = [shape][closed][depth as 4 bytes LE]; run on a 2 MiB-stack thread
pub fn oracle_depth(case: &[u8], obs: &mut Obs) -> Result<(), Fail> {
    if case.len() < 6 {
        return Ok(());
    }
    let (shape, closed) = (case[0] % 3, case[1] % 2 == 1);
    let depth = u32::from_le_bytes([case[2], case[3], case[4], case[5]]) as usize;
    obs.render = Some(format!("nesting depth {depth}, shape {shape}, closed={closed}"));
    obs.nt();
    obs.label(if depth > 1000 { "depth>1000" } else if depth > 128 { "depth 129..1000" } else { "depth<=128" });
    let doc = gens::nested(depth, shape, closed);
    // the case being evaluated is registered with the crash handler by the engine on *this*
    // thread; the worker thread below inherits nothing, so register it there as well
    let case_copy = case.to_vec();
    let h = std::thread::Builder::new()
        .stack_size(2 << 20)
        .spawn(move || {
            vbase::crash::set_current("depth", &case_copy);
            let r = vbase::engine::catch(|| exercise(&doc, true));
            vbase::crash::clear_current();
            r.map(|_| ())
        })
        .map_err(|e| Fail::new("C01/harness", format!("cannot spawn: {e}")))?;
    match h.join() {
        Ok(Ok(())) => Ok(()),
        Ok(Err(p)) => fail!("C01/panic/deep-nesting", "an entry point panicked at nesting depth {depth} (shape {shape}, closed={closed}): {p}"),
        Err(_) => fail!("C01/panic/deep-nesting", "worker thread died at nesting depth {depth}"),
    }
}

/// raw input bytes (fuzzer artifacts): heap placement
pub fn oracle_raw(case: &[u8], obs: &mut Obs) -> Result<(), Fail> {
    let mut c = vec![0u8];
    c.extend_from_slice(case);
    oracle(&c, obs)
}

pub fn subs() -> Vec<Sub<'static>> {
    vec![
        Sub { name: "fuzz-inputs", oracle: &oracle_raw, minimise_bytes: true },
        Sub { name: "inputs", oracle: &oracle, minimise_bytes: false },
        Sub { name: "alignment", oracle: &oracle, minimise_bytes: false },
        Sub { name: "mutation-sweep", oracle: &oracle, minimise_bytes: false },
        Sub { name: "depth", oracle: &oracle_depth, minimise_bytes: false },
    ]
}

pub fn depth_case(shape: u8, closed: bool, depth: usize) -> Vec<u8> {
    let mut c = vec![shape, closed as u8];
    c.extend_from_slice(&(depth as u32).to_le_bytes());
    c
}

/// number literals that drive the slow paths of the float parser (exact ties of adjacent doubles with very
/// long digit tails, 800-digit significands, explicit exponent signs)
fn hard_numbers() -> Vec<Vec<u8>> {
    let mut v: Vec<Vec<u8>> = Vec::new();
    for base in ["9007199254740993", "9007199254740993.", "1.00000000000000011102230246251565404236316680908203125", "4.9406564584124654e-324", "2.4703282292062327e-324", "179769313486231580793728971405303415079934132710037826936173778980444968292764750946649017977587207096330286416692887910946555547851940402630657488671505820681908902000708383676273854845817711531764475730270069855571366959622842914819860834936475292719074168444365510704342711559699508093042880177904174497791.9999999999999999999999999999999999999999999999999999999999999999999999999999999"] {
        for zeros in [0usize, 100, 700, 745, 752, 760, 767, 768, 769, 800, 1200, 5000] {
            for tail in ["", "1", "e0", "1e+0", "e-5", "E+5"] {
                if zeros > 0 && !base.contains('.') {
                    continue;
                }
                let mut s = base.to_string();
                s.push_str(&"0".repeat(zeros));
                s.push_str(tail);
                v.push(s.clone().into_bytes());
                v.push(format!("[{s},{s}]").into_bytes());
                v.push(format!("{{\"k\":{s}}}").into_bytes());
            }
        }
    }
    for n in [767usize, 768, 769, 770, 800, 1000, 4000] {
        for d in ['1', '9', '5'] {
            let digits: String = std::iter::repeat(d).take(n).collect();
            v.push(digits.clone().into_bytes());
            v.push(format!("0.{digits}").into_bytes());
            v.push(format!("{digits}.{digits}e-{n}").into_bytes());
            v.push(format!("0.{}{digits}E+{}", "0".repeat(n), n).into_bytes());
        }
    }
    v
}

pub fn run(ctx: &Ctx) {
    let subs = subs();
    // In the feature builds (sort_keys / arbitrary_precision / utf8_lossy) only the code those features
    // switch on is of interest: a reduced run over documents that reach it.
    if cfg!(any(feature = "sort_keys", feature = "arbitrary_precision", feature = "utf8_lossy")) {
        ctx.search(&subs[1], "wide-nested", ctx.n(1_500, 20_000), 120, &|src: &mut Src| {
            let mut c = vec![0u8];
            c.extend_from_slice(&gens::gen_wide_nested(src));
            c
        });
        let p = DocParams { ws: 1, max_depth: 5, max_items: 8, allow_inf: true, allow_lone_surrogates: true, dup_keys: true, ..DocParams::default() };
        ctx.search(&subs[1], "valid", ctx.n(6_000, 100_000), 500, &move |src: &mut Src| {
            let mut c = vec![src.byte() % 3];
            c.extend_from_slice(&gens::gen_doc(src, &p));
            c
        });
        ctx.search(&subs[1], "wide-objects", ctx.n(2_000, 30_000), 200, &|src: &mut Src| {
            let mut c = vec![0u8];
            c.extend_from_slice(&gens::gen_wide_object(src));
            c
        });
        return;
    }
    let hard: Vec<Vec<u8>> = hard_numbers().into_iter().map(|d| [&[0u8][..], &d].concat()).collect();
    ctx.cases(&subs[1], &hard);
    ctx.search(&subs[1], "wide-nested", ctx.n(600, 8_000), 120, &|src: &mut Src| {
        let mut c = vec![0u8];
        c.extend_from_slice(&gens::gen_wide_nested(src));
        c
    });
    // depth sweep first: the cheapest way to die
    let mut list = Vec::new();
    let mut depths: Vec<usize> = vec![1, 2, 3, 10, 64, 100, 127, 128, 129, 200, 254, 255, 256, 257, 300, 1000, 10_000, 100_000];
    if !ctx.quick() {
        depths.extend(4..=300);
        depths.push(1_000_000);
    }
    for &d in &depths {
        for shape in 0..3u8 {
            for closed in [true, false] {
                list.push(depth_case(shape, closed, d));
            }
        }
    }
    ctx.cases(&subs[4], &list);

    let p = DocParams { ws: 2, max_depth: 6, max_items: 6, allow_inf: true, allow_lone_surrogates: true, dup_keys: true, ..DocParams::default() };
    let pc = p.clone();
    ctx.search(&subs[1], "valid", ctx.n(30_000, 500_000), 500, &move |src: &mut Src| {
        let mut c = vec![src.byte() % 3];
        c.extend_from_slice(&gens::gen_doc(src, &pc));
        c
    });
    let pc = p.clone();
    ctx.search(&subs[1], "mutated", ctx.n(80_000, 1_500_000), 500, &move |src: &mut Src| {
        let mut c = vec![src.byte() % 3];
        let d = gens::gen_doc(src, &pc);
        let mut m = gens::mutate(src, &d).0;
        if src.chance(100) {
            m = gens::mutate(src, &m).0;
        }
        c.extend_from_slice(&m);
        c
    });
    ctx.search(&subs[1], "soup", ctx.n(40_000, 800_000), 200, &|src: &mut Src| {
        let mut c = vec![src.byte() % 3];
        if src.bool() {
            c.extend_from_slice(src.rest());
        } else {
            let n = src.below(40);
            for _ in 0..n {
                let t: &[u8] = match src.below(24) {
                    0 => b"{",
                    1 => b"}",
                    2 => b"[",
                    3 => b"]",
                    4 => b",",
                    5 => b":",
                    6 => b"\"",
                    7 => b"\\",
                    8 => b"\"a\"",
                    9 => b"\"\\u00e9\"",
                    10 => b"1",
                    11 => b"-1.5e3",
                    12 => b"true",
                    13 => b"null",
                    14 => b" ",
                    15 => b"\n",
                    16 => b"\"\\ud800\"",
                    17 => b"123456789012345678901234567890",
                    18 => b"0.0000000000123456",
                    19 => b"\xff",
                    20 => b"\"k\":",
                    21 => b"1e999",
                    22 => b"fals",
                    _ => b"\"0123456789abcdef0123456789abcdef0123456789abcdef\"",
                };
                c.extend_from_slice(t);
            }
        }
        c
    });

    // alignment sweep: golden documents padded to every total length, every offset
    let quick = ctx.quick();
    ctx.sweep(&subs[2], false, &|shard, n, emit| {
        let mut docs = gens::golden_docs();
        for extra in ["0.0000000000123456", "0.1234567891234567", "[0.12345678901234567,1]", "{\"a\":0.0000000000000001234}", "123456789012345.6789", "\"\\ud83d\\ude00\"", "[\"0123456789012345678901234567\\\\\"]", "-0.0e-0"] {
            docs.push(extra.as_bytes().to_vec());
        }
        let mut k = 0usize;
        for d in &docs {
            for pre in 0..=64usize {
                if quick && pre > 8 && pre % 8 != 0 && !(31..=33).contains(&pre) && !(63..=64).contains(&pre) {
                    continue;
                }
                for total in (d.len() + pre)..=200usize.max(d.len() + pre) {
                    if quick && (total - d.len() - pre) > 4 && total % 16 > 1 {
                        continue;
                    }
                    k += 1;
                    if k % n != shard {
                        continue;
                    }
                    for placement in 1..=2u8 {
                        let mut c = vec![placement];
                        c.resize(1 + pre, b' ');
                        c.extend_from_slice(d);
                        c.resize(1 + total, b' ');
                        if !emit(&c) {
                            return;
                        }
                    }
                    // and the document ending exactly at the end of the buffer (no padding)
                    let mut c = vec![1u8];
                    c.resize(1 + pre, b' ');
                    c.extend_from_slice(d);
                    if !emit(&c) {
                        return;
                    }
                }
            }
        }
    });

    // systematic single-mutation sweep of a document set, inputs ending at a guard page
    let ndocs = ctx.n(24, 300);
    let seed = ctx.seed;
    ctx.sweep(&subs[3], false, &|shard, n, emit| {
        let pm = DocParams { ws: 1, max_depth: 3, max_items: 4, long_strings: false, align: 0, allow_inf: true, allow_lone_surrogates: true, ..DocParams::default() };
        for i in (shard..ndocs).step_by(n) {
            let bytes = super::c02::pseudo_bytes(seed ^ 0xc01, i as u64, 160);
            let mut src = Src::new(&bytes);
            let d = gens::gen_container_doc(&mut src, &pm);
            if d.len() > 250 {
                continue;
            }
            if !gens::sweep_mutations(&d, 1, &mut |c, _| {
                let mut x = vec![1u8];
                x.extend_from_slice(c);
                emit(&x)
            }) {
                return;
            }
        }
    });
}
