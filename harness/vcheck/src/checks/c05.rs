//! C05 — serialization always emits well-formed JSON that denotes the serialized value.

use std::collections::BTreeMap;
use std::io::{self, Write};

use bytes::{BufMut, BytesMut};
use serde::Serialize;
use sonic_rs::writer::{BufferedWriter, WriteExt};
use vbase::crash::Guarded;
use vbase::engine::{Ctx, Fail, Obs, Src, Sub};
use vbase::refjson::{self, show_bytes, trunc};
use vbase::{ensure, fail};

use crate::family::{self, Fam, FamVisitor, G};
use crate::model_ser::{cmp_output, to_model, SV};

pub const RULE: &str = "cases are Rust values: (a) generated values of the 71-type family (incl. field/variant names that need escaping, nullable newtype payloads, strings written piecewise through collect_str with empty pieces) (integers of all widths, floats, strings, options, tuples, sequences, maps with string/integer/bool/char/enum keys, structs, all enum shapes, flatten, bytes, recursive trees) plus non-finite floats and invalid key kinds; (a3) serde_json::Value trees nested 20..=122 levels deep with two or more members per level; (a2) DOM values in every representation the public API produces (the final heaps of C15 operation histories: arena-backed, shared, promoted, macro-/conversion-built, owned raw numbers), whose output must denote what the public read API reports, member for member in iteration order; (b) strings of every length 0..=200 with each escapable byte (quote, backslash, C0 controls, DEL, multi-byte) at every position 0..=130, materialised at every start offset 0..=64 of a heap buffer, ending exactly at a PROT_NONE guard page, and starting right after one; (c) random Unicode strings up to 70,000 bytes. Each value is written through to_string, to_vec, to_writer over Vec, BytesMut writers, BufferedWriter, io::BufWriter, &mut W and Box<W>, compact and pretty; the output must be UTF-8, accepted by the reference recogniser, its reference parse equal to the value's model (independent model serializer; string tokens checked for the escaping discipline; numbers by value), pretty == reindent(compact) byte for byte, all writers byte-identical. Fault enumeration: a writer that fails once n bytes were accepted, for sampled/all n in 0..len, direct and as inner writer of BufferedWriter / io::BufWriter, plus writers that accept at most k bytes per call: the call must return Err (never Ok, never panic) and the accepted bytes must be a prefix of the correct output. Non-trivial = value containing a string that needs an escape or is >= 32 bytes, or nesting >= 2; distinct by case encoding.";
pub const ASSUMPTIONS: &[&str] = &["serde's JSON data-model convention (as documented by serde_json) defines the value's model", "refjson parser and escaping rule", "Rust std float/integer parsing"];

// ---- writers ------------------------------------------------------------------------------

/// accepts bytes until `limit` bytes were taken, then fails
struct FailAfter {
    accepted: Vec<u8>,
    limit: usize,
    failed: bool,
}
impl Write for FailAfter {
    fn write(&mut self, buf: &[u8]) -> io::Result<usize> {
        let room = self.limit - self.accepted.len();
        if room == 0 && !buf.is_empty() {
            self.failed = true;
            return Err(io::Error::new(io::ErrorKind::Other, "injected writer fault"));
        }
        let n = buf.len().min(room);
        self.accepted.extend_from_slice(&buf[..n]);
        Ok(n)
    }
    fn flush(&mut self) -> io::Result<()> {
        Ok(())
    }
}

/// accepts at most `cap` bytes per call, never fails
struct Chunky {
    out: Vec<u8>,
    cap: usize,
}
impl Write for Chunky {
    fn write(&mut self, buf: &[u8]) -> io::Result<usize> {
        let n = buf.len().min(self.cap);
        self.out.extend_from_slice(&buf[..n]);
        Ok(n)
    }
    fn flush(&mut self) -> io::Result<()> {
        Ok(())
    }
}

/// a WriteExt implemented from scratch over a fallible sink (the trait is public)
struct ExtOver<W: Write> {
    inner: W,
    scratch: Vec<u8>,
}
impl<W: Write> Write for ExtOver<W> {
    fn write(&mut self, buf: &[u8]) -> io::Result<usize> {
        self.inner.write(buf)
    }
    fn flush(&mut self) -> io::Result<()> {
        self.inner.flush()
    }
}
impl<W: Write> WriteExt for ExtOver<W> {
    fn reserve_with(&mut self, additional: usize) -> io::Result<&mut [std::mem::MaybeUninit<u8>]> {
        self.scratch.clear();
        self.scratch.reserve(additional);
        unsafe { Ok(std::slice::from_raw_parts_mut(self.scratch.as_mut_ptr() as *mut std::mem::MaybeUninit<u8>, additional)) }
    }
    unsafe fn flush_len(&mut self, additional: usize) -> io::Result<()> {
        self.scratch.set_len(additional);
        let r = self.inner.write_all(&self.scratch);
        self.scratch.clear();
        r
    }
}

fn nesting(sv: &SV) -> usize {
    match sv {
        SV::Arr(v) => 1 + v.iter().map(nesting).max().unwrap_or(0),
        SV::Obj(v) => 1 + v.iter().map(|(_, x)| nesting(x)).max().unwrap_or(0),
        _ => 0,
    }
}
fn has_interesting_string(sv: &SV) -> bool {
    match sv {
        SV::Str(s) => s.len() >= 32 || s.bytes().any(|c| c == b'"' || c == b'\\' || c < 0x20),
        SV::Arr(v) => v.iter().any(has_interesting_string),
        SV::Obj(v) => v.iter().any(|(k, x)| has_interesting_string(k) || has_interesting_string(x)),
        _ => false,
    }
}

/// The full check for one value.
pub fn check_value<T: Serialize + ?Sized>(x: &T, tname: &str, obs: &mut Obs, fault_budget: usize) -> Result<(), Fail> {
    let model = to_model(x);
    let compact = sonic_rs::to_string(x);
    let model = match (model, &compact) {
        (Err(_), Err(_)) => return Ok(()), // both refuse (e.g. non-scalar map key)
        (Err(e), Ok(s)) => fail!("C05/accepts-unserializable", "{tname}: model refuses ({e}) but to_string produced {:?}", trunc(s, 200)),
        (Ok(m), Err(e)) => fail!("C05/rejects-serializable", "{tname}: to_string failed ({e}) for model {:?}", trunc(&format!("{m:?}"), 300)),
        (Ok(m), Ok(_)) => m,
    };
    let compact = compact.unwrap();
    if nesting(&model) >= 2 || has_interesting_string(&model) {
        obs.nt();
    }
    let cb = compact.as_bytes();
    // (1) well-formed
    let acc = refjson::accept(cb);
    ensure!(acc.utf8 && acc.grammar && acc.scalars, "C05/malformed-output", "{tname}: to_string output is not well-formed JSON: {:?}", show_bytes(cb, 300));
    // (2)+(3) denotes the value
    let (node, _) = refjson::parse(cb).map_err(|e| Fail::new("C05/malformed-output", format!("{tname}: output does not parse ({}) {:?}", e.reason, show_bytes(cb, 300))))?;
    let mut path = String::from("$");
    if let Err((kind, msg)) = cmp_output(&node, cb, &model, &mut path) {
        fail!(format!("C05/wrong-output/{kind}"), "{tname}: {msg}; output {:?}", show_bytes(cb, 400));
    }
    // compact output carries no insignificant whitespace
    ensure!(refjson::compact(cb) == cb, "C05/compact-has-whitespace", "{tname}: compact output contains whitespace outside strings: {:?}", show_bytes(cb, 300));
    // (4) pretty
    let pretty = sonic_rs::to_string_pretty(x).map_err(|e| Fail::new("C05/pretty-error", format!("{tname}: to_string_pretty failed: {e}")))?;
    let want_pretty = refjson::reindent(cb);
    ensure!(pretty.as_bytes() == want_pretty, "C05/pretty-differs", "{tname}: pretty output differs from re-indented compact output:\n got {:?}\nwant {:?}", show_bytes(pretty.as_bytes(), 400), show_bytes(&want_pretty, 400));
    // (5) all writers identical
    macro_rules! same {
        ($name:expr, $bytes:expr, $want:expr) => {{
            let b: Vec<u8> = $bytes;
            ensure!(b == $want, format!("C05/writer-differs/{}", $name), "{tname}: writer {} produced {:?}, expected {:?}", $name, show_bytes(&b, 300), show_bytes($want, 300));
        }};
    }
    let e = |e: sonic_rs::Error| Fail::new("C05/writer-error", format!("{tname}: {e}"));
    same!("to_vec", sonic_rs::to_vec(x).map_err(e)?, cb);
    same!("to_vec_pretty", sonic_rs::to_vec_pretty(x).map_err(e)?, pretty.as_bytes());
    {
        let mut v = Vec::new();
        sonic_rs::to_writer(&mut v, x).map_err(e)?;
        same!("to_writer(&mut Vec)", v, cb);
        let mut v = vec![b'#'; 3];
        sonic_rs::to_writer(&mut v, x).map_err(e)?;
        same!("to_writer(&mut Vec, non-empty)", v[3..].to_vec(), cb);
        let mut v = Vec::new();
        sonic_rs::to_writer_pretty(&mut v, x).map_err(e)?;
        same!("to_writer_pretty(&mut Vec)", v, pretty.as_bytes());
        let w = BytesMut::new().writer();
        let mut w = w;
        sonic_rs::to_writer(&mut w, x).map_err(e)?;
        same!("to_writer(BytesMut writer)", w.into_inner().to_vec(), cb);
        let mut bm = BytesMut::with_capacity(1);
        bm.put_u8(b'#');
        {
            let w = (&mut bm).writer();
            sonic_rs::to_writer(w, x).map_err(e)?;
        }
        same!("to_writer(&mut BytesMut writer)", bm[1..].to_vec(), cb);
        let mut sink = Vec::new();
        {
            let mut bw = BufferedWriter::new(&mut sink);
            sonic_rs::to_writer(&mut bw, x).map_err(e)?;
            bw.flush().ok();
        }
        same!("BufferedWriter<Vec>", sink, cb);
        let mut io_bw = io::BufWriter::with_capacity(16, Vec::new());
        sonic_rs::to_writer(&mut io_bw, x).map_err(e)?;
        let inner = io_bw.into_inner().map_err(|_| Fail::new("C05/writer-error", "BufWriter flush failed"))?;
        same!("io::BufWriter<Vec>", inner, cb);
        let mut io_bw = io::BufWriter::new(Vec::new());
        sonic_rs::to_writer_pretty(&mut io_bw, x).map_err(e)?;
        let inner = io_bw.into_inner().map_err(|_| Fail::new("C05/writer-error", "BufWriter flush failed"))?;
        same!("io::BufWriter<Vec> pretty", inner, pretty.as_bytes());
        // pretty output through the remaining writers
        let mut w = BytesMut::new().writer();
        sonic_rs::to_writer_pretty(&mut w, x).map_err(e)?;
        same!("to_writer_pretty(BytesMut writer)", w.into_inner().to_vec(), pretty.as_bytes());
        let mut sink = Vec::new();
        sonic_rs::to_writer_pretty(BufferedWriter::new(&mut sink), x).map_err(e)?;
        same!("BufferedWriter<Vec> pretty", sink, pretty.as_bytes());
        let mut sink = Chunky { out: Vec::new(), cap: 5 };
        sonic_rs::to_writer_pretty(BufferedWriter::new(&mut sink), x).map_err(e)?;
        same!("BufferedWriter<Chunky> pretty", sink.out, pretty.as_bytes());
        let mut boxed: Box<Vec<u8>> = Box::default();
        sonic_rs::to_writer(&mut boxed, x).map_err(e)?;
        same!("Box<Vec>", *boxed, cb);
        let mut ext = ExtOver { inner: Vec::new(), scratch: Vec::new() };
        sonic_rs::to_writer(&mut ext, x).map_err(e)?;
        same!("custom WriteExt", ext.inner, cb);
        // writers that take at most k bytes per call
        for cap in [1usize, 3, 7] {
            let mut sink = Chunky { out: Vec::new(), cap };
            sonic_rs::to_writer(BufferedWriter::new(&mut sink), x).map_err(e)?;
            same!("BufferedWriter<Chunky>", sink.out, cb);
        }
    }
    // (6) fault enumeration
    let len = cb.len();
    let points: Vec<usize> = if len <= fault_budget { (0..len).collect() } else { (0..fault_budget).map(|i| i * len / fault_budget).collect() };
    for n in points {
        obs.extra_nontrivial.push(n as u64 ^ 0xfa17);
        // BufferedWriter over a failing sink
        let mut sink = FailAfter { accepted: Vec::new(), limit: n, failed: false };
        let r = sonic_rs::to_writer(BufferedWriter::new(&mut sink), x);
        ensure!(r.is_err(), "C05/fault/error-swallowed/BufferedWriter", "{tname}: writer failing after {n} of {len} bytes, to_writer returned Ok; accepted {:?}", show_bytes(&sink.accepted, 200));
        ensure!(cb.starts_with(&sink.accepted), "C05/fault/not-a-prefix/BufferedWriter", "{tname}: writer failing after {n} bytes accepted {:?}, not a prefix of {:?}", show_bytes(&sink.accepted, 200), show_bytes(cb, 200));
        // custom WriteExt over a failing sink
        let mut ext = ExtOver { inner: FailAfter { accepted: Vec::new(), limit: n, failed: false }, scratch: Vec::new() };
        let r = sonic_rs::to_writer(&mut ext, x);
        ensure!(r.is_err(), "C05/fault/error-swallowed/WriteExt", "{tname}: custom WriteExt failing after {n} of {len} bytes, to_writer returned Ok");
        ensure!(cb.starts_with(&ext.inner.accepted), "C05/fault/not-a-prefix/WriteExt", "{tname}: custom WriteExt failing after {n} bytes accepted {:?}, not a prefix of {:?}", show_bytes(&ext.inner.accepted, 200), show_bytes(cb, 200));
        // io::BufWriter over BufferedWriter over the failing sink; the error may surface at flush
        let mut sink = FailAfter { accepted: Vec::new(), limit: n, failed: false };
        let (r, fl) = {
            let mut io_bw = io::BufWriter::with_capacity(8, BufferedWriter::new(&mut sink));
            let r = sonic_rs::to_writer(&mut io_bw, x);
            let fl = io_bw.flush();
            let _ = io_bw.into_parts();
            (r, fl)
        };
        ensure!(r.is_err() || fl.is_err(), "C05/fault/error-swallowed/io::BufWriter", "{tname}: io::BufWriter chain failing after {n} of {len} bytes: to_writer and flush both Ok");
        ensure!(cb.starts_with(&sink.accepted), "C05/fault/not-a-prefix/io::BufWriter", "{tname}: io::BufWriter chain failing after {n} bytes accepted {:?}, not a prefix of {:?}", show_bytes(&sink.accepted, 200), show_bytes(cb, 200));
    }
    Ok(())
}

struct FamCase<'a, 'b> {
    src: &'a mut Src<'b>,
    obs: &'a mut Obs,
    result: Result<(), Fail>,
    faults: usize,
}
impl FamVisitor for FamCase<'_, '_> {
    fn visit<T: Fam>(&mut self) {
        let x = T::g(self.src, 0);
        self.obs.render = Some(format!("{}: {}", T::NAME, trunc(&format!("{x:?}"), 300)));
        self.obs.label(T::NAME);
        self.result = check_value(&x, T::NAME, self.obs, self.faults);
    }
}

pub fn oracle_family(case: &[u8], obs: &mut Obs) -> Result<(), Fail> {
    if case.is_empty() {
        return Ok(());
    }
    let mut src = Src::new(&case[1..]);
    let mut v = FamCase { src: &mut src, obs, result: Ok(()), faults: 24 };
    family::dispatch(case[0] as usize, &mut v);
    v.result
}

#[derive(Serialize)]
struct Special {
    nan: f64,
    inf: f64,
    ninf: f64,
    nan32: f32,
    inf32: f32,
    list: Vec<f64>,
    opt: Option<f64>,
    tup: (f32, f64),
    map: BTreeMap<String, f64>,
}

#[derive(Serialize, PartialEq, Eq, PartialOrd, Ord)]
struct StructKey {
    a: u8,
}
#[derive(Serialize, PartialEq, Eq, PartialOrd, Ord)]
enum NewtypeKeyEnum {
    N(u8),
}

pub fn oracle_special(case: &[u8], obs: &mut Obs) -> Result<(), Fail> {
    let k = case.first().copied().unwrap_or(0);
    obs.nt();
    match k {
        0 => {
            let mut map = BTreeMap::new();
            map.insert("a\"b".to_string(), f64::NAN);
            map.insert("z".to_string(), 1.5);
            let s = Special { nan: f64::NAN, inf: f64::INFINITY, ninf: f64::NEG_INFINITY, nan32: f32::NAN, inf32: f32::NEG_INFINITY, list: vec![1.0, f64::NAN, -0.0, f64::INFINITY], opt: Some(f64::NAN), tup: (f32::INFINITY, 2.5), map };
            check_value(&s, "Special(non-finite)", obs, 64)
        }
        1 => check_value(&f64::NAN, "f64::NAN", obs, 8),
        2 => check_value(&f32::INFINITY, "f32::INFINITY", obs, 8),
        // invalid key kinds: both the model and sonic-rs must refuse
        3 => check_value(&BTreeMap::from([((), 1u8)]), "BTreeMap<(),u8>", obs, 0),
        4 => check_value(&BTreeMap::from([(vec![1u8], 1u8)]), "BTreeMap<Vec<u8>,u8>", obs, 0),
        5 => check_value(&BTreeMap::from([(StructKey { a: 1 }, 1u8)]), "BTreeMap<StructKey,u8>", obs, 0),
        6 => check_value(&BTreeMap::from([(BTreeMap::from([(1u8, 2u8)]), 1u8)]), "BTreeMap<BTreeMap,u8>", obs, 0),
        7 => check_value(&BTreeMap::from([(Some(3u8), 1u8)]), "BTreeMap<Option<u8>,u8>", obs, 0),
        8 => check_value(&BTreeMap::from([((1u8, 2u8), 1u8)]), "BTreeMap<(u8,u8),u8>", obs, 0),
        9 => check_value(&BTreeMap::from([(NewtypeKeyEnum::N(1), 1u8)]), "BTreeMap<NewtypeVariant,u8>", obs, 0),
        10 => {
            // sequences and maps of unknown length (iterators)
            struct It;
            impl Serialize for It {
                fn serialize<S: serde::Serializer>(&self, s: S) -> Result<S::Ok, S::Error> {
                    s.collect_seq((0..5u8).filter(|x| x % 2 == 0))
                }
            }
            struct Mp;
            impl Serialize for Mp {
                fn serialize<S: serde::Serializer>(&self, s: S) -> Result<S::Ok, S::Error> {
                    s.collect_map((0..4u8).filter(|x| x % 2 == 1).map(|x| (x, vec![x; x as usize])))
                }
            }
            check_value(&(It, Mp, Vec::<It>::new(), vec![Mp, Mp]), "unknown-length seq/map", obs, 32)
        }
        11 => {
            struct D;
            impl Serialize for D {
                fn serialize<S: serde::Serializer>(&self, s: S) -> Result<S::Ok, S::Error> {
                    s.collect_str(&format_args!("a\"{}\\\n{}", 7, "é"))
                }
            }
            check_value(&(D, [D, D]), "collect_str", obs, 32)
        }
        12 => {
            // a serialization that fails after part of the output was produced must not leave anything
            // behind that shows up in the next call on this thread (scratch buffers, formatter state)
            let bad = BTreeMap::from([((1u8, 2u8), 3u8)]);
            struct FailsLate;
            impl Serialize for FailsLate {
                fn serialize<S: serde::Serializer>(&self, s: S) -> Result<S::Ok, S::Error> {
                    use serde::ser::SerializeSeq;
                    let mut q = s.serialize_seq(None)?;
                    q.serialize_element(&"a\"b")?;
                    q.serialize_element(&[1u8, 2])?;
                    Err(serde::ser::Error::custom("late failure"))
                }
            }
            let good = (vec![1u8, 2, 3], "x\"y", BTreeMap::from([("k", 1.5f64)]));
            let want = "[[1,2,3],\"x\\\"y\",{\"k\":1.5}]";
            for round in 0..3 {
                ensure!(sonic_rs::to_string(&bad).is_err() && sonic_rs::to_string(&FailsLate).is_err(), "C05/after-error/accepts", "a failing value serialized without error");
                ensure!(sonic_rs::to_string(&good).ok().as_deref() == Some(want), "C05/after-error/to_string", "round {round}: to_string after a failed to_string gives {:?}", sonic_rs::to_string(&good));
                ensure!(sonic_rs::to_vec(&bad).is_err() && sonic_rs::to_vec(&FailsLate).is_err(), "C05/after-error/accepts", "a failing value serialized without error");
                ensure!(sonic_rs::to_vec(&good).ok().as_deref() == Some(want.as_bytes()), "C05/after-error/to_vec", "round {round}: to_vec after a failed to_vec differs");
                ensure!(sonic_rs::to_string_pretty(&FailsLate).is_err(), "C05/after-error/accepts", "a failing value serialized without error");
                let p = sonic_rs::to_string_pretty(&good).map_err(|e| Fail::new("C05/after-error/pretty", format!("{e}")))?;
                ensure!(p.as_bytes() == refjson::reindent(want.as_bytes()), "C05/after-error/pretty", "round {round}: to_string_pretty after a failed one gives {:?}", trunc(&p, 200));
                ensure!(sonic_rs::to_lazyvalue(&bad).is_err() && sonic_rs::to_lazyvalue(&FailsLate).is_err(), "C05/after-error/accepts", "a failing value converted without error");
                let l = sonic_rs::to_lazyvalue(&good).map_err(|e| Fail::new("C05/after-error/to_lazyvalue", format!("{e}")))?;
                ensure!(sonic_rs::to_string(&l).ok().as_deref() == Some(want), "C05/after-error/to_lazyvalue", "round {round}: to_lazyvalue after a failed to_lazyvalue holds {:?}", sonic_rs::to_string(&l));
                ensure!(sonic_rs::to_value(&bad).is_err() && sonic_rs::to_value(&FailsLate).is_err(), "C05/after-error/accepts", "a failing value converted without error");
                let v = sonic_rs::to_value(&good).map_err(|e| Fail::new("C05/after-error/to_value", format!("{e}")))?;
                ensure!(sonic_rs::to_string(&v).ok().as_deref() == Some(want), "C05/after-error/to_value", "round {round}: to_value after a failed to_value holds {:?}", sonic_rs::to_string(&v));
                let mut sink = Vec::new();
                ensure!(sonic_rs::to_writer(&mut sink, &FailsLate).is_err(), "C05/after-error/accepts", "a failing value written without error");
                sink.clear();
                sonic_rs::to_writer(&mut sink, &good).map_err(|e| Fail::new("C05/after-error/to_writer", format!("{e}")))?;
                ensure!(sink == want.as_bytes(), "C05/after-error/to_writer", "round {round}: to_writer after a failed to_writer gives {:?}", show_bytes(&sink, 200));
            }
            Ok(())
        }
        _ => Ok(()),
    }
}

/// DOM values in every representation (case = a C15 operation history): whatever the public API has
/// made of a value — arena-backed, shared with clones, promoted to owned containers, built by macros
/// and conversions, holding owned raw numbers — its serialization must be well-formed and denote what
/// the public read API reports for it, member for member and in iteration order.
pub fn oracle_dom(case: &[u8], obs: &mut Obs) -> Result<(), Fail> {
    let mut inner = Obs::default();
    let Ok((slots, _models, log)) = super::c15::run_history(case, &mut inner) else {
        return Ok(()); // a model mismatch is C15's finding, not C05's
    };
    for (i, v) in slots.iter().enumerate() {
        let want = crate::sx::walk(v, false);
        let want = if cfg!(feature = "sort_keys") { want.sorted() } else { want };
        let compact = sonic_rs::to_string(v).map_err(|e| Fail::new("C05/dom/ser-error", format!("after [{log}] to_string(slot {i}) failed: {e}")))?;
        let (node, _) = refjson::parse(compact.as_bytes()).map_err(|e| Fail::new("C05/dom/malformed-output", format!("after [{log}] slot {i} serializes to {:?}: {}", trunc(&compact, 300), e.reason)))?;
        let got = node.model(compact.as_bytes(), false);
        ensure!(got == want, "C05/dom/wrong-output", "after [{log}] slot {i} serializes to {:?}, but the read API reports {}", trunc(&compact, 300), trunc(&want.dump(), 300));
        ensure!(refjson::compact(compact.as_bytes()) == compact.as_bytes(), "C05/dom/whitespace", "compact output of slot {i} has whitespace: {:?}", trunc(&compact, 200));
        let pretty = sonic_rs::to_string_pretty(v).map_err(|e| Fail::new("C05/dom/ser-error", format!("{e}")))?;
        ensure!(pretty.as_bytes() == refjson::reindent(compact.as_bytes()), "C05/dom/pretty", "after [{log}] pretty output of slot {i} is not the re-indented compact output: {:?}", trunc(&pretty, 300));
        ensure!(sonic_rs::to_vec(v).ok().as_deref() == Some(compact.as_bytes()) && format!("{v}") == compact, "C05/dom/writers-differ", "after [{log}] to_vec / Display of slot {i} differ from to_string");
        let mut sink = Vec::new();
        sonic_rs::to_writer(std::io::BufWriter::with_capacity(7, &mut sink), v).map_err(|e| Fail::new("C05/dom/ser-error", format!("{e}")))?;
        ensure!(sink == compact.as_bytes(), "C05/dom/writers-differ", "after [{log}] to_writer(io::BufWriter) of slot {i} gives {:?}", show_bytes(&sink, 200));
        if matches!(want, refjson::M::Arr(_) | refjson::M::Obj(_)) {
            obs.nt_key(&format!("slot{i}"));
        }
    }
    obs.render = Some(log);
    Ok(())
}

/// deeply nested serializable values (a serde_json::Value read from a generated deep text)
pub fn oracle_deep(case: &[u8], obs: &mut Obs) -> Result<(), Fail> {
    let mut src = Src::new(case);
    let text = vbase::gens::gen_deep(&mut src);
    let Ok(v) = serde_json::from_slice::<serde_json::Value>(&text) else { return Ok(()) }; // beyond serde_json's own limit
    obs.render = Some(trunc(&String::from_utf8_lossy(&text), 200));
    check_value(&v, "serde_json::Value (deep)", obs, 8)
}

/// strings: case = [placement][offset][bytes...]
pub fn oracle_string(case: &[u8], obs: &mut Obs) -> Result<(), Fail> {
    if case.len() < 2 {
        return Ok(());
    }
    let (placement, off) = (case[0] % 4, (case[1] % 65) as usize);
    let content = String::from_utf8_lossy(&case[2..]).into_owned();
    let bytes = content.as_bytes();
    if bytes.len() >= 32 || bytes.iter().any(|&c| c == b'"' || c == b'\\' || c < 0x20) {
        obs.nt();
    }
    if bytes.len() % 32 != 0 && bytes.len() % 32 < 32 {
        obs.label("tail<32");
    }
    let check_out = |out: &[u8], what: &str| -> Result<(), Fail> {
        refjson::check_escaped_literal(out, &content).map_err(|e| Fail::new("C05/string/escaping", format!("{what}: string {:?} serialized as {:?}: {e}", trunc(&content, 200), show_bytes(out, 300))))
    };
    let want = refjson::escape_string(&content);
    match placement {
        0 => {
            // heap buffer, start offset `off`
            let mut buf = vec![b'#'; off];
            buf.extend_from_slice(bytes);
            buf.extend_from_slice(b"####");
            let s = std::str::from_utf8(&buf[off..off + bytes.len()]).unwrap();
            let out = sonic_rs::to_string(s).map_err(|e| Fail::new("C05/string/error", format!("{e}")))?;
            check_out(out.as_bytes(), "heap")?;
            ensure!(out == want, "C05/string/spelling", "string {:?} serialized as {:?}, documented spelling {:?}", trunc(&content, 120), trunc(&out, 200), trunc(&want, 200));
            // as a map key and inside an array, compact and pretty
            let v = vec![s, s];
            let out2 = sonic_rs::to_string(&v).map_err(|e| Fail::new("C05/string/error", format!("{e}")))?;
            ensure!(out2 == format!("[{want},{want}]"), "C05/string/in-array", "array of two copies of {:?} serialized as {:?}", trunc(&content, 120), trunc(&out2, 300));
            let m = BTreeMap::from([(s, s)]);
            let out3 = sonic_rs::to_string_pretty(&m).map_err(|e| Fail::new("C05/string/error", format!("{e}")))?;
            ensure!(out3 == format!("{{\n  {want}: {want}\n}}"), "C05/string/as-key", "map {{s:s}} for {:?} pretty-serialized as {:?}", trunc(&content, 120), trunc(&out3, 300));
        }
        1 => {
            obs.label("ends-at-guard-page");
            let g = Guarded::ending_at_guard(bytes);
            let s = g.as_str().unwrap();
            let out = sonic_rs::to_string(s).map_err(|e| Fail::new("C05/string/error", format!("{e}")))?;
            check_out(out.as_bytes(), "page-end")?;
            ensure!(out == want, "C05/string/spelling", "page-end string {:?} serialized as {:?}", trunc(&content, 120), trunc(&out, 200));
            let mut w = BufferedWriter::new(Vec::new());
            sonic_rs::to_writer(&mut w, s).map_err(|e| Fail::new("C05/string/error", format!("{e}")))?;
        }
        2 => {
            obs.label("starts-after-guard-page");
            let g = Guarded::starting_after_guard(bytes);
            let s = g.as_str().unwrap();
            let out = sonic_rs::to_string(s).map_err(|e| Fail::new("C05/string/error", format!("{e}")))?;
            check_out(out.as_bytes(), "page-start")?;
            ensure!(out == want, "C05/string/spelling", "page-start string {:?} serialized as {:?}", trunc(&content, 120), trunc(&out, 200));
        }
        _ => {
            // through the DOM: Value::from(&str) and to_value, then serialize
            let v = sonic_rs::Value::from(content.as_str());
            let out = sonic_rs::to_string(&v).map_err(|e| Fail::new("C05/string/error", format!("{e}")))?;
            ensure!(out == want, "C05/string/dom", "Value::from({:?}) serialized as {:?}", trunc(&content, 120), trunc(&out, 200));
            let out = format!("{v}");
            ensure!(out == want, "C05/string/dom-display", "Display of Value::from({:?}) = {:?}", trunc(&content, 120), trunc(&out, 200));
        }
    }
    Ok(())
}

pub fn subs() -> Vec<Sub<'static>> {
    vec![
        Sub { name: "family", oracle: &oracle_family, minimise_bytes: false },
        Sub { name: "special", oracle: &oracle_special, minimise_bytes: false },
        Sub { name: "strings", oracle: &oracle_string, minimise_bytes: false },
        Sub { name: "dom", oracle: &oracle_dom, minimise_bytes: false },
        Sub { name: "deep", oracle: &oracle_deep, minimise_bytes: false },
    ]
}

fn sub(name: &str) -> Sub<'static> {
    subs().into_iter().find(|s| s.name == name).unwrap()
}

pub fn run(ctx: &Ctx) {
    ctx.search(&sub("dom"), "dom-histories", ctx.n(400_000, 4_000_000), 260, &|src: &mut Src| src.rest().to_vec());
    ctx.search(&sub("deep"), "deep", ctx.n(4_000, 40_000), 64, &|src: &mut Src| src.rest().to_vec());
    let quick = ctx.quick();
    let s = sub("special");
    ctx.cases(&s, &(0u8..13).map(|k| vec![k]).collect::<Vec<_>>());

    // (a) family values
    let s = sub("family");
    ctx.search(&s, "values", ctx.n(120_000, 2_000_000), 400, &|src: &mut Src| {
        let mut c = vec![src.below(family::N_TYPES) as u8];
        c.extend_from_slice(src.rest());
        c
    });

    // (b) positional string sweep
    let s = sub("strings");
    ctx.sweep(&s, true, &|shard, n, emit| {
        let specials: [&[u8]; 9] = [b"\"", b"\\", b"\x00", b"\x1f", b"\x08", b"\n", b"\x7f", "é".as_bytes(), "😀".as_bytes()];
        let mut k = 0usize;
        for len in 0..=200usize {
            for pos in 0..=len.min(130) {
                k += 1;
                if k % n != shard {
                    continue;
                }
                for (si, sp) in specials.iter().enumerate() {
                    let mut content = vec![b'a'; pos];
                    content.extend_from_slice(sp);
                    content.resize(content.len() + (len - pos), b'a');
                    // guard-page placements for every case, heap offsets rotating (all 65 in thorough)
                    for placement in [1u8, 2] {
                        let mut c = vec![placement, 0];
                        c.extend_from_slice(&content);
                        if !emit(&c) {
                            return;
                        }
                    }
                    let offs: Vec<u8> = if quick { vec![((len + pos + si) % 65) as u8, ((pos * 7 + si) % 65) as u8] } else { (0..=64).collect() };
                    for o in offs {
                        let mut c = vec![0u8, o];
                        c.extend_from_slice(&content);
                        if !emit(&c) {
                            return;
                        }
                    }
                    if pos % 4 == 0 {
                        let mut c = vec![3u8, 0];
                        c.extend_from_slice(&content);
                        if !emit(&c) {
                            return;
                        }
                    }
                }
            }
        }
    });
    ctx.mark_exhaustive("every escapable byte at every position 0..=130 of strings of every length 0..=200, ending at / starting after a guard page");

    // (c) random unicode strings incl. long ones
    ctx.search(&s, "random", ctx.n(100_000, 2_000_000), 600, &|src: &mut Src| {
        let mut c = vec![src.byte() % 4, src.byte() % 65];
        let n = match src.below(10) {
            0..=5 => src.below(64),
            6 | 7 => src.below(300),
            8 => src.below(5000),
            _ => src.below(70_000),
        };
        let mut s = String::new();
        let ascii_heavy = src.bool();
        for i in 0..n {
            if ascii_heavy && i % 7 != 0 {
                s.push((b' ' + (src.byte() % 95)) as char);
            } else {
                s.push(<char as G>::g(src, 0));
            }
            if src.exhausted() && i > 64 {
                // cheap filler once the choices are used up
                s.extend(std::iter::repeat('x').take(n - i));
                break;
            }
        }
        c.extend_from_slice(s.as_bytes());
        c
    });
}
