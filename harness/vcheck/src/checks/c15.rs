//! C15 — mutable DOM matches a plain array/map model under every operation history.

use sonic_rs::{json, Array, JsonContainerTrait, JsonValueMutTrait, JsonValueTrait, Object, PointerNode, Value};
use vbase::engine::{catch, Ctx, Fail, Obs, Src, Sub};
use vbase::refjson::{self, trunc, M};
use vbase::{ensure, fail};

use crate::sx::walk;

pub const RULE: &str = "cases are operation histories (decoded from a choice sequence; the whole sequence shrinks) over a heap of 4 DOM slots. Slots start as parsed documents (default and raw-number mode; member names up to 45 bytes incl. names that share their first 16 and last 8 bytes), clones or takes of subtrees (sharing the parsed arena), json!/From-built values (incl. owned raw numbers from to_value(RawNumber)) or empty containers. Operations: Value::{take, clone, get, get_mut, pointer, pointer_mut (incl. the empty path), as_array_mut, as_object_mut, Index, IndexMut(str|usize), assignment}, Array::{push, pop, insert, remove, swap_remove, truncate, clear, resize, resize_with, retain, retain_mut, split_off, append, drain, extend, extend_from_within, iter_mut, slice indexing, into_iter next/next_back followed by for_each / fold / count / last / rev / nth / a clone of the iterator; retain with a stateful keep-mask predicate and its call log}, Object::{insert, remove, remove_entry, get, get_mut, get_key_value, contains_key, len, is_empty, clear, retain, append, extend, iter, iter_mut, IndexMut, entry -> key / or_insert / or_insert_with / or_insert_with_key / or_default / and_modify / Occupied get, get_mut, insert, remove, into_mut / Vacant key, insert}, moving or cloning a value from one slot into a container of another. Every operation is applied to the DOM and to a reference model (Vec / unique-key map) in lock-step; its result (returned value, Option-ness, lengths, booleans, keys, or the documented panic) must agree, and after every step a canonical dump of ALL slots must equal the model — so a mutation of one value that changes another (the document it was cloned or extracted from, earlier clones) is detected. Exhaustive: every sequence of <= 3 operations over a reduced operation/argument universe. Non-trivial = a mutation after a clone/take/extract of the same arena or of a child of a parsed container; distinct by history bytes.";
pub const ASSUMPTIONS: &[&str] = &["starting documents are duplicate-free (a string-keyed map cannot express duplicates)", "documented panics (IndexMut on a wrong kind, Vec-style out-of-range) are expected outcomes and must leave all slots unchanged", "array::IntoIter::as_slice/as_mut_slice are undocumented and not modelled"];

pub const DOCS: &[&str] = &[
    "{\"a\":[1,2,{\"b\":null}],\"c\":\"s\",\"d\":{\"e\":[true,false],\"f\":{}}}",
    "[1,\"two\",[3,[4,5]],{\"k\":\"v\",\"n\":[]},null,-6.5]",
    "{\"x\":{\"y\":{\"z\":[{\"w\":1}]}},\"arr\":[[],[[]],{}]}",
    "[]",
    "{}",
    "[[1,2,3],[4,5,6],[7,8,9]]",
    "{\"k1\":1,\"k2\":2,\"k3\":3,\"k4\":4,\"k5\":5,\"k6\":6,\"k7\":7,\"k8\":8,\"k9\":9}",
    "\"just a string\"",
    "12345678901234567890",
    "{\"com.example.service.alpha.timeout\":100,\"com.example.service.beta0.timeout\":200,\"com.example.service.gamma.timeout\":300,\"k\":[1],\"a_member_name_longer_than_thirty_bytes\":[\"v\"],\"another_member_name_longer_than_thirty_bytes\":\"a string value kept in the arena\"}",
];

/// (appended to DOCS below through `start_doc`: the only arena-backed member sits under a long name)
pub const LONG_NAME_DOCS: &[&str] = &[
    "{\"id\":7,\"configuration_of_the_primary_replica_set\":{\"hosts\":[\"a\",\"b\"],\"port\":27017},\"ok\":true}",
    "{\"a_member_name_longer_than_thirty_bytes\":\"the only string value of this document, kept in the arena\",\"n\":1}",
    "[{\"configuration_of_the_primary_replica_set\":[1,2]},3]",
];

/// documents parsed in raw-number mode (`use_rawnumber`): number nodes keep their literal
pub const RAW_DOCS: &[&str] = &["[1.50,12.50,{\"n\":0.10,\"big\":12345678901234567890123,\"k\":[1e2]},-0.0,7]", "{\"a\":1.0,\"b\":[2.00,3],\"c\":{\"d\":4e0}}"];

/// start document number `i` of DOCS ++ RAW_DOCS with its model
pub fn start_doc(i: usize) -> (Value, M, &'static str) {
    let i = i % N_START_DOCS;
    if i < DOCS.len() + LONG_NAME_DOCS.len() {
        let d = if i < DOCS.len() { DOCS[i] } else { LONG_NAME_DOCS[i - DOCS.len()] };
        (sonic_rs::from_str(d).unwrap(), refjson::parse(d.as_bytes()).unwrap().0.model(d.as_bytes(), false), d)
    } else {
        let d = RAW_DOCS[i - DOCS.len() - LONG_NAME_DOCS.len()];
        let v: Value = sonic_rs::Deserializer::from_str(d).use_rawnumber().deserialize().unwrap();
        (v, refjson::parse(d.as_bytes()).unwrap().0.model(d.as_bytes(), false), d)
    }
}
pub const N_START_DOCS: usize = DOCS.len() + LONG_NAME_DOCS.len() + RAW_DOCS.len();
pub const N_UNIVERSE: usize = 30;

pub fn universe(i: usize) -> (Value, M) {
    let texts = ["null", "true", "7", "-3", "1.5", "\"s\"", "\"é\\\"x\"", "[1,\"a\"]", "{\"k\":1}", "{\"k\":{\"n\":[]}}", "[]", "{}", "[[2],{\"z\":null}]", "0.10", "[12345678901234567890.5,7]"];
    let t = texts[i % texts.len()];
    let m = refjson::parse(t.as_bytes()).unwrap().0.model(t.as_bytes(), false);
    // build through different constructors
    let v = match i % (2 * texts.len()) {
        0 => Value::new_null(),
        1 => Value::from(true),
        2 => json!(7),
        3 => Value::from(-3i64),
        4 => Value::try_from(1.5f64).unwrap(),
        5 => Value::from("s"),
        6 => Value::from(&String::from("é\"x")),
        7 => json!([1, "a"]),
        8 => json!({"k": 1}),
        9 => json!({"k": {"n": []}}),
        10 => Value::from(Array::new()),
        11 => Value::from(Object::new()),
        // owned raw numbers (only `to_value` of a RawNumber makes these)
        13 => sonic_rs::to_value(&sonic_rs::from_str::<sonic_rs::RawNumber>("0.10").unwrap()).unwrap(),
        14 => sonic_rs::to_value(&(sonic_rs::from_str::<sonic_rs::RawNumber>("12345678901234567890.5").unwrap(), 7u8)).unwrap(),
        28 | 29 => sonic_rs::Deserializer::from_str(t).use_rawnumber().deserialize().unwrap(),
        _ => sonic_rs::from_str(t).unwrap(),
    };
    (v, m)
}

pub fn dump(v: &Value) -> String {
    walk(v, false).sorted().dump()
}
pub fn mdump(m: &M) -> String {
    m.sorted().dump()
}

/// choose a path that resolves in the model; returns (pointer, steps)
pub fn choose_path(m: &M, src: &mut Src) -> Vec<PointerNode> {
    let mut out = Vec::new();
    let mut cur = m;
    let depth = src.below(4);
    // fixed width: always three choice bytes, used as far as the depth goes
    let choices = [src.byte(), src.byte(), src.byte()];
    for &b in choices.iter().take(depth) {
        match cur {
            M::Arr(v) if !v.is_empty() => {
                let i = (b as usize * v.len()) >> 8;
                out.push(PointerNode::Index(i));
                cur = &v[i];
            }
            M::Obj(v) if !v.is_empty() => {
                let i = (b as usize * v.len()) >> 8;
                out.push(PointerNode::Key(faststr::FastStr::new(&v[i].0)));
                cur = &v[i].1;
            }
            _ => break,
        }
    }
    out
}

pub fn m_at<'a>(m: &'a M, p: &[PointerNode]) -> Option<&'a M> {
    let mut cur = m;
    for e in p {
        cur = match (e, cur) {
            (PointerNode::Index(i), M::Arr(v)) => v.get(*i)?,
            (PointerNode::Key(k), M::Obj(v)) => &v.iter().find(|(kk, _)| kk == k.as_str())?.1,
            _ => return None,
        };
    }
    Some(cur)
}
pub fn m_at_mut<'a>(m: &'a mut M, p: &[PointerNode]) -> Option<&'a mut M> {
    let mut cur = m;
    for e in p {
        cur = match (e, cur) {
            (PointerNode::Index(i), M::Arr(v)) => v.get_mut(*i)?,
            (PointerNode::Key(k), M::Obj(v)) => &mut v.iter_mut().find(|(kk, _)| kk == k.as_str())?.1,
            _ => return None,
        };
    }
    Some(cur)
}
fn obj_get<'a>(v: &'a [(String, M)], k: &str) -> Option<&'a M> {
    v.iter().find(|(kk, _)| kk == k).map(|(_, x)| x)
}
fn obj_insert(v: &mut Vec<(String, M)>, k: &str, x: M) -> Option<M> {
    if let Some(e) = v.iter_mut().find(|(kk, _)| kk == k) {
        Some(std::mem::replace(&mut e.1, x))
    } else {
        v.push((k.to_string(), x));
        None
    }
}
fn obj_remove(v: &mut Vec<(String, M)>, k: &str) -> Option<M> {
    let i = v.iter().position(|(kk, _)| kk == k)?;
    Some(v.remove(i).1)
}

const KEYS: &[&str] = &["a", "b", "c", "k", "k1", "k5", "new", "é\"", "", "x", "d", "n", "com.example.service.alpha.timeout", "com.example.service.gamma.timeout", "com.example.service.delta.timeout", "a_member_name_longer_than_thirty_bytes", "big", "configuration_of_the_primary_replica_set"];

struct State {
    slots: Vec<Value>,
    models: Vec<M>,
    log: Vec<String>,
    shared: bool,
    nontrivial: bool,
}

impl State {
    fn check_all(&self, step: &str) -> Result<(), Fail> {
        for (i, (v, m)) in self.slots.iter().zip(self.models.iter()).enumerate() {
            let same = catch(|| crate::sx::eq_vm(v, m)).map_err(|p| Fail::new("C15/dump-panics", format!("reading slot {i} panicked after [{}]: {p}", self.log.join("; "))))?;
            if !same {
                let got = dump(v);
                let want = mdump(m);
                fail!(format!("C15/state-mismatch/{}", step.split('(').next().unwrap_or(step).split(' ').next().unwrap_or(step)), "after [{}] slot {i} is {} but the model says {}", self.log.join("; "), trunc(&got, 300), trunc(&want, 300));
            }
        }
        Ok(())
    }
}

fn res_eq(op: &str, got: String, want: String, log: &[String]) -> Result<(), Fail> {
    if got != want {
        fail!(format!("C15/result-mismatch/{}", op.split('(').next().unwrap_or(op).split(' ').next().unwrap_or(op)), "after [{}] operation {op} returned {} but the model returns {}", log.join("; "), trunc(&got, 200), trunc(&want, 200));
    }
    Ok(())
}

fn odump(v: Option<&Value>) -> String {
    match v {
        Some(v) => format!("Some({})", dump(v)),
        None => "None".into(),
    }
}
fn omdump(v: Option<&M>) -> String {
    match v {
        Some(v) => format!("Some({})", mdump(v)),
        None => "None".into(),
    }
}

/// run one operation on the real target inside catch_unwind; "panic" is a result like any other
fn real<R>(f: impl FnOnce() -> R, show: impl FnOnce(R) -> String) -> String {
    match catch(f) {
        Ok(r) => show(r),
        Err(_) => "panic".to_string(),
    }
}

pub fn oracle(case: &[u8], obs: &mut Obs) -> Result<(), Fail> {
    run_history(case, obs).map(|_| ())
}

/// Interpret a history; returns the final heap (DOM values in every representation the public API can
/// produce: parsed, shared, promoted, built) with the model of each slot and the operation log.
pub fn run_history(case: &[u8], obs: &mut Obs) -> Result<(Vec<Value>, Vec<M>, String), Fail> {
    let mut src = Src::new(case);
    let mut st = State { slots: Vec::new(), models: Vec::new(), log: Vec::new(), shared: false, nontrivial: false };
    // initial slots
    for _ in 0..4 {
        if src.chance(150) {
            let (v, m, _) = start_doc(src.below(N_START_DOCS));
            st.slots.push(v);
            st.models.push(m);
        } else {
            let (v, m) = universe(src.below(N_UNIVERSE));
            st.slots.push(v);
            st.models.push(m);
        }
    }
    st.check_all("init")?;
    let nops = 1 + src.below(24);
    for _ in 0..nops {
        step(&mut st, &mut src)?;
    }
    if st.nontrivial {
        obs.nt();
    }
    obs.render = Some(st.log.join("; "));
    let log = st.log.join("; ");
    Ok((st.slots, st.models, log))
}

fn step(st: &mut State, src: &mut Src) -> Result<(), Fail> {
    let s = src.below(4);
    let path = choose_path(&st.models[s], src);
    let pd = format!("{path:?}").replace("PointerNode::", "");
    let op = src.below(62);
    let parsed_child = !path.is_empty();
    // target kind according to the model
    let kind = match m_at(&st.models[s], &path) {
        Some(M::Arr(_)) => 1,
        Some(M::Obj(_)) => 2,
        Some(_) => 0,
        None => return Ok(()),
    };
    let (uv, um) = universe(src.below(N_UNIVERSE));
    macro_rules! target {
        () => {
            st.slots[s].pointer_mut(&path).ok_or_else(|| Fail::new("C15/pointer_mut-none", format!("after [{}] pointer_mut({pd}) is None although the model resolves it", st.log.join("; "))))?
        };
    }
    macro_rules! mtarget {
        () => {
            m_at_mut(&mut st.models[s], &path).unwrap()
        };
    }
    macro_rules! marr {
        () => {
            match mtarget!() {
                M::Arr(v) => v,
                _ => unreachable!(),
            }
        };
    }
    macro_rules! mobj {
        () => {
            match mtarget!() {
                M::Obj(v) => v,
                _ => unreachable!(),
            }
        };
    }
    let mutating;
    let name: String;
    match op {
        // ---------------------------------------------------------------- slot-level operations
        0 => {
            let (v, m, _) = start_doc(src.below(N_START_DOCS));
            name = format!("slot{s} = parse(doc)");
            st.slots[s] = v;
            st.models[s] = m;
            mutating = false;
        }
        1 => {
            name = format!("slot{s} = built value");
            st.slots[s] = uv;
            st.models[s] = um;
            mutating = false;
        }
        2 | 3 => {
            // clone a subtree into another slot (shares the arena of a parsed document)
            let to = src.below(4);
            name = format!("slot{to} = slot{s}.pointer({pd}).clone()");
            let c = st.slots[s].pointer(&path).cloned();
            let m = m_at(&st.models[s], &path).cloned();
            ensure!(c.is_some() == m.is_some(), "C15/result-mismatch/pointer", "pointer({pd}) is_some={} but the model says {}", c.is_some(), m.is_some());
            if let (Some(c), Some(m)) = (c, m) {
                // plain assignment, `clone_from` into whatever the slot holds (it may reuse the receiver's
                // buffers), or `clone_from` through a Vec of values
                match src.below(3) {
                    0 => st.slots[to] = c,
                    1 => st.slots[to].clone_from(&c),
                    _ => {
                        let mut two = vec![std::mem::take(&mut st.slots[to]), Value::new_null()];
                        two.clone_from(&vec![c.clone(), c]);
                        st.slots[to] = two.swap_remove(0);
                    }
                }
                st.models[to] = m;
                st.shared = true;
            }
            mutating = false;
        }
        4 => {
            // take a subtree out into another slot
            let to = src.below(4);
            name = format!("slot{to} = slot{s}.pointer_mut({pd}).take()");
            if to != s || path.is_empty() {
                let t = target!().take();
                let m = std::mem::replace(mtarget!(), M::Null);
                st.slots[to] = t;
                st.models[to] = m;
                st.shared = true;
            }
            mutating = true;
        }
        5 => {
            name = format!("*slot{s}.pointer_mut({pd}) = value");
            *target!() = uv;
            *mtarget!() = um;
            mutating = true;
        }
        6 => {
            // move the content of another slot into this position (leaving null behind there)
            let from = src.below(4);
            name = format!("*slot{s}.pointer_mut({pd}) = slot{from}.take()");
            if from != s {
                let v = st.slots[from].take();
                let m = std::mem::replace(&mut st.models[from], M::Null);
                *target!() = v;
                *mtarget!() = m;
            }
            mutating = true;
        }
        7 => {
            // clone another slot's content into this position
            let from = src.below(4);
            name = format!("*slot{s}.pointer_mut({pd}) = slot{from}.clone()");
            let v = st.slots[from].clone();
            let m = st.models[from].clone();
            *target!() = v;
            *mtarget!() = m;
            st.shared = true;
            mutating = true;
        }
        8 => {
            // reads: get / Index by key and by index, pointer with the empty path
            let key = KEYS[src.below(KEYS.len())];
            let idx = src.below(6);
            name = format!("read slot{s}{pd} get({key:?}) get({idx})");
            let t = st.slots[s].pointer(&path).unwrap();
            let m = m_at(&st.models[s], &path).unwrap();
            let (wk, wi) = match m {
                M::Obj(v) => (obj_get(v, key), None),
                M::Arr(v) => (None, v.get(idx)),
                _ => (None, None),
            };
            res_eq("get(key)", odump(t.get(key)), omdump(wk), &st.log)?;
            res_eq("get(idx)", odump(t.get(idx)), omdump(wi), &st.log)?;
            res_eq("Index(key)", dump(&t[key]), wk.map(mdump).unwrap_or_else(|| "null".into()), &st.log)?;
            res_eq("Index(idx)", dump(&t[idx]), wi.map(mdump).unwrap_or_else(|| "null".into()), &st.log)?;
            let e: [PointerNode; 0] = [];
            res_eq("pointer([])", odump(t.pointer(&e)), omdump(Some(m)), &st.log)?;
            res_eq("as_array.is_some", format!("{}", t.as_array().is_some()), format!("{}", matches!(m, M::Arr(_))), &st.log)?;
            res_eq("as_object.is_some", format!("{}", t.as_object().is_some()), format!("{}", matches!(m, M::Obj(_))), &st.log)?;
            mutating = false;
        }
        9 => {
            // pointer_mut with the empty path is the value itself
            name = format!("slot{s}.pointer_mut([]) assign");
            let e: [PointerNode; 0] = [];
            let r = real(|| st.slots[s].pointer_mut(&e).map(|t| *t = uv.clone()).is_some(), |b| format!("{b}"));
            res_eq("pointer_mut([])", r, "true".into(), &st.log)?;
            st.models[s] = um;
            mutating = true;
        }
        10 => {
            // get_mut by key / index + assignment
            let key = KEYS[src.below(KEYS.len())];
            let idx = src.below(6);
            name = format!("slot{s}{pd}.get_mut({key:?}|{idx}) = value");
            let by_key = src.bool();
            let t = target!();
            let got = if by_key { t.get_mut(key).map(|x| *x = uv.clone()).is_some() } else { t.get_mut(idx).map(|x| *x = uv.clone()).is_some() };
            let want = match mtarget!() {
                M::Obj(v) if by_key => v.iter_mut().find(|(k, _)| k == key).map(|(_, x)| *x = um.clone()).is_some(),
                M::Arr(v) if !by_key => v.get_mut(idx).map(|x| *x = um.clone()).is_some(),
                _ => false,
            };
            res_eq("get_mut", format!("{got}"), format!("{want}"), &st.log)?;
            mutating = true;
        }
        11 => {
            // IndexMut by key: null becomes an object, objects insert, others panic
            let key = KEYS[src.below(KEYS.len())];
            name = format!("slot{s}{pd}[{key:?}] = value");
            let t = target!();
            let got = real(|| t[key] = uv.clone(), |_| "ok".into());
            let want = match mtarget!() {
                m @ M::Null => {
                    *m = M::Obj(vec![(key.to_string(), um.clone())]);
                    "ok"
                }
                M::Obj(v) => {
                    obj_insert(v, key, um.clone());
                    "ok"
                }
                _ => "panic",
            };
            res_eq("IndexMut(key)", got, want.into(), &st.log)?;
            mutating = true;
        }
        12 => {
            // IndexMut by index: panics unless an in-range array element
            let idx = src.below(6);
            name = format!("slot{s}{pd}[{idx}] = value");
            let t = target!();
            let got = real(|| t[idx] = uv.clone(), |_| "ok".into());
            let want = match mtarget!() {
                M::Arr(v) if idx < v.len() => {
                    v[idx] = um.clone();
                    "ok"
                }
                _ => "panic",
            };
            res_eq("IndexMut(idx)", got, want.into(), &st.log)?;
            mutating = true;
        }
        13 => {
            name = format!("slot{s}{pd}.as_array_mut()/as_object_mut() kind");
            let t = target!();
            let (a, o) = (t.as_array_mut().is_some(), t.as_object_mut().is_some());
            res_eq("as_array_mut", format!("{a}/{o}"), format!("{}/{}", kind == 1, kind == 2), &st.log)?;
            mutating = false;
        }
        14 => {
            name = format!("slot{s}.take()");
            let t = st.slots[s].take();
            let m = std::mem::replace(&mut st.models[s], M::Null);
            res_eq("take", dump(&t), mdump(&m), &st.log)?;
            mutating = true;
        }
        // ------------------------------------------------------------------- array operations
        15..=39 if kind == 1 => {
            let len = match m_at(&st.models[s], &path) {
                Some(M::Arr(v)) => v.len(),
                _ => 0,
            };
            // index: mostly in range, sometimes out of range
            let i = if src.chance(40) { len + src.below(3) } else { src.below(len + 1) };
            let a = target!().as_array_mut().ok_or_else(|| Fail::new("C15/as_array_mut-none", format!("after [{}] as_array_mut is None for an array", st.log.join("; "))))?;
            mutating = true;
            match op {
                15 => {
                    name = format!("slot{s}{pd}.push(value)");
                    a.push(uv);
                    marr!().push(um);
                }
                16 => {
                    name = format!("slot{s}{pd}.pop()");
                    let got = a.pop();
                    let want = marr!().pop();
                    res_eq("pop", odump(got.as_ref()), omdump(want.as_ref()), &st.log)?;
                }
                17 => {
                    name = format!("slot{s}{pd}.insert({i}, value)");
                    let got = real(|| a.insert(i, uv.clone()), |_| "ok".into());
                    let v = marr!();
                    let want = if i <= v.len() {
                        v.insert(i, um);
                        "ok"
                    } else {
                        "panic"
                    };
                    res_eq("insert", got, want.into(), &st.log)?;
                }
                18 => {
                    name = format!("slot{s}{pd}.remove({i})");
                    let got = real(|| a.remove(i), |_| "ok".into());
                    let v = marr!();
                    let want = if i < v.len() {
                        v.remove(i);
                        "ok"
                    } else {
                        "panic"
                    };
                    res_eq("remove", got, want.into(), &st.log)?;
                }
                19 => {
                    name = format!("slot{s}{pd}.swap_remove({i})");
                    let got = real(|| a.swap_remove(i), |x| dump(&x));
                    let v = marr!();
                    let want = if i < v.len() { mdump(&v.swap_remove(i)) } else { "panic".into() };
                    res_eq("swap_remove", got, want, &st.log)?;
                }
                20 => {
                    name = format!("slot{s}{pd}.truncate({i})");
                    a.truncate(i);
                    marr!().truncate(i);
                }
                21 => {
                    name = format!("slot{s}{pd}.clear()");
                    a.clear();
                    marr!().clear();
                }
                22 => {
                    let n = src.below(len + 4);
                    name = format!("slot{s}{pd}.resize({n}, value)");
                    a.resize(n, uv);
                    marr!().resize(n, um);
                }
                23 => {
                    let n = src.below(len + 4);
                    name = format!("slot{s}{pd}.resize_with({n}, ..)");
                    let mut k = 0;
                    a.resize_with(n, || {
                        k += 1;
                        Value::from(k)
                    });
                    let mut k = 0u64;
                    marr!().resize_with(n, || {
                        k += 1;
                        M::U64(k)
                    });
                }
                24 => {
                    if src.below(3) == 0 {
                        name = format!("slot{s}{pd}.retain(not string)");
                        a.retain(|x| !x.is_str());
                        marr!().retain(|x| !matches!(x, M::Str(_)));
                    } else {
                        // a predicate with state: it must be asked exactly once per element, in order
                        // (keep-mask by call number, as in the example of the retain docs)
                        let mask = src.byte() | 1;
                        name = format!("slot{s}{pd}.retain(keep-mask {mask:#010b} by call number)");
                        let mut calls = Vec::new();
                        let mut k = 0u32;
                        a.retain(|x| {
                            calls.push(dump(x));
                            k += 1;
                            (mask >> ((k - 1) % 8)) & 1 == 1
                        });
                        let mut mcalls = Vec::new();
                        let mut k = 0u32;
                        marr!().retain(|x| {
                            mcalls.push(mdump(x));
                            k += 1;
                            (mask >> ((k - 1) % 8)) & 1 == 1
                        });
                        res_eq("retain-calls", calls.join(","), mcalls.join(","), &st.log)?;
                    }
                }
                25 => {
                    name = format!("slot{s}{pd}.retain_mut(drop null, bool -> 0)");
                    a.retain_mut(|x| {
                        if x.is_boolean() {
                            *x = Value::from(0);
                        }
                        !x.is_null()
                    });
                    marr!().retain_mut(|x| {
                        if matches!(x, M::Bool(_)) {
                            *x = M::U64(0);
                        }
                        !matches!(x, M::Null)
                    });
                }
                26 => {
                    let to = src.below(4);
                    name = format!("slot{to} = slot{s}{pd}.split_off({i})");
                    if to == s {
                        return Ok(());
                    }
                    let got = catch(|| a.split_off(i));
                    let v = marr!();
                    match (got, i <= v.len()) {
                        (Ok(tail), true) => {
                            let mt = v.split_off(i);
                            st.slots[to] = Value::from(tail);
                            st.models[to] = M::Arr(mt);
                        }
                        (Err(_), false) => {}
                        (g, w) => fail!("C15/result-mismatch/split_off", "after [{}] split_off({i}) on len {}: panicked={} expected ok={w}", st.log.join("; "), v.len(), g.is_err()),
                    }
                }
                27 => {
                    // append the array in another slot (emptied afterwards)
                    let from = src.below(4);
                    name = format!("slot{s}{pd}.append(slot{from})");
                    if from == s || !matches!(st.models[from], M::Arr(_)) {
                        return Ok(());
                    }
                    // need two mutable borrows: take the other array out first
                    let mut other_v = st.slots[from].take();
                    {
                        let a = st.slots[s].pointer_mut(&path).unwrap().as_array_mut().unwrap();
                        let oa = other_v.as_array_mut().unwrap();
                        a.append(oa);
                    }
                    st.slots[from] = other_v;
                    let mut taken = match std::mem::replace(&mut st.models[from], M::Arr(vec![])) {
                        M::Arr(v) => v,
                        _ => unreachable!(),
                    };
                    marr!().append(&mut taken);
                }
                28 => {
                    let j = i + src.below(3);
                    name = format!("slot{s}{pd}.drain({i}..{j})");
                    let got = real(|| a.drain(i..j).collect::<Vec<Value>>(), |v| v.iter().map(dump).collect::<Vec<_>>().join(","));
                    let v = marr!();
                    let want = if i <= j && j <= v.len() { v.drain(i..j).map(|x| mdump(&x)).collect::<Vec<_>>().join(",") } else { "panic".into() };
                    res_eq("drain", got, want, &st.log)?;
                }
                29 => {
                    name = format!("slot{s}{pd}.extend([value, 1, \"e\"])");
                    let items = vec![uv, Value::from(1), Value::from("e")];
                    a.extend(&items);
                    marr!().extend(vec![um, M::U64(1), M::Str("e".into())]);
                }
                30 => {
                    // forward, empty and reversed ranges, inside and beyond the length (one argument byte)
                    let k = src.below(6);
                    let j = if k < 3 { i + k } else { i.saturating_sub(k - 2) };
                    name = format!("slot{s}{pd}.extend_from_within({i}..{j})");
                    let got = real(|| a.extend_from_within(i..j), |_| "ok".into());
                    let v = marr!();
                    let want = if i <= j && j <= v.len() {
                        v.extend_from_within(i..j);
                        "ok"
                    } else {
                        "panic"
                    };
                    res_eq("extend_from_within", got, want.into(), &st.log)?;
                }
                31 => {
                    name = format!("slot{s}{pd}.iter_mut(): numbers -> \"num\"");
                    for x in a.iter_mut() {
                        if x.is_number() {
                            *x = Value::from("num");
                        }
                    }
                    for x in marr!().iter_mut() {
                        if matches!(x, M::U64(_) | M::I64(_) | M::F64(_)) {
                            *x = M::Str("num".into());
                        }
                    }
                }
                32 => {
                    let j = i + src.below(3);
                    name = format!("slot{s}{pd}[{i}..{j}] read");
                    let got = real(|| a[i..j].iter().map(dump).collect::<Vec<_>>().join(","), |s| s);
                    let v = marr!();
                    let want = if i <= j && j <= v.len() { v[i..j].iter().map(mdump).collect::<Vec<_>>().join(",") } else { "panic".into() };
                    res_eq("slice-index", got, want, &st.log)?;
                    res_eq("len", format!("{}/{}", a.len(), a.is_empty()), format!("{}/{}", v.len(), v.is_empty()), &st.log)?;
                }
                33 => {
                    let variant = src.below(6);
                    if variant >= 2 {
                        // consume some elements from both ends, then finish through a consumer that std
                        // implements on top of fold / try_fold / nth / size_hint, or through a clone of the
                        // iterator: all must see exactly the remaining elements
                        let k = src.below(9); // one argument byte: the operation encoding is fixed-width
                        let (nf, nb) = (k / 3, k % 3);
                        name = format!("slot{s}{pd}.clone().into_iter(): {nf} x next, {nb} x next_back, then consumer {variant}");
                        let mut it = a.clone().into_iter();
                        let mut dq: std::collections::VecDeque<M> = marr!().clone().into();
                        for _ in 0..nf {
                            res_eq("into_iter.next", odump(it.next().as_ref()), omdump(dq.pop_front().as_ref()), &st.log)?;
                        }
                        for _ in 0..nb {
                            res_eq("into_iter.next_back", odump(it.next_back().as_ref()), omdump(dq.pop_back().as_ref()), &st.log)?;
                        }
                        let want: Vec<String> = dq.iter().map(mdump).collect();
                        res_eq("into_iter.len", format!("{:?}", it.size_hint()), format!("{:?}", (want.len(), Some(want.len()))), &st.log)?;
                        let got: Vec<String> = match variant {
                            2 => {
                                let mut v = Vec::new();
                                it.for_each(|x| v.push(dump(&x)));
                                v
                            }
                            3 => {
                                let twin = it.clone();
                                let first: Vec<String> = it.map(|x| dump(&x)).collect();
                                let second: Vec<String> = twin.map(|x| dump(&x)).collect();
                                res_eq("into_iter.clone", second.join(","), want.join(","), &st.log)?;
                                first
                            }
                            4 => {
                                let n = it.clone().count();
                                let last = it.clone().last();
                                res_eq("into_iter.count", n.to_string(), want.len().to_string(), &st.log)?;
                                res_eq("into_iter.last", last.as_ref().map(dump).unwrap_or_default(), want.last().cloned().unwrap_or_default(), &st.log)?;
                                it.rev().map(|x| dump(&x)).collect::<Vec<_>>().into_iter().rev().collect()
                            }
                            _ => {
                                let folded = it.clone().fold(Vec::new(), |mut v, x| {
                                    v.push(dump(&x));
                                    v
                                });
                                res_eq("into_iter.fold", folded.join(","), want.join(","), &st.log)?;
                                let mut v = Vec::new();
                                if let Some(x) = it.nth(1) {
                                    v.push(dump(&x));
                                }
                                let mut w: Vec<String> = want.iter().skip(1).take(1).cloned().collect();
                                std::mem::swap(&mut v, &mut w);
                                res_eq("into_iter.nth", w.join(","), v.join(","), &st.log)?;
                                want.clone()
                            }
                        };
                        res_eq("into_iter.consumer", got.join(","), want.join(","), &st.log)?;
                        st.log.push(name.clone());
                        return st.check_all(&name);
                    }
                    name = format!("slot{s}{pd}.clone().into_iter() next/next_back");
                    let c = a.clone();
                    let mut it = c.into_iter();
                    let mut got = Vec::new();
                    let mut front = true;
                    loop {
                        let x = if front { it.next() } else { it.next_back() };
                        front = !front;
                        match x {
                            Some(x) => got.push(dump(&x)),
                            None => break,
                        }
                    }
                    let v = marr!().clone();
                    let mut dq: std::collections::VecDeque<M> = v.into();
                    let mut want = Vec::new();
                    let mut front = true;
                    loop {
                        let x = if front { dq.pop_front() } else { dq.pop_back() };
                        front = !front;
                        match x {
                            Some(x) => want.push(mdump(&x)),
                            None => break,
                        }
                    }
                    res_eq("into_iter", got.join(","), want.join(","), &st.log)?;
                }
                34 => {
                    name = format!("slot{s}{pd}[{i}] = value (Array IndexMut)");
                    let got = real(|| a[i] = uv.clone(), |_| "ok".into());
                    let v = marr!();
                    let want = if i < v.len() {
                        v[i] = um;
                        "ok"
                    } else {
                        "panic"
                    };
                    res_eq("Array::index_mut", got, want.into(), &st.log)?;
                }
                _ => {
                    name = format!("slot{s}{pd}.push(clone of itself)");
                    let c = Value::from(a.clone());
                    a.push(c);
                    let v = marr!();
                    let c = M::Arr(v.clone());
                    v.push(c);
                }
            }
        }
        // ------------------------------------------------------------------ object operations
        15..=61 if kind == 2 => {
            let key = if src.chance(130) {
                // an existing key
                match m_at(&st.models[s], &path) {
                    Some(M::Obj(v)) if !v.is_empty() => v[src.below(v.len())].0.clone(),
                    _ => KEYS[src.below(KEYS.len())].to_string(),
                }
            } else {
                KEYS[src.below(KEYS.len())].to_string()
            };
            let key = key.as_str();
            let o = target!().as_object_mut().ok_or_else(|| Fail::new("C15/as_object_mut-none", format!("after [{}] as_object_mut is None for an object", st.log.join("; "))))?;
            mutating = true;
            match op % 24 {
                0 => {
                    name = format!("slot{s}{pd}.insert({key:?}, value)");
                    let got = o.insert(key, uv);
                    let want = obj_insert(mobj!(), key, um);
                    res_eq("insert", odump(got.as_ref()), omdump(want.as_ref()), &st.log)?;
                }
                1 => {
                    name = format!("slot{s}{pd}.remove({key:?})");
                    let got = o.remove(&key);
                    let want = obj_remove(mobj!(), key);
                    res_eq("remove", odump(got.as_ref()), omdump(want.as_ref()), &st.log)?;
                }
                2 => {
                    name = format!("slot{s}{pd}.remove_entry({key:?})");
                    let got = o.remove_entry(&key).map(|(k, v)| format!("{k:?}={}", dump(&v)));
                    let want = obj_remove(mobj!(), key).map(|v| format!("{key:?}={}", mdump(&v)));
                    res_eq("remove_entry", format!("{got:?}"), format!("{want:?}"), &st.log)?;
                }
                3 => {
                    name = format!("slot{s}{pd} reads for {key:?}");
                    let v = mobj!();
                    res_eq("get", odump(o.get(&key)), omdump(obj_get(v, key)), &st.log)?;
                    res_eq("contains_key", format!("{}", o.contains_key(&key)), format!("{}", obj_get(v, key).is_some()), &st.log)?;
                    res_eq("get_key_value", format!("{:?}", o.get_key_value(&key).map(|(k, x)| (k.to_string(), dump(x)))), format!("{:?}", obj_get(v, key).map(|x| (key.to_string(), mdump(x)))), &st.log)?;
                    res_eq("len", format!("{}/{}", o.len(), o.is_empty()), format!("{}/{}", v.len(), v.is_empty()), &st.log)?;
                    let mut got: Vec<String> = o.iter().map(|(k, x)| format!("{k:?}:{}", dump(x))).collect();
                    got.sort();
                    let mut want: Vec<String> = v.iter().map(|(k, x)| format!("{k:?}:{}", mdump(x))).collect();
                    want.sort();
                    res_eq("iter", got.join(","), want.join(","), &st.log)?;
                    // Object indexing follows the std maps: a missing key panics
                    res_eq("Index", real(|| dump(&o[key]), |s| s), obj_get(v, key).map(mdump).unwrap_or_else(|| "panic".into()), &st.log)?;
                }
                4 => {
                    name = format!("slot{s}{pd}.get_mut({key:?}) = value");
                    let got = o.get_mut(&key).map(|x| *x = uv).is_some();
                    let want = mobj!().iter_mut().find(|(k, _)| k == key).map(|(_, x)| *x = um).is_some();
                    res_eq("get_mut", format!("{got}"), format!("{want}"), &st.log)?;
                }
                5 => {
                    name = format!("slot{s}{pd}.clear()");
                    o.clear();
                    mobj!().clear();
                }
                6 => {
                    name = format!("slot{s}{pd}.retain(value not null, numbers -> true)");
                    o.retain(|_, x| {
                        if x.is_number() {
                            *x = Value::from(true);
                        }
                        !x.is_null()
                    });
                    mobj!().retain_mut(|(_, x)| {
                        if matches!(x, M::U64(_) | M::I64(_) | M::F64(_)) {
                            *x = M::Bool(true);
                        }
                        !matches!(x, M::Null)
                    });
                }
                7 => {
                    let from = src.below(4);
                    name = format!("slot{s}{pd}.append(slot{from})");
                    if from == s || !matches!(st.models[from], M::Obj(_)) {
                        return Ok(());
                    }
                    let mut other_v = st.slots[from].take();
                    {
                        let o = st.slots[s].pointer_mut(&path).unwrap().as_object_mut().unwrap();
                        let oo = other_v.as_object_mut().unwrap();
                        o.append(oo);
                    }
                    st.slots[from] = other_v;
                    let taken = match std::mem::replace(&mut st.models[from], M::Obj(vec![])) {
                        M::Obj(v) => v,
                        _ => unreachable!(),
                    };
                    let v = mobj!();
                    for (k, x) in taken {
                        obj_insert(v, &k, x);
                    }
                }
                8 => {
                    name = format!("slot{s}{pd}.extend([({key:?}, value), (\"ext\", 1)])");
                    let one = Value::from(1);
                    let ks = (key.to_string(), "ext".to_string());
                    o.extend(vec![(&ks.0, &uv), (&ks.1, &one)]);
                    let v = mobj!();
                    obj_insert(v, key, um);
                    obj_insert(v, "ext", M::U64(1));
                }
                9 => {
                    name = format!("slot{s}{pd}.iter_mut(): strings -> null");
                    for (_, x) in o.iter_mut() {
                        if x.is_str() {
                            *x = Value::new_null();
                        }
                    }
                    for (_, x) in mobj!().iter_mut() {
                        if matches!(x, M::Str(_)) {
                            *x = M::Null;
                        }
                    }
                }
                10 => {
                    name = format!("slot{s}{pd}[{key:?}] = value (Object IndexMut)");
                    o[key] = uv;
                    obj_insert(mobj!(), key, um);
                }
                11 => {
                    name = format!("slot{s}{pd}.entry({key:?}).or_insert(value)");
                    let e = o.entry(&key);
                    res_eq("entry.key", e.key().to_string(), key.to_string(), &st.log)?;
                    let r = dump(e.or_insert(uv));
                    let v = mobj!();
                    if obj_get(v, key).is_none() {
                        v.push((key.to_string(), um));
                    }
                    res_eq("or_insert", r, mdump(obj_get(v, key).unwrap()), &st.log)?;
                }
                12 => {
                    name = format!("slot{s}{pd}.entry({key:?}).or_insert_with(..)");
                    let r = dump(o.entry(&key).or_insert_with(|| uv.clone()));
                    let v = mobj!();
                    if obj_get(v, key).is_none() {
                        v.push((key.to_string(), um));
                    }
                    res_eq("or_insert_with", r, mdump(obj_get(v, key).unwrap()), &st.log)?;
                }
                13 => {
                    name = format!("slot{s}{pd}.entry({key:?}).or_insert_with_key(..)");
                    let r = dump(o.entry(&key).or_insert_with_key(|k| Value::from(k)));
                    let v = mobj!();
                    if obj_get(v, key).is_none() {
                        v.push((key.to_string(), M::Str(key.to_string())));
                    }
                    res_eq("or_insert_with_key", r, mdump(obj_get(v, key).unwrap()), &st.log)?;
                }
                14 => {
                    name = format!("slot{s}{pd}.entry({key:?}).or_default()");
                    let r = dump(o.entry(&key).or_default());
                    let v = mobj!();
                    if obj_get(v, key).is_none() {
                        v.push((key.to_string(), M::Null));
                    }
                    res_eq("or_default", r, mdump(obj_get(v, key).unwrap()), &st.log)?;
                }
                15 => {
                    name = format!("slot{s}{pd}.entry({key:?}).and_modify(= value).or_insert(\"fresh\")");
                    let r = dump(o.entry(&key).and_modify(|x| *x = uv.clone()).or_insert("fresh"));
                    let v = mobj!();
                    match v.iter_mut().find(|(k, _)| k == key) {
                        Some((_, x)) => *x = um,
                        None => v.push((key.to_string(), M::Str("fresh".into()))),
                    }
                    res_eq("and_modify", r, mdump(obj_get(v, key).unwrap()), &st.log)?;
                }
                16..=20 => {
                    let which = op % 24;
                    name = format!("slot{s}{pd}.entry({key:?}) occupied/vacant op {which}");
                    let v = mobj!();
                    match o.entry(&key) {
                        sonic_rs::value::object::Entry::Occupied(mut e) => {
                            ensure!(obj_get(v, key).is_some(), "C15/result-mismatch/entry-kind", "after [{}] entry({key:?}) is Occupied but the model has no such key", st.log.join("; "));
                            res_eq("Occupied::get", dump(e.get()), mdump(obj_get(v, key).unwrap()), &st.log)?;
                            match which {
                                16 => {
                                    *e.get_mut() = uv;
                                    obj_insert(v, key, um);
                                }
                                17 => {
                                    let old = e.insert(uv);
                                    let mold = obj_insert(v, key, um).unwrap();
                                    res_eq("Occupied::insert", dump(&old), mdump(&mold), &st.log)?;
                                }
                                18 => {
                                    let old = e.remove();
                                    let mold = obj_remove(v, key).unwrap();
                                    res_eq("Occupied::remove", dump(&old), mdump(&mold), &st.log)?;
                                }
                                _ => {
                                    *e.into_mut() = uv;
                                    obj_insert(v, key, um);
                                }
                            }
                        }
                        sonic_rs::value::object::Entry::Vacant(e) => {
                            ensure!(obj_get(v, key).is_none(), "C15/result-mismatch/entry-kind", "after [{}] entry({key:?}) is Vacant but the model has the key", st.log.join("; "));
                            res_eq("Vacant::key", e.key().to_string(), key.to_string(), &st.log)?;
                            if which != 18 {
                                let r = dump(e.insert(uv));
                                res_eq("Vacant::insert", r, mdump(&um), &st.log)?;
                                v.push((key.to_string(), um));
                            }
                        }
                    }
                }
                21 => {
                    name = format!("slot{s}{pd}.entry({key:?}).key()");
                    let e = o.entry(&key);
                    res_eq("Entry::key", e.key().to_string(), key.to_string(), &st.log)?;
                }
                _ => {
                    name = format!("slot{s}{pd}.insert({key:?}, clone of itself)");
                    let c = Value::from(o.clone());
                    o.insert(key, c);
                    let v = mobj!();
                    let c = M::Obj(v.clone());
                    obj_insert(v, key, c);
                }
            }
        }
        _ => {
            // operation not applicable to this target kind: kind-mismatch probes
            name = format!("slot{s}{pd} kind probes");
            let t = target!();
            if kind != 1 {
                ensure!(t.as_array_mut().is_none(), "C15/result-mismatch/as_array_mut", "as_array_mut is Some for a non-array");
            }
            if kind != 2 {
                ensure!(t.as_object_mut().is_none(), "C15/result-mismatch/as_object_mut", "as_object_mut is Some for a non-object");
            }
            mutating = false;
        }
    }
    if mutating && (st.shared || parsed_child) {
        st.nontrivial = true;
    }
    st.log.push(name.clone());
    st.check_all(&name)
}

pub fn subs() -> Vec<Sub<'static>> {
    vec![Sub { name: "histories", oracle: &oracle, minimise_bytes: false }, Sub { name: "short-exhaustive", oracle: &oracle, minimise_bytes: false }]
}

pub fn run(ctx: &Ctx) {
    let subs = subs();
    ctx.search(&subs[0], "random", ctx.n(2_400_000, 19_200_000), 260, &|src: &mut Src| src.rest().to_vec());
    // bounded-exhaustive: every sequence of <= `depth` operations where each operation is chosen
    // from a finite universe of (slot, path, operation, argument) bytes, over two fixed initial
    // heaps. An operation is encoded in 11 bytes: slot, path depth, 3 path choices, operation,
    // value-universe index, 4 argument bytes.
    let quick = ctx.quick();
    ctx.sweep(&subs[1], true, &|shard, n, emit| {
        let full_ops: Vec<u8> = (0..62u16).map(|o| ((o * 256 + 255) / 62) as u8).collect();
        let mut_ops: Vec<u8> = [4u16, 5, 7, 11, 15, 16, 17, 18, 19, 20, 22, 24, 26, 27, 28, 30, 35, 39, 40, 41, 46, 47, 48, 50, 55, 56, 57].iter().map(|o| ((o * 256 + 255) / 62) as u8).collect();
        // (operation universe, slots, (depth, choice) pairs, argument bytes, sequence length)
        let levels: Vec<(&Vec<u8>, Vec<u8>, Vec<(u8, u8)>, Vec<u8>, usize)> = if quick {
            vec![(&full_ops, vec![0, 90], vec![(0, 0), (70, 0), (70, 200), (140, 100)], vec![0, 120, 250], 1), (&full_ops, vec![0, 90], vec![(0, 0), (70, 0), (140, 100)], vec![0, 250], 2)]
        } else {
            vec![(&full_ops, vec![0, 90, 160], vec![(0, 0), (70, 0), (70, 200), (140, 100), (140, 220)], vec![0, 120, 250], 2), (&mut_ops, vec![0, 90], vec![(0, 0), (70, 0), (140, 100)], vec![120], 3)]
        };
        let mut k = 0usize;
        for (ops, slots_b, paths, args, depth) in &levels {
            let mut one: Vec<Vec<u8>> = Vec::new();
            for &sb in slots_b {
                for &(pd, pc) in paths {
                    for &ob in ops.iter() {
                        for &ab in args {
                            one.push(vec![sb, pd, pc, pc, pc, ob, ab, ab, ab, ab, ab]);
                        }
                    }
                }
            }
            for init in 0..2u8 {
                let header: Vec<u8> = if init == 0 { vec![255, 0, 255, 70, 0, 200, 0, 60] } else { vec![255, 30, 0, 100, 255, 160, 255, 140] };
                let mut idx = vec![0usize; *depth];
                'outer: loop {
                    k += 1;
                    if k % n == shard {
                        let mut c = header.clone();
                        c.push((((*depth - 1) * 256 + 255) / 24) as u8);
                        for &i in &idx {
                            c.extend_from_slice(&one[i]);
                        }
                        if !emit(&c) {
                            return;
                        }
                    }
                    // next index vector
                    let mut d = 0;
                    loop {
                        idx[d] += 1;
                        if idx[d] < one.len() {
                            break;
                        }
                        idx[d] = 0;
                        d += 1;
                        if d == *depth {
                            break 'outer;
                        }
                    }
                }
            }
        }
    });
}
