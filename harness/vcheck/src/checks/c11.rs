//! C11 — multi-path and schema extraction agree with single-path get.

use sonic_rs::{PointerNode, PointerTree, Value};
use vbase::engine::{Ctx, Fail, Obs, Src, Sub};
use vbase::gens::{self, DocParams};
use vbase::refjson::{self, path_to_string, show_bytes, Kind, Node, PathElem, M};
use vbase::{ensure, fail};

use crate::lazyhelp::{gen_skip_stress, to_pointer};
use crate::sx::walk;

pub const RULE: &str = "cases are (document, path set) and (schema, document) pairs. Documents: well-formed duplicate-free generated / skip-stress documents arrays of 65..200 elements (indices >= 64), documents nested 120..800 levels deep with the targets at the bottom (paths longer than the 255-level limit of the full parsers), objects with up to 120 empty-object members in front of a value nested 200..253 levels deep. Path sets: drawn from the reference tree by generated choices — subsets of valid paths, shared prefixes, a path that is a prefix of another, repeated paths, the root path, missing keys under objects and out-of-range indices under arrays (shape-consistent by construction). get_many and get_many_unchecked must return tree.size() slots in insertion order; a filled slot equals get(path_i) in text and offset, and in everything else a caller can read (as_str of the slot, of a copy of it and of get's result, also against the reference decoding; get_type; both converted into OwnedLazyValue, read and serialized); an empty slot only for a path that fails on a missing key; all slots filled and Ok when every path resolves; equal paths get identical slots; Err only if some path does not resolve. Schemas are generated from the document's object skeleton (kept keys with defaults of every kind, absent keys, nested non-empty and empty object schemas, type-mismatched positions); get_by_schema must equal the reference merge (order-insensitive) and, with numbers compared through as_raw_number, the merge of the parsed document into the schema (so in the arbitrary_precision build the literals are kept). Non-trivial = >= 2 paths sharing a prefix, a repeated path or a prefix-and-target pair; schema with an absent key and a nested non-empty object; distinct by case bytes.";
pub const ASSUMPTIONS: &[&str] = &["refjson parser / lookup", "path sets mixing key and index children under one prefix are outside the quantifier and not generated", "get (single path) is checked against the reference in C10"];

fn split_case(case: &[u8]) -> Option<(&[u8], &[u8])> {
    if case.len() < 2 {
        return None;
    }
    let n = ((case[0] as usize) << 8) | case[1] as usize;
    if case.len() < 2 + n {
        return None;
    }
    Some((&case[2..2 + n], &case[2 + n..]))
}

fn join_case(doc: &[u8], rest: &[u8]) -> Vec<u8> {
    let mut c = vec![(doc.len() >> 8) as u8, doc.len() as u8];
    c.extend_from_slice(doc);
    c.extend_from_slice(rest);
    c
}

/// choose a shape-consistent path set from the reference tree
fn choose_paths(root: &Node, src: &mut Src) -> Vec<Vec<PathElem>> {
    let mut all = root.all_paths(48);
    // wide containers: the cap above never reaches their far end
    if let Some(last) = root.last_paths(6) {
        all.extend(last);
    }
    for p in all.clone().iter().take(48) {
        if let Some(Kind::Arr(v)) = root.lookup(p).map(|n| &n.kind) {
            if v.len() > 64 {
                for i in [64, 65, 63, v.len() - 1, 64 + (v.len() - 64) / 2, 127.min(v.len() - 1), 128.min(v.len() - 1)] {
                    let mut q = p.clone();
                    q.push(PathElem::Idx(i));
                    if let Some(Kind::Arr(w)) = root.lookup(&q).map(|n| &n.kind) {
                        if !w.is_empty() {
                            let mut r = q.clone();
                            r.push(PathElem::Idx(w.len() - 1));
                            all.push(r);
                        }
                    }
                    all.push(q);
                }
            }
        }
    }
    // very deep documents: the path to the innermost value and its neighbours (longer than any nesting limit
    // of the full parsers — lookups walk a path without counting nesting)
    {
        let mut deep: Vec<PathElem> = Vec::new();
        let mut node = root;
        loop {
            match &node.kind {
                Kind::Arr(v) if !v.is_empty() => {
                    deep.push(PathElem::Idx(v.len() - 1));
                    node = &v[v.len() - 1];
                }
                Kind::Obj(v) if !v.is_empty() => {
                    deep.push(PathElem::Key(v[v.len() - 1].0.text.clone()));
                    node = &v[v.len() - 1].1;
                }
                _ => break,
            }
        }
        if deep.len() > 200 {
            // a single-path lookup validates the value it returns, which is subject to the 255-level limit of
            // the validating skipper: keep only paths whose target nests at most 200 levels
            let total = deep.len();
            all.retain(|p| total - p.len().min(total) <= 200);
        }
        if deep.len() > 100 {
            all.push(deep.clone());
            all.push(deep[..deep.len() - 1].to_vec());
            all.push(deep[..deep.len() - 2].to_vec());
            let mut q = deep[..deep.len() - 1].to_vec();
            q.push(PathElem::Key("\u{a7}absent".into()));
            if matches!(root.lookup(&deep[..deep.len() - 1]).map(|n| &n.kind), Some(Kind::Obj(_))) {
                all.push(q);
            }
            // make sure they are used: put them first
            all.rotate_right(4);
        }
    }
    let n = 1 + src.below(7);
    let mut out: Vec<Vec<PathElem>> = Vec::new();
    for _ in 0..n {
        let style = src.below(10);
        match style {
            0 if !out.is_empty() => {
                // repeat an earlier path
                let i = src.below(out.len());
                out.push(out[i].clone());
            }
            1 if !out.is_empty() => {
                // a proper prefix of an earlier path
                let i = src.below(out.len());
                let l = out[i].len();
                if l > 0 {
                    let cut = src.below(l);
                    out.push(out[i][..cut].to_vec());
                    continue;
                }
                out.push(Vec::new());
            }
            2 => out.push(Vec::new()), // root path
            3 | 4 => {
                // missing key / out-of-range index under a container of the right kind
                let p = all[src.below(all.len())].clone();
                if let Some(nd) = root.lookup(&p) {
                    let mut q = p.clone();
                    match &nd.kind {
                        Kind::Obj(_) => q.push(PathElem::Key(format!("\u{a7}absent{}", src.below(3)))),
                        Kind::Arr(v) => q.push(PathElem::Idx(v.len() + src.below(3))),
                        _ => {}
                    }
                    out.push(q);
                }
            }
            _ => out.push(all[src.below(all.len())].clone()),
        }
    }
    // shape consistency: under one prefix all children must be of one kind (key or index).
    // Paths from the tree satisfy this; perturbed ones extend a container with its own kind.
    // (very deep documents: see above, only targets that nest at most 200 levels)
    let total = {
        let mut d = 0usize;
        let mut node = root;
        loop {
            match &node.kind {
                Kind::Arr(v) if !v.is_empty() => node = &v[v.len() - 1],
                Kind::Obj(v) if !v.is_empty() => node = &v[v.len() - 1].1,
                _ => break,
            }
            d += 1;
        }
        d
    };
    if total > 200 {
        out.retain(|p| total - p.len().min(total) <= 200);
    }
    out
}

fn nontrivial_set(paths: &[Vec<PathElem>]) -> bool {
    for (i, a) in paths.iter().enumerate() {
        for b in paths.iter().skip(i + 1) {
            if a == b {
                return true;
            }
            let common = a.iter().zip(b.iter()).take_while(|(x, y)| x == y).count();
            if common >= 1 || a.is_empty() || b.is_empty() {
                return true;
            }
        }
    }
    false
}

pub fn oracle_many(case: &[u8], obs: &mut Obs) -> Result<(), Fail> {
    let Some((doc, choices)) = split_case(case) else { return Ok(()) };
    let Ok((root, sum)) = refjson::parse(doc) else { fail!("C11/generator", "malformed document from generator: {:?}", show_bytes(doc, 200)) };
    let Ok(s) = std::str::from_utf8(doc) else { return Ok(()) };
    if !(sum.scalars_ok && sum.finite_ok) || sum.has_dup_keys {
        return Ok(());
    }
    let mut src = Src::new(choices);
    let paths = choose_paths(&root, &mut src);
    obs.render = Some(format!("doc={} paths={}", show_bytes(doc, 300), paths.iter().map(|p| path_to_string(p)).collect::<Vec<_>>().join(" ")));
    if paths.len() >= 2 && nontrivial_set(&paths) {
        obs.nt();
    }
    let mut tree = PointerTree::new();
    for p in &paths {
        let ptr: Vec<PointerNode> = to_pointer(p);
        tree.add_path(ptr.iter());
    }
    ensure!(tree.size() == paths.len(), "C11/many/tree-size", "PointerTree::size() = {} after adding {} paths", tree.size(), paths.len());
    let resolves: Vec<Option<&Node>> = paths.iter().map(|p| root.lookup(p)).collect();
    let all_resolve = resolves.iter().all(|r| r.is_some());
    obs.label(if all_resolve { "all-resolve" } else { "some-missing" });
    for (api, res) in [("get_many", sonic_rs::get_many(s, &tree)), ("get_many(&[u8])", sonic_rs::get_many(doc, &tree)), ("get_many_unchecked", unsafe { sonic_rs::get_many_unchecked(s, &tree) })] {
        let class = if api.contains("unchecked") { "unchecked" } else { "checked" };
        match res {
            Err(e) => {
                ensure!(!all_resolve, format!("C11/many/{class}/fails-although-all-resolve"), "{api} failed although every path resolves: {}; {}", e.to_string().lines().next().unwrap_or(""), obs.render.clone().unwrap_or_default());
            }
            Ok(slots) => {
                ensure!(slots.len() == paths.len(), format!("C11/many/{class}/slot-count"), "{api} returned {} slots for {} paths; {}", slots.len(), paths.len(), obs.render.clone().unwrap_or_default());
                for (i, slot) in slots.iter().enumerate() {
                    match (slot, resolves[i]) {
                        (Some(lv), Some(n)) => {
                            let raw = lv.as_raw_str();
                            ensure!(raw.as_bytes() == n.span.of(doc), format!("C11/many/{class}/wrong-span"), "{api} slot {i} ({}) = {:?}, expected {:?}; {}", path_to_string(&paths[i]), refjson::trunc(raw, 100), show_bytes(n.span.of(doc), 100), obs.render.clone().unwrap_or_default());
                            if api != "get_many(&[u8])" {
                                let off = (raw.as_ptr() as usize).wrapping_sub(s.as_ptr() as usize);
                                ensure!(off == n.span.start, format!("C11/many/{class}/wrong-offset"), "{api} slot {i} points at offset {off}, expected {}", n.span.start);
                            }
                            // and equals single-path get
                            let ptr = to_pointer(&paths[i]);
                            let g = sonic_rs::get(s, &ptr).map_err(|e| Fail::new(format!("C11/many/{class}/get-disagrees"), format!("get({}) fails but {api} filled the slot: {e}", path_to_string(&paths[i]))))?;
                            ensure!(g.as_raw_str() == raw, format!("C11/many/{class}/get-disagrees"), "{api} slot {i} differs from get({})", path_to_string(&paths[i]));
                            // "exactly what get returns": everything a caller can read from the slot, from a copy of
                            // it and from its owned conversion equals the same reading of get's result (and the
                            // reference decoding for a string target)
                            {
                                use sonic_rs::{JsonValueTrait, OwnedLazyValue};
                                let copy = lv.clone();
                                let (a, b, c) = (lv.as_str(), copy.as_str(), g.as_str());
                                ensure!(a == c && b == c, format!("C11/many/{class}/get-disagrees-decoded"), "{api} slot {i} ({}): as_str = {:?}, as_str of a copy = {:?}, but get(..).as_str() = {:?}; {}", path_to_string(&paths[i]), a, b, c, obs.render.clone().unwrap_or_default());
                                if let Kind::Str(lit) = &n.kind {
                                    if lit.scalars_ok {
                                        ensure!(a == Some(lit.text.as_str()), format!("C11/many/{class}/wrong-decoded-text"), "{api} slot {i} ({}): as_str = {:?}, the literal denotes {:?}; {}", path_to_string(&paths[i]), a, lit.text, obs.render.clone().unwrap_or_default());
                                    }
                                }
                                ensure!(lv.get_type() == g.get_type() && lv.is_str() == g.is_str(), format!("C11/many/{class}/get-disagrees-type"), "{api} slot {i} ({}): type {:?}, get reports {:?}", path_to_string(&paths[i]), lv.get_type(), g.get_type());
                                let (o1, o2) = (OwnedLazyValue::from(lv.clone()), OwnedLazyValue::from(g.clone()));
                                let (t1, t2) = (sonic_rs::to_string(&o1).ok(), sonic_rs::to_string(&o2).ok());
                                ensure!(o1.as_str() == o2.as_str() && t1 == t2, format!("C11/many/{class}/get-disagrees-owned"), "{api} slot {i} ({}): converted into an OwnedLazyValue it reads {:?} / {:?}, get's result {:?} / {:?}; {}", path_to_string(&paths[i]), o1.as_str(), t1, o2.as_str(), t2, obs.render.clone().unwrap_or_default());
                            }
                        }
                        (Some(lv), None) => fail!(format!("C11/many/{class}/filled-for-missing"), "{api} slot {i} ({}) = {:?} but the path does not resolve; {}", path_to_string(&paths[i]), refjson::trunc(lv.as_raw_str(), 100), obs.render.clone().unwrap_or_default()),
                        (None, Some(_)) => fail!(format!("C11/many/{class}/empty-for-present"), "{api} slot {i} ({}) is empty but the path resolves; {}", path_to_string(&paths[i]), obs.render.clone().unwrap_or_default()),
                        (None, None) => {
                            // an empty slot must correspond to a missing *key*
                            let p = &paths[i];
                            let parent_is_obj = p.split_last().map(|(last, pre)| matches!(last, PathElem::Key(_)) && matches!(root.lookup(pre).map(|n| &n.kind), Some(Kind::Obj(_)))).unwrap_or(false);
                            // the miss may also lie higher up the path; accept any missing key on the way
                            let mut ok = parent_is_obj;
                            for cut in 0..p.len() {
                                if root.lookup(&p[..cut]).is_some() && root.lookup(&p[..=cut]).is_none() {
                                    ok = matches!(p[cut], PathElem::Key(_)) && matches!(root.lookup(&p[..cut]).map(|n| &n.kind), Some(Kind::Obj(_)));
                                    break;
                                }
                            }
                            ensure!(ok, format!("C11/many/{class}/empty-slot-not-missing-key"), "{api} returned Ok with an empty slot {i} for {} which does not fail on a missing key; {}", path_to_string(p), obs.render.clone().unwrap_or_default());
                        }
                    }
                }
                if all_resolve {
                    ensure!(slots.iter().all(|x| x.is_some()), format!("C11/many/{class}/not-all-filled"), "{api}: every path resolves but a slot is empty");
                }
            }
        }
    }
    Ok(())
}

// ---- get_by_schema ------------------------------------------------------------------------

fn default_text(src: &mut Src) -> String {
    src.pick(&["null", "true", "0", "-1.5", "\"dflt\"", "[]", "[1,2]", "{}", "{\"zz\":1}", "\"\""]).to_string()
}

/// schema text generated from the document node (objects only drive structure)
fn gen_schema(n: &Node, src: &mut Src, depth: usize) -> String {
    match &n.kind {
        Kind::Obj(v) if depth < 4 => {
            let mut parts: Vec<String> = Vec::new();
            for (k, x) in v {
                let key = serde_json::to_string(&k.text).unwrap();
                match src.below(6) {
                    0 => {} // key dropped from the schema
                    1 | 2 => parts.push(format!("{key}:{}", default_text(src))),
                    3 => parts.push(format!("{key}:{}", gen_schema(x, src, depth + 1))),
                    4 => parts.push(format!("{key}:{{}}")),
                    _ => parts.push(format!("{key}:{{\"\u{a7}absent\":7}}")), // non-empty object schema vs whatever is there
                }
            }
            let extra = src.below(3);
            for i in 0..extra {
                parts.push(format!("\"\u{a7}extra{i}\":{}", default_text(src)));
            }
            if src.chance(40) {
                parts.reverse();
            }
            format!("{{{}}}", parts.join(","))
        }
        _ => default_text(src),
    }
}

/// reference merge
fn merge(schema: &Node, st: &[u8], doc: &Node, dt: &[u8]) -> M {
    match (&schema.kind, &doc.kind) {
        (Kind::Obj(sv), Kind::Obj(dv)) if !sv.is_empty() => {
            let mut out: Vec<(String, M)> = Vec::new();
            for (k, sx) in sv {
                if out.iter().any(|(kk, _)| *kk == k.text) {
                    continue;
                }
                match dv.iter().find(|(dk, _)| dk.text == k.text) {
                    Some((_, dx)) => out.push((k.text.clone(), merge(sx, st, dx, dt))),
                    None => out.push((k.text.clone(), sx.model(st, false))),
                }
            }
            M::Obj(out)
        }
        _ => doc.model(dt, false),
    }
}

fn norm_neg_zero(m: &M) -> M {
    // `-0` integer literal may be kept as 0 or -0.0 (C07 reading); normalise both to F64(-0.0)… only
    // for comparison purposes: map U64(0)/I64(0) and F64(±0) to one representative
    match m {
        M::U64(0) | M::I64(0) => M::Str("<zero>".into()),
        M::F64(b) if f64::from_bits(*b) == 0.0 => M::Str("<zero>".into()),
        M::Arr(v) => M::Arr(v.iter().map(norm_neg_zero).collect()),
        M::Obj(v) => M::Obj(v.iter().map(|(k, x)| (k.clone(), norm_neg_zero(x))).collect()),
        x => x.clone(),
    }
}

pub fn oracle_schema(case: &[u8], obs: &mut Obs) -> Result<(), Fail> {
    let Some((doc, choices)) = split_case(case) else { return Ok(()) };
    let Ok((root, sum)) = refjson::parse(doc) else { fail!("C11/generator", "malformed document from generator") };
    let Ok(s) = std::str::from_utf8(doc) else { return Ok(()) };
    if !(sum.scalars_ok && sum.finite_ok) || sum.has_dup_keys {
        return Ok(());
    }
    let mut src = Src::new(choices);
    let mut schema_text = gen_schema(&root, &mut src, 0);
    if !schema_text.starts_with('{') {
        schema_text = format!("{{\"\u{a7}only\":{schema_text}}}");
    }
    let (sroot, _) = refjson::parse(schema_text.as_bytes()).map_err(|e| Fail::new("C11/generator", format!("schema text malformed: {} {schema_text}", e.reason)))?;
    obs.render = Some(format!("schema={} doc={}", refjson::trunc(&schema_text, 300), show_bytes(doc, 300)));
    let has_absent = schema_text.contains('\u{a7}');
    let nested = schema_text[1..].contains("{\"");
    if has_absent && nested {
        obs.nt();
    }
    let schema: Value = sonic_rs::from_str(&schema_text).map_err(|e| Fail::new("C11/generator", format!("schema does not parse: {e}")))?;
    let want = merge(&sroot, schema_text.as_bytes(), &root, doc);
    let got = sonic_rs::get_by_schema(s, schema.clone()).map_err(|e| Fail::new("C11/schema/fails", format!("get_by_schema failed on a well-formed document: {}; {}", e.to_string().lines().next().unwrap_or(""), obs.render.clone().unwrap_or_default())))?;
    let g = norm_neg_zero(&walk(&got, false)).sorted();
    let w = norm_neg_zero(&want).sorted();
    ensure!(g == w, "C11/schema/wrong-result", "get_by_schema = {}, expected {}; {}", refjson::trunc(&g.dump(), 300), refjson::trunc(&w.dump(), 300), obs.render.clone().unwrap_or_default());
    // the replaced members are the document's values in the representation a parse of the document
    // gives them (raw number literals in the arbitrary_precision build): merge on the DOM and compare
    // with numbers reported through as_raw_number
    let dom: Value = sonic_rs::from_str(s).map_err(|e| Fail::new("C11/generator", format!("document does not parse: {e}")))?;
    fn dom_merge(schema: &Value, doc: &Value) -> Value {
        use sonic_rs::JsonContainerTrait;
        match (schema.as_object(), doc.as_object()) {
            (Some(so), Some(d)) if !so.is_empty() => {
                let mut out = sonic_rs::Object::new();
                for (k, sx) in so.iter() {
                    match d.get(&k) {
                        Some(dx) => out.insert(&k, dom_merge(sx, dx)),
                        None => out.insert(&k, sx.clone()),
                    };
                }
                Value::from(out)
            }
            _ => doc.clone(),
        }
    }
    let want_dom = dom_merge(&schema, &dom);
    let (gr, wr) = (walk(&got, true).sorted(), walk(&want_dom, true).sorted());
    ensure!(gr == wr, "C11/schema/representation", "get_by_schema = {}, but merging the parsed document into the schema gives {}; {}", refjson::trunc(&gr.dump(), 300), refjson::trunc(&wr.dump(), 300), obs.render.clone().unwrap_or_default());
    // the byte-slice carrier gives the same result
    let got2 = sonic_rs::get_by_schema(doc, schema).map_err(|e| Fail::new("C11/schema/fails", format!("get_by_schema(&[u8]) failed: {e}")))?;
    ensure!(got2 == got, "C11/schema/carriers-disagree", "get_by_schema over &str and &[u8] differ; {}", obs.render.clone().unwrap_or_default());
    Ok(())
}

pub fn subs() -> Vec<Sub<'static>> {
    vec![Sub { name: "get_many", oracle: &oracle_many, minimise_bytes: false }, Sub { name: "schema", oracle: &oracle_schema, minimise_bytes: false }]
}

pub fn run(ctx: &Ctx) {
    let subs = subs();
    let p = DocParams { ws: 2, max_depth: 5, max_items: 6, ..DocParams::default() };
    for (label, stress) in [("generated", false), ("skip-stress", true)] {
        let pc = p.clone();
        ctx.search(&subs[0], label, ctx.n(1_800_000, 14_400_000), 900, &move |src: &mut Src| {
            let doc = if stress { gen_skip_stress(src, &pc) } else { gens::gen_container_doc(src, &pc) };
            let doc = if doc.len() > 60_000 { b"[1,2]".to_vec() } else { doc };
            let rest = src.take(24);
            join_case(&doc, &rest)
        });
    }
    // wide arrays: indices beyond 64, alone and next to siblings congruent modulo 64
    ctx.search(&subs[0], "wide-arrays", ctx.n(180_000, 1_440_000), 300, &|src: &mut Src| {
        let n = *src.pick(&[65usize, 66, 70, 100, 129, 130, 200]);
        let mut doc = if src.bool() { b"[".to_vec() } else { b"{\"a\":[".to_vec() };
        let obj = doc[0] == b'{';
        for i in 0..n {
            if i > 0 {
                doc.push(b',');
            }
            match src.below(5) {
                0 => doc.extend_from_slice(format!("[{i},{i}]").as_bytes()),
                1 => doc.extend_from_slice(format!("{{\"i\":{i}}}").as_bytes()),
                2 => doc.extend_from_slice(format!("\"s{i}\"").as_bytes()),
                _ => doc.extend_from_slice(format!("{i}").as_bytes()),
            }
        }
        doc.extend_from_slice(if obj { b"],\"z\":1}" } else { b"]" });
        let rest = src.take(24);
        join_case(&doc, &rest)
    });
    // documents nested deeper than 255 levels with the interesting values at the bottom
    ctx.search(&subs[0], "deep-paths", ctx.n(1_500, 15_000), 120, &|src: &mut Src| {
        let depth = *src.pick(&[120usize, 250, 254, 255, 256, 257, 300, 800]);
        let mut doc = Vec::new();
        let mut closers = Vec::new();
        for d in 0..depth {
            if (d + depth) % 3 == 0 {
                doc.extend_from_slice(b"{\"k\":");
                closers.push(b'}');
            } else {
                doc.extend_from_slice(b"[0,");
                closers.push(b']');
            }
        }
        doc.extend_from_slice(b"{\"other\":1,\"leaf\":\"here\"}");
        while let Some(c) = closers.pop() {
            doc.push(c);
        }
        // choices that prefer the deep paths (they were rotated to the front of the candidate list)
        let mut rest = vec![255u8, 250, 0, 250, 6, 250, 11, 250, 16, 250, 0];
        rest.extend_from_slice(&src.take(16));
        join_case(&doc, &rest)
    });
    // many members whose schema is a non-empty object while the document has `{}` there, followed by a
    // deeply nested value that is still within the nesting limit
    ctx.search(&subs[1], "empty-then-deep", ctx.n(3_000, 30_000), 400, &|src: &mut Src| {
        let k = *src.pick(&[8usize, 64, 120]);
        let d = *src.pick(&[200usize, 240, 250, 253]);
        let mut doc = b"{".to_vec();
        for i in 0..k {
            doc.extend_from_slice(format!("\"e{i}\":{{}},").as_bytes());
        }
        doc.extend_from_slice(b"\"deep\":");
        doc.extend(std::iter::repeat(b'[').take(d));
        doc.extend_from_slice(b"1");
        doc.extend(std::iter::repeat(b']').take(d));
        doc.push(b'}');
        let rest = src.take(400);
        join_case(&doc, &rest)
    });
    let pc = DocParams { ws: 1, max_depth: 6, max_items: 5, ..DocParams::default() };
    ctx.search(&subs[1], "schemas", ctx.n(2_400_000, 19_200_000), 900, &move |src: &mut Src| {
        // object-rooted documents
        let mut doc = b"{".to_vec();
        let n = 1 + src.below(5);
        for i in 0..n {
            if i > 0 {
                doc.push(b',');
            }
            doc.push(b'"');
            let mut key = Vec::new();
            gens::gen_key_inner(src, &pc, &mut key);
            doc.extend_from_slice(&key);
            doc.extend_from_slice(format!("{i}\":").as_bytes());
            gens::gen_ws(src, &pc, &mut doc);
            gens::gen_value(src, &pc, 1, &mut doc);
            gens::gen_ws(src, &pc, &mut doc);
        }
        doc.push(b'}');
        let rest = src.take(40);
        join_case(&doc, &rest)
    });
}
