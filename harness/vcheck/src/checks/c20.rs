//! C20 — errors locate themselves inside the input and end streams cleanly.

use std::collections::BTreeMap;

use bytes::Bytes;
use serde::de::IgnoredAny;
use sonic_rs::error::Category;
use sonic_rs::{Deserializer, LazyValue, OwnedLazyValue, PointerNode, PointerTree, Value};
use vbase::engine::{Ctx, Fail, Obs, Src, Sub};
use vbase::gens::{self, DocParams};
use vbase::refjson::{self, line_col, show_bytes};
use vbase::{ensure, fail};

use crate::family::*;

pub const RULE: &str = "cases are rejected (and some accepted) inputs: generated multi-line documents after one or two random mutations, every truncation / substitution / deletion of a set of multi-line documents, UTF-8 damage, long multi-line inputs (480..4200 bytes of short lines before the damaged part), documents whose strings carry invalid UTF-8 in front of a later defect, and texts printed (pretty, multi-line) from generated values of typed targets and then damaged so that visitor-made errors occur (missing/unknown/duplicate field, invalid type/value/length, unknown variant, out-of-range number). Every error returned by from_slice/from_str for Value, LazyValue, OwnedLazyValue, IgnoredAny and the typed targets, by Deserializer::deserialize at a non-zero stream position, by the utf8_lossy() deserializer (Value, typed, OwnedLazyValue, over &[u8] and Bytes, first and later documents), StreamDeserializer, get/get_from_*, get_many, get_by_schema and both lazy iterators is checked: offset <= input length; (line, column) == the position of that offset recomputed from the input (line = 1 + newlines before it, column = bytes since the last newline); Display and Debug do not panic and are non-empty; the NotFound category arises only from path lookups; after a stream or lazy iterator — polled directly or through nth / skip / step_by — has returned Err or None, five further polls return None. Non-trivial = error with offset >= 1 and at least one newline before it; distinct by (input, entry point).";
pub const ASSUMPTIONS: &[&str] = &["line/column convention as implemented and documented: line 1-based, column = number of bytes between the last newline and the offset", "errors that do not come from parsing input (to_value, writer I/O) are outside the domain"];

fn check_error(api: &str, e: &sonic_rs::Error, input: &[u8], lookup: bool, obs: &mut Obs) -> Result<(), Fail> {
    let class = if api.starts_with("typed") { "typed" } else if api.contains("iter") { "iter" } else if api.contains("schema") { "schema" } else if api.contains("get") { "get" } else if api.contains("stream") || api.contains("second") { "stream" } else { "parse" };
    let off = e.offset();
    ensure!(off <= input.len(), format!("C20/{class}/offset-outside-input"), "{api} on {:?}: error offset {off} > input length {}", show_bytes(input, 300), input.len());
    let (line, col) = line_col(input, off);
    ensure!(e.line() == line && e.column() == col, format!("C20/{class}/line-column"), "{api} on {:?}: error reports offset {off}, line {}, column {}; that offset is line {line}, column {col}", show_bytes(input, 300), e.line(), e.column());
    let d = vbase::engine::catch(|| (format!("{e}"), format!("{e:?}")));
    match d {
        Ok((a, b)) => ensure!(!a.is_empty() && !b.is_empty(), format!("C20/{class}/empty-message"), "{api}: empty error message"),
        Err(p) => fail!(format!("C20/{class}/display-panics"), "{api} on {:?}: formatting the error panicked: {p}", show_bytes(input, 300)),
    }
    if !lookup {
        ensure!(e.classify() != Category::NotFound, format!("C20/{class}/not-found-outside-lookup"), "{api} on {:?}: NotFound category from an entry point that is not a path lookup", show_bytes(input, 300));
    }
    if off >= 1 && input[..off].contains(&b'\n') {
        obs.nt_key(&api);
    }
    obs.label(match e.classify() {
        Category::Syntax => "cat:syntax",
        Category::Eof => "cat:eof",
        Category::TypeUnmatched => "cat:type",
        Category::NotFound => "cat:notfound",
        Category::Io => "cat:io",
        _ => "cat:other",
    });
    Ok(())
}

macro_rules! parse_target {
    ($t:ty, $name:expr, $input:expr, $obs:expr) => {{
        if let Err(e) = sonic_rs::from_slice::<$t>($input) {
            check_error($name, &e, $input, false, $obs)?;
        }
    }};
}

pub fn oracle(input: &[u8], obs: &mut Obs) -> Result<(), Fail> {
    // ---- whole-input entry points
    parse_target!(Value, "from_slice::<Value>", input, obs);
    parse_target!(LazyValue, "from_slice::<LazyValue>", input, obs);
    parse_target!(OwnedLazyValue, "from_slice::<OwnedLazyValue>", input, obs);
    parse_target!(IgnoredAny, "from_slice::<IgnoredAny>", input, obs);
    parse_target!(serde_json::Value, "from_slice::<serde_json::Value>", input, obs);
    parse_target!(Option<Value>, "from_slice::<Option<Value>>", input, obs);
    parse_target!(Vec<Value>, "from_slice::<Vec<Value>>", input, obs);
    parse_target!(String, "typed String", input, obs);
    parse_target!(f64, "typed f64", input, obs);
    parse_target!(u8, "typed u8", input, obs);
    parse_target!(Vec<i64>, "typed Vec<i64>", input, obs);
    parse_target!(BTreeMap<String, i32>, "typed BTreeMap<String,i32>", input, obs);
    parse_target!(BTreeMap<u8, bool>, "typed BTreeMap<u8,bool>", input, obs);
    parse_target!((u8, String, bool), "typed (u8,String,bool)", input, obs);
    parse_target!(Plain, "typed Plain", input, obs);
    parse_target!(WithOpt, "typed WithOpt", input, obs);
    parse_target!(Deny, "typed Deny", input, obs);
    parse_target!(Nested, "typed Nested", input, obs);
    parse_target!(UnitE, "typed UnitE", input, obs);
    parse_target!(External, "typed External", input, obs);
    parse_target!(Internal, "typed Internal", input, obs);
    parse_target!(Adjacent, "typed Adjacent", input, obs);
    parse_target!(Untagged, "typed Untagged", input, obs);
    parse_target!(Flat, "typed Flat", input, obs);
    parse_target!(Enums, "typed Enums", input, obs);
    parse_target!(Vec<External>, "typed Vec<External>", input, obs);
    parse_target!(Tree, "typed Tree", input, obs);
    parse_target!(sonic_rs::RawNumber, "typed RawNumber", input, obs);
    parse_target!(sonic_rs::Number, "typed Number", input, obs);
    if let Ok(s) = std::str::from_utf8(input) {
        if let Err(e) = sonic_rs::from_str::<Value>(s) {
            check_error("from_str::<Value>", &e, input, false, obs)?;
        }
        if let Err(e) = sonic_rs::from_str::<Nested>(s) {
            check_error("typed from_str::<Nested>", &e, input, false, obs)?;
        }
        if let Err(e) = sonic_rs::from_str::<&str>(s) {
            check_error("typed from_str::<&str>", &e, input, false, obs)?;
        }
    }
    if let Err(e) = sonic_rs::from_reader::<_, Value>(input) {
        check_error("from_reader::<Value>", &e, input, false, obs)?;
    }
    // ---- lossy mode: positions still refer to the caller's bytes, not to a repaired copy
    {
        if let Err(e) = Deserializer::from_slice(input).utf8_lossy().deserialize::<Value>() {
            check_error("lossy Deserializer::deserialize::<Value>", &e, input, false, obs)?;
        }
        if let Err(e) = Deserializer::from_slice(input).utf8_lossy().deserialize::<Nested>() {
            check_error("typed lossy Deserializer::deserialize::<Nested>", &e, input, false, obs)?;
        }
        if let Err(e) = Deserializer::from_slice(input).utf8_lossy().deserialize::<Vec<String>>() {
            check_error("typed lossy Deserializer::deserialize::<Vec<String>>", &e, input, false, obs)?;
        }
        if let Err(e) = Deserializer::from_slice(input).utf8_lossy().deserialize::<OwnedLazyValue>() {
            check_error("lossy Deserializer::deserialize::<OwnedLazyValue>", &e, input, false, obs)?;
        }
        let by = Bytes::copy_from_slice(input);
        if let Err(e) = Deserializer::from_json(&by).utf8_lossy().deserialize::<Value>() {
            check_error("lossy Deserializer(Bytes)::deserialize::<Value>", &e, input, false, obs)?;
        }
        let mut w = b"0 \n [1]\n".to_vec();
        w.extend_from_slice(input);
        let mut de = Deserializer::from_slice(&w).utf8_lossy();
        let _ = de.deserialize::<Value>();
        let _ = de.deserialize::<Vec<u8>>();
        if let Err(e) = de.deserialize::<Value>() {
            check_error("lossy Deserializer::deserialize::<Value> (third document, stream)", &e, &w, false, obs)?;
        }
    }
    // ---- stream: deserialize at a non-zero position
    {
        let mut w = b"0 \n [1]\n".to_vec();
        w.extend_from_slice(input);
        let mut de = Deserializer::from_slice(&w);
        let _ = de.deserialize::<Value>();
        let _ = de.deserialize::<Vec<u8>>();
        if let Err(e) = de.deserialize::<Value>() {
            check_error("Deserializer::deserialize::<Value> (third document)", &e, &w, false, obs)?;
        }
        let mut de = Deserializer::from_slice(&w);
        let _ = de.deserialize::<Value>();
        let _ = de.deserialize::<Vec<u8>>();
        if let Err(e) = de.deserialize::<Nested>() {
            check_error("typed Deserializer::deserialize::<Nested> (third document)", &e, &w, false, obs)?;
        }
        // StreamDeserializer latches
        let mut st = Deserializer::from_slice(&w).into_stream::<Value>();
        let mut n = 0;
        loop {
            n += 1;
            match st.next() {
                Some(Ok(_)) => {}
                Some(Err(e)) => {
                    check_error("stream (StreamDeserializer)", &e, &w, false, obs)?;
                    break;
                }
                None => break,
            }
            if n > 10_000 {
                fail!("C20/stream/endless", "StreamDeserializer does not end on {:?}", show_bytes(&w, 200));
            }
        }
        for k in 0..5 {
            ensure!(st.next().is_none(), "C20/stream/not-latched", "StreamDeserializer over {:?} yields an item {} polls after it reported an error or the end", show_bytes(&w, 300), k + 1);
        }
        // streams whose target only skips (parts of) the value: the error may come from the UTF-8 check that
        // follows a value that was read successfully — it must end the stream like any other error
        macro_rules! latch_stream {
            ($t:ty, $name:expr) => {{
                let mut st = Deserializer::from_slice(input).into_stream::<$t>();
                let mut ended = false;
                for _ in 0..10_000 {
                    match st.next() {
                        Some(Ok(_)) => {}
                        Some(Err(e)) => {
                            check_error($name, &e, input, false, obs)?;
                            ended = true;
                            break;
                        }
                        None => {
                            ended = true;
                            break;
                        }
                    }
                }
                ensure!(ended, "C20/stream/endless", "{} does not end on {:?}", $name, show_bytes(input, 200));
                for k in 0..5 {
                    ensure!(st.next().is_none(), "C20/stream/not-latched", "{} over {:?} yields an item {} polls after it reported an error or the end", $name, show_bytes(input, 300), k + 1);
                }
            }};
        }
        latch_stream!(IgnoredAny, "stream (StreamDeserializer<IgnoredAny>)");
        latch_stream!(Plain, "typed stream (StreamDeserializer<Plain>)");
        latch_stream!(WithOpt, "typed stream (StreamDeserializer<WithOpt>)");
        latch_stream!(LazyValue, "stream (StreamDeserializer<LazyValue>)");
        latch_stream!(Vec<IgnoredAny>, "stream (StreamDeserializer<Vec<IgnoredAny>>)");
        let by = Bytes::copy_from_slice(input);
        let mut st = Deserializer::from_json(&by).into_stream::<OwnedLazyValue>();
        let mut ended = false;
        for _ in 0..10_000 {
            match st.next() {
                Some(Ok(_)) => {}
                Some(Err(e)) => {
                    check_error("stream (StreamDeserializer<OwnedLazyValue> over Bytes)", &e, input, false, obs)?;
                    ended = true;
                    break;
                }
                None => {
                    ended = true;
                    break;
                }
            }
        }
        ensure!(ended, "C20/stream/endless", "stream does not end");
        for _ in 0..5 {
            ensure!(st.next().is_none(), "C20/stream/not-latched", "StreamDeserializer<OwnedLazyValue> yields an item after it ended, input {:?}", show_bytes(input, 300));
        }
    }
    // ---- lookups
    let paths: [Vec<PointerNode>; 6] = [vec![], vec![PointerNode::Index(0)], vec![PointerNode::Key("a".into())], vec![PointerNode::Index(1), PointerNode::Key("a".into())], vec![PointerNode::Key("a".into()), PointerNode::Index(2)], vec![PointerNode::Key("p".into()), PointerNode::Key("b".into())]];
    for p in &paths {
        if let Err(e) = sonic_rs::get(input, p) {
            check_error("get(&[u8])", &e, input, true, obs)?;
        }
        if let Err(e) = sonic_rs::get_from_slice(input, p) {
            check_error("get_from_slice", &e, input, true, obs)?;
        }
        if let Ok(s) = std::str::from_utf8(input) {
            if let Err(e) = sonic_rs::get_from_str(s, p) {
                check_error("get_from_str", &e, input, true, obs)?;
            }
        }
    }
    for group in [&paths[1..2], &paths[2..3], &paths[4..6]] {
        let mut tree = PointerTree::new();
        for p in group {
            tree.add_path(p.iter());
        }
        if let Err(e) = sonic_rs::get_many(input, &tree) {
            check_error("get_many", &e, input, true, obs)?;
        }
    }
    for schema_text in ["{\"a\":null,\"p\":{\"b\":1}}", "{}", "{\"v\":[],\"m\":{\"x\":{}}}"] {
        let schema: Value = sonic_rs::from_str(schema_text).unwrap();
        if let Err(e) = sonic_rs::get_by_schema(input, schema) {
            check_error("get_by_schema", &e, input, true, obs)?;
        }
    }
    // ---- lazy iterators: error position and latch
    {
        let mut it = sonic_rs::to_array_iter(input);
        for _ in 0..10_000 {
            match it.next() {
                Some(Ok(_)) => {}
                Some(Err(e)) => {
                    check_error("to_array_iter", &e, input, false, obs)?;
                    break;
                }
                None => break,
            }
        }
        for _ in 0..5 {
            ensure!(it.next().is_none(), "C20/iter/not-latched", "to_array_iter over {:?} yields something after it ended", show_bytes(input, 300));
        }
        // the same through iterator adaptors (nth / skip / step_by step over members without yielding them):
        // once the adaptor has reported the end (None) or an error, nothing more comes
        for k in 1..=3usize {
            let mut it = sonic_rs::to_array_iter(input);
            let mut ended = matches!(it.nth(k), None | Some(Err(_)));
            for _ in 0..10_000 {
                if ended {
                    break;
                }
                ended = matches!(it.next(), None | Some(Err(_)));
            }
            for _ in 0..5 {
                ensure!(it.next().is_none(), "C20/iter/not-latched", "to_array_iter over {:?} yields something after nth({k}) / next reported an error or the end", show_bytes(input, 300));
            }
            let mut it = sonic_rs::to_object_iter(input);
            let mut ended = matches!(it.nth(k), None | Some(Err(_)));
            for _ in 0..10_000 {
                if ended {
                    break;
                }
                ended = matches!(it.next(), None | Some(Err(_)));
            }
            for _ in 0..5 {
                ensure!(it.next().is_none(), "C20/iter/not-latched", "to_object_iter over {:?} yields something after nth({k}) / next reported an error or the end", show_bytes(input, 300));
            }
            let mut w = sonic_rs::to_array_iter(input).step_by(k + 1);
            for _ in 0..10_000 {
                if matches!(w.next(), None | Some(Err(_))) {
                    break;
                }
            }
            for _ in 0..5 {
                ensure!(w.next().is_none(), "C20/iter/not-latched", "to_array_iter(..).step_by({}) over {:?} yields something after it reported an error or the end", k + 1, show_bytes(input, 300));
            }
            let mut w = sonic_rs::to_object_iter(input).skip(k);
            for _ in 0..10_000 {
                if matches!(w.next(), None | Some(Err(_))) {
                    break;
                }
            }
            for _ in 0..5 {
                ensure!(w.next().is_none(), "C20/iter/not-latched", "to_object_iter(..).skip({k}) over {:?} yields something after it reported an error or the end", show_bytes(input, 300));
            }
        }
        let mut it = sonic_rs::to_object_iter(input);
        for _ in 0..10_000 {
            match it.next() {
                Some(Ok(_)) => {}
                Some(Err(e)) => {
                    check_error("to_object_iter", &e, input, false, obs)?;
                    break;
                }
                None => break,
            }
        }
        for _ in 0..5 {
            ensure!(it.next().is_none(), "C20/iter/not-latched", "to_object_iter over {:?} yields something after it ended", show_bytes(input, 300));
        }
    }
    Ok(())
}

pub fn subs() -> Vec<Sub<'static>> {
    ["mutated", "sweep", "typed", "long", "lossy"].iter().map(|n| Sub { name: n, oracle: &oracle, minimise_bytes: true }).collect()
}

struct PrettyVisitor<'a, 'b> {
    src: &'a mut Src<'b>,
    out: Vec<u8>,
}
impl FamVisitor for PrettyVisitor<'_, '_> {
    fn visit<T: Fam>(&mut self) {
        let x = T::g(self.src, 0);
        self.out = serde_json::to_vec_pretty(&x).unwrap_or_else(|_| b"null".to_vec());
    }
}

pub fn run(ctx: &Ctx) {
    let subs = subs();
    let p = DocParams { ws: 2, multiline: true, max_depth: 4, max_items: 5, allow_inf: true, allow_lone_surrogates: true, ..DocParams::default() };
    let pc = p.clone();
    ctx.search(&subs[0], "mutated", ctx.n(300_000, 2_400_000), 500, &move |src: &mut Src| {
        let d = gens::gen_doc(src, &pc);
        let mut m = gens::mutate(src, &d).0;
        if src.chance(60) {
            m = gens::mutate(src, &m).0;
        }
        m
    });
    // typed targets: pretty-printed values of the family, damaged
    const TYPED: &[usize] = &[34, 35, 36, 37, 38, 39, 40, 41, 42, 43, 45, 48, 26, 27, 21, 22, 0, 14];
    ctx.search(&subs[2], "typed", ctx.n(300_000, 2_400_000), 400, &|src: &mut Src| {
        let idx = *src.pick(TYPED);
        let mut v = PrettyVisitor { src, out: Vec::new() };
        dispatch(idx, &mut v);
        let text = v.out;
        let src = v.src;
        let mut m = type_damage(src, &text);
        if src.chance(60) {
            m = gens::mutate(src, &m).0;
        }
        m
    });
    // long multi-line inputs: several hundred to a few thousand bytes of short lines in front of the
    // damaged part, so that error offsets are large and many newlines share a 32/64-byte block
    let pc = p.clone();
    ctx.search(&subs[3], "long", ctx.n(150_000, 1_200_000), 400, &move |src: &mut Src| {
        let d = gens::gen_doc(src, &DocParams { max_items: 3, max_depth: 3, long_strings: false, ..pc.clone() });
        let mut m = gens::mutate(src, &d).0;
        if src.chance(40) {
            m = gens::mutate(src, &m).0;
        }
        let target = *src.pick(&[480usize, 512, 530, 600, 700, 1000, 1024, 2000, 4100]) + src.below(64);
        let mut out = vec![b'['];
        const LINES: &[&[u8]] = &[b"\n", b"1,\n", b" 2 ,\n", b"\n\n", b"\t\"ab\",\r\n", b"[],\n", b"{\"k\":\n1},\n", b"null,", b"\n\n\n\n", b"\"a somewhat longer string without any newline inside it\",", b"3,\n\n4,\n"];
        while out.len() < target {
            let l: &[u8] = *src.pick(LINES);
            out.extend_from_slice(l);
        }
        out.extend_from_slice(&m);
        if src.chance(200) {
            out.extend_from_slice(b"\n]");
        }
        out
    });
    // invalid UTF-8 inside strings in front of a later defect (lossy mode repairs the strings)
    let pc = p.clone();
    ctx.search(&subs[4], "lossy", ctx.n(150_000, 1_200_000), 400, &move |src: &mut Src| {
        let d = gens::gen_container_doc(src, &pc);
        // break 1..3 string literals with invalid sequences
        let mut out = d.clone();
        let quotes = gens::find_all(&out, b"\"");
        let nbreak = 1 + src.below(3);
        let mut added = 0usize;
        let mut spots: Vec<usize> = (0..nbreak).filter_map(|_| if quotes.is_empty() { None } else { Some(quotes[src.below(quotes.len())] + 1) }).collect();
        spots.sort();
        for sp in spots {
            let bad: &[u8] = *src.pick(gens::UTF8_DAMAGE);
            let at = (sp + added).min(out.len());
            out.splice(at..at, bad.iter().copied());
            added += bad.len();
        }
        // then a defect further on
        match src.below(4) {
            0 => {
                let cut = out.len() - src.below(out.len().min(12));
                out.truncate(cut);
            }
            1 => out.extend_from_slice(b"\n x"),
            2 => {
                let (m, _) = gens::mutate(src, &out);
                out = m;
            }
            _ => {
                if let Some(&c) = gens::find_all(&out, b",").last() {
                    out.splice(c..c + 1, b",\n,".iter().copied());
                }
            }
        }
        out
    });
    // systematic sweep over multi-line documents
    let ndocs = ctx.n(24, 240);
    let seed = ctx.seed;
    ctx.sweep(&subs[1], false, &|shard, n, emit| {
        let pm = DocParams { ws: 2, multiline: true, max_depth: 3, max_items: 3, long_strings: false, align: 0, ..DocParams::default() };
        for i in (shard..ndocs).step_by(n) {
            let bytes = super::c02::pseudo_bytes(seed ^ 0xc20, i as u64, 160);
            let mut src = Src::new(&bytes);
            let d = gens::gen_container_doc(&mut src, &pm);
            if d.len() > 300 {
                continue;
            }
            if !gens::sweep_mutations(&d, 1, &mut |c, _| emit(c)) {
                return;
            }
        }
        // pretty-printed typed documents
        for i in (shard..ndocs).step_by(n) {
            let bytes = super::c02::pseudo_bytes(seed ^ 0x7c20, i as u64, 200);
            let mut src = Src::new(&bytes);
            let idx = TYPED[i % TYPED.len()];
            let mut v = PrettyVisitor { src: &mut src, out: Vec::new() };
            dispatch(idx, &mut v);
            if v.out.len() > 300 {
                continue;
            }
            let d = v.out.clone();
            if !gens::sweep_mutations(&d, 1, &mut |c, _| emit(c)) {
                return;
            }
        }
    });
}

/// type-level damage of a well-formed text: replace a scalar token by another kind, rename a
/// key, duplicate a member, out-of-range numbers
pub fn type_damage(src: &mut Src, text: &[u8]) -> Vec<u8> {
    let Ok((root, _)) = refjson::parse(text) else { return text.to_vec() };
    // collect scalar spans and key spans
    let mut scalars = Vec::new();
    let mut keys = Vec::new();
    fn walk(n: &refjson::Node, scalars: &mut Vec<refjson::Span>, keys: &mut Vec<refjson::Span>) {
        match &n.kind {
            refjson::Kind::Arr(v) => v.iter().for_each(|x| walk(x, scalars, keys)),
            refjson::Kind::Obj(v) => v.iter().for_each(|(k, x)| {
                keys.push(k.span);
                walk(x, scalars, keys)
            }),
            _ => scalars.push(n.span),
        }
    }
    walk(&root, &mut scalars, &mut keys);
    let mut out = text.to_vec();
    match src.below(5) {
        0 | 1 if !scalars.is_empty() && src.chance(50) => {
            // a long string of multi-byte characters where something else is expected (the visitor quotes what it
            // found in its message), at every alignment of the characters
            let sp = scalars[src.below(scalars.len())];
            let ch = *src.pick(&["\u{54c8}", "\u{e9}", "\u{1f600}", "a"]);
            let mut rep = String::from("\"");
            rep.push_str(&"x".repeat(src.below(5)));
            let n = *src.pick(&[60usize, 80, 100, 130, 200, 300]);
            for _ in 0..n {
                rep.push_str(ch);
            }
            rep.push('"');
            out.splice(sp.start..sp.end, rep.bytes());
        }
        2 if !keys.is_empty() && src.chance(60) => {
            let sp = keys[src.below(keys.len())];
            let ch = *src.pick(&["\u{54c8}", "\u{e9}", "\u{1f600}"]);
            let mut rep = String::from("\"");
            rep.push_str(&"k".repeat(src.below(5)));
            for _ in 0..*src.pick(&[60usize, 90, 130, 260]) {
                rep.push_str(ch);
            }
            rep.push('"');
            out.splice(sp.start..sp.end, rep.bytes());
        }
        0 | 1 if !scalars.is_empty() => {
            let sp = scalars[src.below(scalars.len())];
            let rep: &[u8] = *src.pick(&[&b"null"[..], b"true", b"\"x\"", b"[]", b"{}", b"1", b"-1", b"256", b"65536", b"1.5", b"1e400", b"18446744073709551616", b"340282366920938463463374607431768211456", b"\"\\ud800\"", b"-0"]);
            out.splice(sp.start..sp.end, rep.iter().copied());
        }
        2 if !keys.is_empty() => {
            let sp = keys[src.below(keys.len())];
            let rep: &[u8] = *src.pick(&[&b"\"zz\""[..], b"\"\"", b"\"a\"", b"\"t\"", b"\"Unit\"", b"\"A\""]);
            out.splice(sp.start..sp.end, rep.iter().copied());
        }
        3 if !keys.is_empty() => {
            // extra member in front of a key
            let sp = keys[src.below(keys.len())];
            let extra: &[u8] = *src.pick(&[&b"\"extra\": [1, {\"q\": null}],\n "[..], b"\"a\": 0, ", b"\"x-y\": \"dup\", ", b"\"t\": \"B\", "]);
            out.splice(sp.start..sp.start, extra.iter().copied());
        }
        _ => {}
    }
    out
}
