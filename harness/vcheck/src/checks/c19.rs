//! C19 — converting through the DOM commutes with converting through text.

use sonic_rs::{Array, JsonValueMutTrait, Object, Value};
use vbase::engine::{Ctx, Fail, Obs, Src, Sub};
use vbase::gens::{self, DocParams};
use vbase::refjson::{self, classify_number, show_bytes, trunc, Kind, Node, NumClass};
use vbase::{ensure, fail};

use crate::family::{self, Fam, FamVisitor};
use crate::model_ser::{to_model, SV};
use crate::sx::walk;

pub const RULE: &str = "cases are (a) generated values x of the 71-type family (incl. field/variant names that need escaping, newtype variants with nullable payloads) (integers of every width incl. 128-bit beyond 64 bits, floats incl. non-finite ones, strings, options, sequences, maps with every key kind incl. 128-bit keys, structs, all enum shapes, flatten, bytes): to_value(x) must equal from_str::<Value>(to_string(x)); from_value(to_value(x)) == x; from_str(to_string(x)) == x; where one route fails the other must show the documented counterpart (non-finite float: text writes null / DOM errs; integer outside [i64::MIN, u64::MAX]: text writes digits / DOM errs; 128-bit map key: text quotes it / DOM errs; non-scalar key: both err); (b) DOM pairs for the equality laws: a parsed document (incl. duplicate keys), the same document with permuted members, the same value built from serde_json::Value through to_value, rebuilt with Array/Object/From conversions, and parsed-then-mutated-back (owned form), plus a near-equal variant: reflexive, equal to its clone, symmetric for every pair, insensitive to member order and construction; Value::from(p) == p and (Value::from(p)==Value::from(q)) == (p==q) for primitives. Non-trivial = x contains a map, an enum, a 128-bit integer or a float / a document with a container of >= 2 members; distinct by case bytes.";
pub const ASSUMPTIONS: &[&str] = &["serde's data model; serde_json is used as referee only to discard values that do not round-trip through JSON in serde itself", "leg (a) for values containing an f32 is a listed known finding (F11) and excluded by signature"];

fn dom_must_fail(sv: &SV, name: &str) -> Option<&'static str> {
    fn walk_sv(sv: &SV) -> Option<&'static str> {
        match sv {
            SV::I(i) => (*i < i64::MIN as i128 || *i > u64::MAX as i128).then_some("integer out of 64-bit range"),
            SV::U(u) => (*u > u64::MAX as u128).then_some("integer out of 64-bit range"),
            SV::F64(b) => (!f64::from_bits(*b).is_finite()).then_some("non-finite float"),
            SV::F32(b) => (!f32::from_bits(*b).is_finite()).then_some("non-finite float"),
            SV::Arr(v) => v.iter().find_map(walk_sv),
            SV::Obj(v) => v.iter().find_map(|(k, x)| walk_sv(k).or_else(|| walk_sv(x))),
            _ => None,
        }
    }
    if let Some(r) = walk_sv(sv) {
        return Some(r);
    }
    // 128-bit map keys are not supported by the DOM serializer at all
    if (name.starts_with("BTreeMap<u128") || name.starts_with("BTreeMap<i128")) && matches!(sv, SV::Obj(v) if !v.is_empty()) {
        return Some("128-bit map key");
    }
    None
}

fn interesting(sv: &SV) -> bool {
    match sv {
        SV::Obj(_) | SV::F64(_) | SV::F32(_) => true,
        SV::I(i) => *i < i64::MIN as i128 || *i > i64::MAX as i128,
        SV::U(u) => *u > u64::MAX as u128,
        SV::Arr(v) => v.iter().any(interesting),
        _ => false,
    }
}

fn check_value<T: Fam>(x: &T, obs: &mut Obs) -> Result<(), Fail> {
    let name = T::NAME;
    let model = to_model(x).map_err(|e| Fail::new("C19/generator", format!("model serializer refused a family value: {e}")))?;
    if interesting(&model) {
        obs.nt();
    }
    let text = sonic_rs::to_string(x).map_err(|e| Fail::new(format!("C19/{name}/to_string-fails"), format!("to_string failed for {:?}: {e}", trunc(&format!("{x:?}"), 200))))?;
    let tv = sonic_rs::to_value(x);
    match (dom_must_fail(&model, name), &tv) {
        (Some(why), Ok(v)) => fail!(format!("C19/counterpart/dom-accepts/{why}"), "{name}: to_value succeeded ({}) although the value has a {why}: {:?}", trunc(&format!("{v:?}"), 120), trunc(&format!("{x:?}"), 200)),
        (Some(why), Err(_)) => {
            obs.label(match why {
                "non-finite float" => "counterpart:non-finite",
                "128-bit map key" => "counterpart:128-bit-key",
                _ => "counterpart:out-of-range",
            });
            // the text route still works and round-trips (except non-finite floats, which become null)
            if why != "non-finite float" {
                let back: T = sonic_rs::from_str(&text).map_err(|e| Fail::new(format!("C19/{name}/text-readback"), format!("{name}: from_str(to_string(x)) failed for {:?}: {e}", trunc(&text, 200))))?;
                ensure!(&back == x, format!("C19/{name}/text-readback"), "{name}: from_str(to_string(x)) != x: text {:?}", trunc(&text, 200));
                // reading side of the commutation: map keys are strings in the text, so a 128-bit key loses
                // nothing on its way through the parsed DOM; if no *value* is out of range, from_value of the
                // parsed text must give x like from_str does
                fn oor_value(sv: &SV) -> bool {
                    match sv {
                        SV::I(i) => *i < i64::MIN as i128 || *i > u64::MAX as i128,
                        SV::U(u) => *u > u64::MAX as u128,
                        SV::Arr(v) => v.iter().any(oor_value),
                        SV::Obj(v) => v.iter().any(|(_, x)| oor_value(x)),
                        _ => false,
                    }
                }
                // whatever the DOM route makes of the parsed text, it never yields a *different* value
                if let Ok(pv) = sonic_rs::from_str::<Value>(&text) {
                    if let Ok(y) = sonic_rs::from_value::<T>(&pv) {
                        ensure!(&y == x, format!("C19/{name}/from_value-differs"), "{name}: from_value(parse(to_string(x))) = {:?} although x = {:?} (text {:?})", trunc(&format!("{y:?}"), 200), trunc(&format!("{x:?}"), 200), trunc(&text, 200));
                    }
                    let raw: Result<Value, _> = sonic_rs::Deserializer::from_str(&text).use_rawnumber().deserialize();
                    if let Ok(rv) = raw {
                        if let Ok(y) = sonic_rs::from_value::<T>(&rv) {
                            ensure!(&y == x, format!("C19/{name}/from_value-differs"), "{name}: from_value(raw-number parse of to_string(x)) = {:?} although x = {:?} (text {:?})", trunc(&format!("{y:?}"), 200), trunc(&format!("{x:?}"), 200), trunc(&text, 200));
                        }
                    }
                }
                if !oor_value(&model) {
                    if let Ok(pv) = sonic_rs::from_str::<Value>(&text) {
                        let viadom: T = sonic_rs::from_value(&pv).map_err(|e| Fail::new(format!("C19/{name}/from_value-fails"), format!("{name}: from_value(parse(to_string(x))) failed although from_str(to_string(x)) succeeds: {e}; text {:?}", trunc(&text, 200))))?;
                        ensure!(&viadom == x, format!("C19/{name}/from_value-differs"), "{name}: from_value(parse(to_string(x))) differs from x; text {:?}", trunc(&text, 200));
                    }
                }
            }
            return Ok(());
        }
        (None, Err(e)) => fail!(format!("C19/{name}/to_value-fails"), "{name}: to_value failed ({e}) for {:?}", trunc(&format!("{x:?}"), 200)),
        (None, Ok(_)) => {}
    }
    let tv = tv.unwrap();
    // (a) DOM route == text route
    let pv: Value = sonic_rs::from_str(&text).map_err(|e| Fail::new(format!("C19/{name}/text-reparse"), format!("to_string output {:?} does not parse: {e}", trunc(&text, 200))))?;
    if tv != pv || pv != tv {
        let sig = if T::HAS_F32 { "C19/to_value-vs-text/f32".to_string() } else { format!("C19/to_value-vs-text/{name}") };
        fail!(sig, "{name}: to_value(x) = {} but from_str(to_string(x)) = {} (text {:?})", trunc(&walk(&tv, false).dump(), 200), trunc(&walk(&pv, false).dump(), 200), trunc(&text, 200));
    }
    // serde itself must round-trip the value through JSON, otherwise the legs below say nothing
    let referee = serde_json::to_string(x).ok().and_then(|s| serde_json::from_str::<T>(&s).ok()).map(|y| &y == x).unwrap_or(false);
    if !referee {
        obs.label("serde-does-not-roundtrip");
        return Ok(());
    }
    // (b) from_value(to_value(x)) == x
    let back: T = sonic_rs::from_value(&tv).map_err(|e| Fail::new(format!("C19/{name}/from_value-fails"), format!("{name}: from_value(to_value(x)) failed: {e}; x = {:?}", trunc(&format!("{x:?}"), 200))))?;
    ensure!(&back == x, format!("C19/{name}/from_value-differs"), "{name}: from_value(to_value(x)) = {:?}, x = {:?}", trunc(&format!("{back:?}"), 200), trunc(&format!("{x:?}"), 200));
    // (c) from_str(to_string(x)) == x
    let back: T = sonic_rs::from_str(&text).map_err(|e| Fail::new(format!("C19/{name}/text-readback"), format!("{name}: from_str(to_string(x)) failed for {:?}: {e}", trunc(&text, 200))))?;
    ensure!(&back == x, format!("C19/{name}/text-readback"), "{name}: from_str(to_string(x)) = {:?}, x = {:?}", trunc(&format!("{back:?}"), 200), trunc(&format!("{x:?}"), 200));
    // the raw-number DOM of the text reads back as x as well (or fails, it never gives another value)
    if let Ok(rv) = sonic_rs::Deserializer::from_str(&text).use_rawnumber().deserialize::<Value>() {
        if let Ok(y) = sonic_rs::from_value::<T>(&rv) {
            ensure!(&y == x, format!("C19/{name}/from_value-differs"), "{name}: from_value(raw-number parse of to_string(x)) = {:?} although x = {:?}", trunc(&format!("{y:?}"), 200), trunc(&format!("{x:?}"), 200));
        }
        ensure!(rv == pv && pv == rv, format!("C19/{name}/raw-vs-plain"), "{name}: the raw-number DOM and the plain DOM of {:?} are not equal", trunc(&text, 200));
    }
    // from_value of the parsed text as well
    let back: T = sonic_rs::from_value(&pv).map_err(|e| Fail::new(format!("C19/{name}/from_value-fails"), format!("{name}: from_value(parse(to_string(x))) failed: {e}")))?;
    ensure!(&back == x, format!("C19/{name}/from_value-differs"), "{name}: from_value(parse(to_string(x))) differs from x = {:?}", trunc(&format!("{x:?}"), 200));
    Ok(())
}

struct Case<'a, 'b> {
    src: &'a mut Src<'b>,
    obs: &'a mut Obs,
    result: Result<(), Fail>,
}
impl FamVisitor for Case<'_, '_> {
    fn visit<T: Fam>(&mut self) {
        let x = T::g(self.src, 0);
        self.obs.label(T::NAME);
        self.obs.render = Some(format!("{}: {}", T::NAME, trunc(&format!("{x:?}"), 300)));
        self.result = check_value(&x, self.obs);
    }
}

pub fn oracle_value(case: &[u8], obs: &mut Obs) -> Result<(), Fail> {
    if case.is_empty() {
        return Ok(());
    }
    let mut src = Src::new(&case[1..]);
    let mut v = Case { src: &mut src, obs, result: Ok(()) };
    family::dispatch(case[0] as usize, &mut v);
    v.result
}

#[derive(serde::Serialize, serde::Deserialize, PartialEq, Debug)]
struct NonFinite {
    a: f64,
    b: Vec<f32>,
    c: Option<f64>,
}

pub fn oracle_special(case: &[u8], obs: &mut Obs) -> Result<(), Fail> {
    obs.nt();
    let k = case.first().copied().unwrap_or(0);
    match k {
        0..=5 => {
            let f = [f64::NAN, f64::INFINITY, f64::NEG_INFINITY, 1.5, -0.0, 0.0][k as usize];
            let x = NonFinite { a: f, b: vec![1.0, f as f32], c: Some(f) };
            let text = sonic_rs::to_string(&x).map_err(|e| Fail::new("C19/non-finite/to_string-fails", format!("{e}")))?;
            let tv = sonic_rs::to_value(&x);
            if f.is_finite() {
                ensure!(tv.is_ok(), "C19/non-finite/to_value-fails", "to_value failed for finite floats");
            } else {
                ensure!(tv.is_err(), "C19/counterpart/dom-accepts/non-finite float", "to_value accepted a non-finite float: {:?}", tv.map(|v| walk(&v, false).dump()));
                ensure!(text == "{\"a\":null,\"b\":[1.0,null],\"c\":null}", "C19/counterpart/text/non-finite", "to_string wrote {text} for non-finite floats");
            }
            // bare non-finite values
            ensure!(sonic_rs::to_value(&f).is_ok() == f.is_finite() && sonic_rs::to_value(&(f as f32)).is_ok() == f.is_finite(), "C19/counterpart/dom-accepts/non-finite float", "to_value(bare {f}) has the wrong outcome");
            ensure!(Value::try_from(f).is_ok() == f.is_finite(), "C19/counterpart/dom-accepts/non-finite float", "Value::try_from({f}) has the wrong outcome");
            Ok(())
        }
        6 => {
            // non-scalar map keys: both routes fail
            let m = std::collections::BTreeMap::from([(vec![1u8], 1u8)]);
            ensure!(sonic_rs::to_string(&m).is_err() && sonic_rs::to_value(&m).is_err(), "C19/counterpart/non-scalar-key", "a sequence key was accepted by to_string or to_value");
            let m = std::collections::BTreeMap::from([((), 1u8)]);
            ensure!(sonic_rs::to_string(&m).is_err() && sonic_rs::to_value(&m).is_err(), "C19/counterpart/non-scalar-key", "a unit key was accepted by to_string or to_value");
            Ok(())
        }
        _ => {
            // primitives: Value::from(p) == p, and equality of conversions mirrors equality of primitives
            let ints: [i64; 8] = [0, 1, -1, i64::MAX, i64::MIN, 42, 255, -255];
            for p in ints {
                ensure!(Value::from(p) == p && p == Value::from(p), "C19/laws/primitive", "Value::from({p}i64) != {p}");
                for q in ints {
                    ensure!((Value::from(p) == Value::from(q)) == (p == q), "C19/laws/primitive", "Value::from({p}) == Value::from({q}) is {}", Value::from(p) == Value::from(q));
                }
            }
            // the narrower primitive types compare through the same impls
            macro_rules! prim {
                ($($t:ty),*) => {$(
                    for p in [<$t>::MIN, <$t>::MAX, 0 as $t, 1 as $t, 42 as $t] {
                        let v = Value::from(p);
                        ensure!(v == p && p == v, "C19/laws/primitive", "Value::from({p}{}) != {p}", stringify!($t));
                        for q in [<$t>::MIN, <$t>::MAX, 0 as $t, 7 as $t, 42 as $t] {
                            ensure!((v == q) == (p == q) && (Value::from(q) == v) == (p == q), "C19/laws/primitive", "Value::from({p}{}) vs {q}: comparison disagrees with the primitives", stringify!($t));
                        }
                    }
                )*};
            }
            prim!(i8, i16, i32, isize, u8, u16, u32, usize);
            // a DOM number against an f32 primitive: equal iff the number equals the f32 widened exactly
            for (text, q) in [("0.1", 0.1f32), ("0.5", 0.5f32), ("16777217", 16777216f32), ("16777216", 16777216f32), ("1e300", f32::INFINITY), ("3.4028234663852886e38", f32::MAX), ("3.4028235e38", f32::MAX), ("0.10000000149011612", 0.1f32), ("-0.1", -0.1f32), ("1", 1.0f32)] {
                let v: Value = sonic_rs::from_str(text).map_err(|e| Fail::new("C19/laws/primitive", format!("{e}")))?;
                let want = text.parse::<f64>().unwrap() == q as f64;
                ensure!((v == q) == want && (q == v) == want && (&v == q) == want, "C19/laws/primitive-f32", "json {text} == {q:?}f32 is {}, comparing the primitives ({text} as f64 vs the f32 widened) gives {want}", v == q);
            }
            for (p, q) in [(1.5f32, 1.5f32), (0.5, 0.25), (-2.0, -2.0), (16777216.0, 16777216.0)] {
                let v = Value::try_from(p).unwrap();
                ensure!(v == p && (v == q) == (p == q), "C19/laws/primitive", "Value::try_from({p}f32) comparison with {q} disagrees");
            }
            let us: [u64; 5] = [0, 1, u64::MAX, i64::MAX as u64, i64::MAX as u64 + 1];
            for p in us {
                ensure!(Value::from(p) == p, "C19/laws/primitive", "Value::from({p}u64) != {p}");
                for q in us {
                    ensure!((Value::from(p) == Value::from(q)) == (p == q), "C19/laws/primitive", "u64 conversion equality wrong for {p}, {q}");
                }
                for q in ints {
                    let same = q >= 0 && q as u64 == p;
                    ensure!((Value::from(p) == Value::from(q)) == same && (Value::from(q) == Value::from(p)) == same, "C19/laws/primitive-mixed", "Value::from({p}u64) vs Value::from({q}i64): expected equal={same}");
                }
            }
            for (p, q) in [("", ""), ("a", "a"), ("a", "b"), ("é", "e\u{301}"), ("a\"b", "a\"b")] {
                ensure!(Value::from(p) == p && (Value::from(p) == Value::from(q)) == (p == q), "C19/laws/primitive", "string conversion equality wrong for {p:?}, {q:?}");
            }
            ensure!(Value::from(true) == true && Value::from(false) != true && Value::from(()) == Value::new_null(), "C19/laws/primitive", "bool / unit conversions");
            for (p, q) in [(1.5f64, 1.5f64), (0.1, 0.1), (1.0, 2.0), (-0.0, 0.0)] {
                let (a, b) = (Value::try_from(p).unwrap(), Value::try_from(q).unwrap());
                ensure!(a == p && (a == b) == (p == q), "C19/laws/primitive", "f64 conversion equality wrong for {p}, {q}");
            }
            Ok(())
        }
    }
}

// ---- equality laws ----------------------------------------------------------------------------

/// re-render a reference tree with object members rotated (same members, other order)
fn render_permuted(n: &Node, t: &[u8], rot: usize, out: &mut Vec<u8>) {
    match &n.kind {
        Kind::Arr(v) => {
            out.push(b'[');
            for (i, x) in v.iter().enumerate() {
                if i > 0 {
                    out.push(b',');
                }
                render_permuted(x, t, rot, out);
            }
            out.push(b']');
        }
        Kind::Obj(v) => {
            out.push(b'{');
            let n_ = v.len();
            for i in 0..n_ {
                let (k, x) = &v[(i + rot) % n_];
                if i > 0 {
                    out.push(b',');
                }
                out.extend_from_slice(k.span.of(t));
                out.push(b':');
                render_permuted(x, t, rot + 1, out);
            }
            out.push(b'}');
        }
        _ => out.extend_from_slice(n.span.of(t)),
    }
}

/// build a Value through the public constructors / From conversions
fn build(n: &Node, t: &[u8]) -> Value {
    match &n.kind {
        Kind::Null => Value::from(()),
        Kind::Bool(b) => Value::from(*b),
        Kind::Num => {
            let lit = std::str::from_utf8(n.span.of(t)).unwrap();
            match classify_number(lit) {
                NumClass::U64(u) => Value::from(u),
                NumClass::I64(i) => Value::from(i),
                NumClass::F64(f) => Value::try_from(f).unwrap_or_default(),
                NumClass::Inf => Value::default(),
            }
        }
        Kind::Str(s) => Value::from(s.text.as_str()),
        Kind::Arr(v) => {
            let mut a = Array::new();
            for x in v {
                a.push(build(x, t));
            }
            Value::from(a)
        }
        Kind::Obj(v) => {
            let mut o = Object::new();
            for (k, x) in v {
                o.insert(&k.text, build(x, t));
            }
            Value::from(o)
        }
    }
}

pub fn oracle_laws(t: &[u8], obs: &mut Obs) -> Result<(), Fail> {
    let Ok((root, sum)) = refjson::parse(t) else { fail!("C19/generator", "malformed text from generator") };
    let Ok(s) = std::str::from_utf8(t) else { return Ok(()) };
    if !(sum.scalars_ok && sum.finite_ok) {
        return Ok(());
    }
    let big = match &root.kind {
        Kind::Arr(v) => v.len() >= 2,
        Kind::Obj(v) => v.len() >= 2,
        _ => false,
    };
    if big {
        obs.nt();
    }
    obs.label(if sum.has_dup_keys { "dup-keys" } else { "dup-free" });
    let a: Value = sonic_rs::from_str(s).map_err(|e| Fail::new("C19/laws/parse", format!("{e}")))?;
    let mut variants: Vec<(&'static str, Value)> = vec![("parsed", a.clone())];
    let mut p1 = Vec::new();
    render_permuted(&root, t, 1, &mut p1);
    let b: Value = sonic_rs::from_slice(&p1).map_err(|e| Fail::new("C19/laws/parse", format!("permuted text {:?}: {e}", show_bytes(&p1, 200))))?;
    variants.push(("permuted", b));
    let mut p2 = Vec::new();
    render_permuted(&root, t, 2, &mut p2);
    variants.push(("permuted2", sonic_rs::from_slice(&p2).map_err(|e| Fail::new("C19/laws/parse", format!("{e}")))?));
    if !sum.has_dup_keys {
        let sj: serde_json::Value = serde_json::from_slice(t).map_err(|e| Fail::new("C19/generator", format!("serde_json rejects the text: {e}")))?;
        // numbers: serde_json::Value keeps u64/i64/f64 like sonic does
        variants.push(("to_value(serde_json::Value)", sonic_rs::to_value(&sj).map_err(|e| Fail::new("C19/laws/to_value", format!("{e}")))?));
        variants.push(("built", build(&root, t)));
        // owned form: mutate and undo
        let mut d = a.clone();
        if let Some(o) = d.as_object_mut() {
            o.insert(&"\u{a7}tmp", 1);
            o.remove(&"\u{a7}tmp");
        } else if let Some(arr) = d.as_array_mut() {
            arr.push(1);
            arr.pop();
        }
        variants.push(("mutated-and-restored", d));
    }
    // variants that denote a *different* document: only symmetry is asserted for pairs with them
    let first_len = variants.len();
    {
        fn last_key(n: &Node) -> Option<refjson::Span> {
            match &n.kind {
                Kind::Obj(v) if !v.is_empty() => Some(v[v.len() - 1].0.span),
                Kind::Obj(_) => None,
                Kind::Arr(v) => v.iter().find_map(last_key),
                _ => None,
            }
        }
        if let Some(sp) = last_key(&root) {
            let mut t3 = t.to_vec();
            t3.splice(sp.start..sp.end, "\"\u{a7}renamed\"".bytes());
            if let Ok(v) = sonic_rs::from_slice::<Value>(&t3) {
                variants.push(("last-key-renamed", v));
            }
            // and the same key duplicated in front (a document with an extra duplicate member)
            let mut t4 = t.to_vec();
            let mut dup = sp.of(t).to_vec();
            dup.extend_from_slice(b":null,");
            // insert right after the opening brace of that object: find it by scanning backwards
            if let Some(open) = t[..sp.start].iter().rposition(|c| *c == b'{') {
                t4.splice(open + 1..open + 1, dup);
                if let Ok(v) = sonic_rs::from_slice::<Value>(&t4) {
                    variants.push(("duplicate-member-added", v));
                }
            }
        }
    }
    // reflexive, clone
    for (name, v) in &variants {
        ensure!(v == v, format!("C19/laws/reflexive"), "{name} != itself for {:?}", show_bytes(t, 200));
        let c = v.clone();
        ensure!(*v == c && c == *v, "C19/laws/clone", "{name} != its clone for {:?}", show_bytes(t, 200));
    }
    // symmetry for every pair, and pairwise equality (dup-free documents)
    for i in 0..variants.len() {
        for j in 0..variants.len() {
            let (ni, vi) = &variants[i];
            let (nj, vj) = &variants[j];
            let (x, y) = (vi == vj, vj == vi);
            ensure!(x == y, if sum.has_dup_keys { "C19/laws/symmetry/dup-keys" } else { "C19/laws/symmetry" }, "{ni} == {nj} is {x} but {nj} == {ni} is {y}; document {:?}", show_bytes(t, 300));
            if !sum.has_dup_keys && i < first_len && j < first_len {
                ensure!(x, "C19/laws/construction", "{ni} != {nj} although both denote {:?}", show_bytes(t, 300));
            }
        }
    }
    // near-equal: change one scalar
    fn first_scalar(n: &Node) -> Option<refjson::Span> {
        match &n.kind {
            Kind::Arr(v) => v.iter().rev().find_map(first_scalar),
            Kind::Obj(v) => v.iter().rev().find_map(|(_, x)| first_scalar(x)),
            _ => Some(n.span),
        }
    }
    if let (Some(sp), false) = (first_scalar(&root), sum.has_dup_keys) {
        let mut t2 = t.to_vec();
        let old = sp.of(t).to_vec();
        let new: &[u8] = if old == "\"\u{a7}changed\"".as_bytes() { b"0" } else { "\"\u{a7}changed\"".as_bytes() };
        t2.splice(sp.start..sp.end, new.iter().copied());
        let a2: Value = sonic_rs::from_slice(&t2).map_err(|e| Fail::new("C19/laws/parse", format!("{e}")))?;
        for (name, v) in variants.iter().take(first_len) {
            ensure!(*v != a2 && a2 != *v, "C19/laws/near-equal", "{name} == a document with one scalar changed: {:?} vs {:?}", show_bytes(t, 200), show_bytes(&t2, 200));
        }
    }
    Ok(())
}

pub fn subs() -> Vec<Sub<'static>> {
    vec![Sub { name: "values", oracle: &oracle_value, minimise_bytes: false }, Sub { name: "special", oracle: &oracle_special, minimise_bytes: false }, Sub { name: "laws", oracle: &oracle_laws, minimise_bytes: false }]
}

pub fn run(ctx: &Ctx) {
    let subs = subs();
    ctx.cases(&subs[1], &(0u8..8).map(|k| vec![k]).collect::<Vec<_>>());
    ctx.search(&subs[0], "values", ctx.n(4_500_000, 36_000_000), 300, &|src: &mut Src| {
        let mut c = vec![src.below(family::N_TYPES) as u8];
        c.extend_from_slice(src.rest());
        c
    });
    let p = DocParams { ws: 1, dup_keys: true, max_depth: 4, max_items: 5, ..DocParams::default() };
    ctx.search(&subs[2], "dup-keys", ctx.n(900_000, 7_200_000), 400, &move |src: &mut Src| gens::gen_container_doc(src, &p));
    let p = DocParams { ws: 1, dup_keys: false, max_depth: 5, max_items: 6, ..DocParams::default() };
    ctx.search(&subs[2], "dup-free", ctx.n(900_000, 7_200_000), 500, &move |src: &mut Src| gens::gen_container_doc(src, &p));
}
