//! C02 — validating entry points accept exactly the well-formed JSON texts.

use bytes::Bytes;
use faststr::FastStr;
use serde::de::IgnoredAny;
use serde::Deserialize;
use sonic_rs::{Deserializer, LazyValue, OwnedLazyValue, Value};
use vbase::engine::{Ctx, Fail, Obs, Src, Sub};
use vbase::gens::{self, DocParams};
use vbase::refjson::{self, accept, show_bytes, Accept, Kind};
use vbase::{ensure, fail};

pub const RULE: &str = "cases are byte strings: (a) every sequence of <=L tokens over a 14-token alphabet (exhaustive), (b) every string of <=6 chars over {-019.eE+} placed as root, array element, object value and skipped member (exhaustive), (c) generated documents and one random mutation of each, (d) every truncation / per-position substitution / deletion of a set of generated documents, (e) parse histories: 2..5 well-formed documents of up to 400 KB in seven shapes parsed into Value one after the other on a fresh thread, each must be accepted with the right member count. Each case is fed to every route (Value by from_slice/from_str/from_reader — the reader also delivering 1, 3, 7 or a growing number of bytes per call with ErrorKind::Interrupted in between —, Value embedded in a tuple and in a deny_unknown_fields struct, Option<Value> behind whitespace, serde_json::Value as target, String/f64/bool/() scalar targets, IgnoredAny, LazyValue, OwnedLazyValue, ignored struct fields, Deserializer::from_json over &[u8]/Bytes/FastStr, second document of a stream) and the accept/reject verdict is compared with the independent recogniser (full = utf8+grammar+scalars+finite, skip = utf8+grammar). Non-trivial = the reference rejects at offset >= 2 or accepts a text with >= 3 tokens; distinct by input bytes.";
pub const ASSUMPTIONS: &[&str] = &[
    "refjson recogniser is correct (self-tested against serde_json on every run)",
    "nesting depth of generated inputs stays far below any implementation limit (deep nesting is C01's domain)",
    "raw-number / lossy modes are not part of C02's acceptance rule and are checked in C03/C08/C09",
];

#[derive(Deserialize)]
#[serde(deny_unknown_fields)]
#[allow(dead_code)]
struct WrapV {
    v: Value,
}

#[derive(Deserialize)]
#[allow(dead_code)]
struct Empty {}

#[derive(Deserialize)]
#[allow(dead_code)]
struct OnlyA {
    a: u8,
}

#[derive(Clone, Copy, PartialEq, Debug)]
enum Tier {
    Full,
    Skip,
}

/// An `io::Read` over a byte string that hands out at most `step` bytes per call (`step` 0: 1, 2, 3, …
/// bytes) and, if asked, reports `ErrorKind::Interrupted` before every second piece.
pub struct Pieces<'a> {
    data: &'a [u8],
    pos: usize,
    step: usize,
    calls: usize,
    interrupt: bool,
}
impl<'a> Pieces<'a> {
    pub fn new(data: &'a [u8], step: usize, interrupt: bool) -> Self {
        Pieces { data, pos: 0, step, calls: 0, interrupt }
    }
}
impl std::io::Read for Pieces<'_> {
    fn read(&mut self, buf: &mut [u8]) -> std::io::Result<usize> {
        self.calls += 1;
        if self.interrupt && self.calls % 2 == 0 {
            return Err(std::io::Error::from(std::io::ErrorKind::Interrupted));
        }
        let want = if self.step == 0 { self.calls } else { self.step };
        let n = want.min(buf.len()).min(self.data.len() - self.pos);
        buf[..n].copy_from_slice(&self.data[self.pos..self.pos + n]);
        self.pos += n;
        Ok(n)
    }
}

fn wrap(pre: &[u8], b: &[u8], post: &[u8]) -> Vec<u8> {
    let mut v = Vec::with_capacity(pre.len() + b.len() + post.len());
    v.extend_from_slice(pre);
    v.extend_from_slice(b);
    v.extend_from_slice(post);
    v
}

/// expected verdict of a whole-document route
fn expect(a: &Accept, t: Tier) -> bool {
    match t {
        Tier::Full => a.full(),
        Tier::Skip => a.skip(),
    }
}

fn reason_of(b: &[u8], a: &Accept) -> &'static str {
    if !a.utf8 {
        return "invalid-utf8";
    }
    match refjson::recognise(b) {
        refjson::Verdict::Invalid(e) => e.reason,
        refjson::Verdict::Valid(s) => {
            if !s.scalars_ok {
                "unpaired surrogate escape"
            } else if !s.finite_ok {
                "number overflows f64"
            } else {
                "valid"
            }
        }
    }
}

fn judge(route: &'static str, tier: Tier, got: bool, want: bool, b: &[u8], a: &Accept) -> Result<(), Fail> {
    if got == want {
        return Ok(());
    }
    let t = if tier == Tier::Full { "full" } else { "skip" };
    if got {
        fail!(format!("C02/{t}/accepts-invalid/{}", reason_of(b, a)), "route {route} accepted {:?} but the reference rejects it ({})", show_bytes(b, 300), reason_of(b, a));
    } else {
        fail!(format!("C02/{t}/rejects-valid"), "route {route} rejected {:?} which is well-formed for this tier", show_bytes(b, 300));
    }
}

pub fn oracle(b: &[u8], obs: &mut Obs) -> Result<(), Fail> {
    let a = accept(b);
    // classification
    match refjson::recognise(b) {
        refjson::Verdict::Valid(s) => {
            if s.tokens >= 3 {
                obs.nt();
            }
            obs.label(if a.full() { "ref-accept" } else if a.utf8 { "ref-accept-skip-only" } else { "ref-grammar-ok-bad-utf8" });
        }
        refjson::Verdict::Invalid(e) => {
            if e.offset >= 2 {
                obs.nt();
            }
            obs.label(match e.reason {
                "eof" | "eof in string" | "eof in escape" | "eof in \\u escape" | "eof in number" | "eof after decimal point" | "eof in exponent" | "eof in literal" | "eof before colon" => "ref-reject:eof",
                "trailing characters" => "ref-reject:trailing",
                "bad escape letter" | "bad hex digit" => "ref-reject:escape",
                "raw control character in string" => "ref-reject:control",
                "digit expected" | "digit expected after decimal point" | "digit expected in exponent" => "ref-reject:number",
                "bad literal" => "ref-reject:literal",
                "value expected" | "key expected" | "colon expected" | "comma or closing bracket expected" => "ref-reject:structure",
                _ => "ref-reject:other",
            });
        }
    }
    let utf8 = a.utf8;
    let s: Option<&str> = std::str::from_utf8(b).ok();

    // ---- full-decoding routes ------------------------------------------------------------
    judge("from_slice::<Value>", Tier::Full, sonic_rs::from_slice::<Value>(b).is_ok(), a.full(), b, &a)?;
    if let Some(s) = s {
        judge("from_str::<Value>", Tier::Full, sonic_rs::from_str::<Value>(s).is_ok(), a.full(), b, &a)?;
    }
    judge("from_reader::<Value>", Tier::Full, sonic_rs::from_reader::<_, Value>(b).is_ok(), a.full(), b, &a)?;
    // readers that deliver the text in small pieces (1 byte, 7 bytes, pieces of growing size, with
    // interruptions in between): the verdict is a function of the bytes, not of how they arrive
    judge("from_reader::<Value>(1-byte reads)", Tier::Full, sonic_rs::from_reader::<_, Value>(Pieces::new(b, 1, false)).is_ok(), a.full(), b, &a)?;
    judge("from_reader::<Value>(7-byte reads, interrupted)", Tier::Full, sonic_rs::from_reader::<_, Value>(Pieces::new(b, 7, true)).is_ok(), a.full(), b, &a)?;
    judge("from_reader::<serde_json::Value>(growing reads)", Tier::Full, sonic_rs::from_reader::<_, serde_json::Value>(Pieces::new(b, 0, false)).is_ok(), a.full(), b, &a)?;
    judge("from_reader::<OwnedLazyValue>(3-byte reads)", Tier::Skip, sonic_rs::from_reader::<_, OwnedLazyValue>(Pieces::new(b, 3, true)).is_ok(), a.skip(), b, &a)?;
    judge("from_reader::<IgnoredAny>(1-byte reads)", Tier::Skip, sonic_rs::from_reader::<_, IgnoredAny>(Pieces::new(b, 1, true)).is_ok(), a.skip(), b, &a)?;
    judge("from_slice::<serde_json::Value>", Tier::Full, sonic_rs::from_slice::<serde_json::Value>(b).is_ok(), a.full(), b, &a)?;
    {
        let w = wrap(b"[", b, b"]");
        let aw = accept(&w);
        // `[b]` is a one-element array exactly when b is one value; so the expectation can be
        // computed either way; use the wrapped text for full independence from that argument
        let want = aw.full() && one_element_array(&w);
        judge("from_slice::<(Value,)>([b])", Tier::Full, sonic_rs::from_slice::<(Value,)>(&w).is_ok(), want, &w, &aw)?;
        judge("from_slice::<(serde_json::Value,)>([b])", Tier::Full, sonic_rs::from_slice::<(serde_json::Value,)>(&w).is_ok(), want, &w, &aw)?;
        let want_skip = aw.skip() && one_element_array(&w);
        judge("from_slice::<(IgnoredAny,)>([b])", Tier::Skip, sonic_rs::from_slice::<(IgnoredAny,)>(&w).is_ok(), want_skip, &w, &aw)?;
        judge("from_slice::<(LazyValue,)>([b])", Tier::Skip, sonic_rs::from_slice::<(LazyValue,)>(&w).is_ok(), want_skip, &w, &aw)?;
        judge("from_slice::<(OwnedLazyValue,)>([b])", Tier::Skip, sonic_rs::from_slice::<(OwnedLazyValue,)>(&w).is_ok(), want_skip, &w, &aw)?;
    }
    {
        let w = wrap(b"{\"v\":", b, b"}");
        let aw = accept(&w);
        let want = aw.full() && only_key_v_once(&w);
        judge("from_slice::<WrapV>({\"v\":b})", Tier::Full, sonic_rs::from_slice::<WrapV>(&w).is_ok(), want, &w, &aw)?;
        // every member is ignored: accepted iff the wrapped text is a well-formed object
        let want_skip = aw.skip() && root_is_object(&w);
        judge("from_slice::<Empty>({\"v\":b})", Tier::Skip, sonic_rs::from_slice::<Empty>(&w).is_ok(), want_skip, &w, &aw)?;
        // skipped member before a typed field
        let w2 = wrap(b"{\"x\":", b, b",\"a\":7}");
        let aw2 = accept(&w2);
        let want2 = aw2.skip() && root_is_object(&w2) && field_a_is_u8_once(&w2);
        judge("from_slice::<OnlyA>({\"x\":b,\"a\":7})", Tier::Skip, sonic_rs::from_slice::<OnlyA>(&w2).is_ok(), want2, &w2, &aw2)?;
    }
    {
        let w = wrap(b" \n", b, b"");
        let aw = accept(&w);
        judge("from_slice::<Option<Value>>(ws+b)", Tier::Full, sonic_rs::from_slice::<Option<Value>>(&w).is_ok(), aw.full(), &w, &aw)?;
    }
    // scalar targets
    {
        let root_kind = if a.grammar { refjson::parse(b).ok().map(|(n, _)| n.kind) } else { None };
        let is = |f: fn(&Kind) -> bool| a.full() && root_kind.as_ref().map(f).unwrap_or(false);
        judge("from_slice::<String>", Tier::Full, sonic_rs::from_slice::<String>(b).is_ok(), is(|k| matches!(k, Kind::Str(_))), b, &a)?;
        judge("from_slice::<f64>", Tier::Full, sonic_rs::from_slice::<f64>(b).is_ok(), is(|k| matches!(k, Kind::Num)), b, &a)?;
        judge("from_slice::<bool>", Tier::Full, sonic_rs::from_slice::<bool>(b).is_ok(), is(|k| matches!(k, Kind::Bool(_))), b, &a)?;
        judge("from_slice::<()>", Tier::Full, sonic_rs::from_slice::<()>(b).is_ok(), is(|k| matches!(k, Kind::Null)), b, &a)?;
    }

    // ---- validate-and-skip routes --------------------------------------------------------
    judge("from_slice::<IgnoredAny>", Tier::Skip, sonic_rs::from_slice::<IgnoredAny>(b).is_ok(), expect(&a, Tier::Skip), b, &a)?;
    judge("from_slice::<LazyValue>", Tier::Skip, sonic_rs::from_slice::<LazyValue>(b).is_ok(), expect(&a, Tier::Skip), b, &a)?;
    judge("from_slice::<OwnedLazyValue>", Tier::Skip, sonic_rs::from_slice::<OwnedLazyValue>(b).is_ok(), expect(&a, Tier::Skip), b, &a)?;
    if let Some(s) = s {
        judge("from_str::<LazyValue>", Tier::Skip, sonic_rs::from_str::<LazyValue>(s).is_ok(), expect(&a, Tier::Skip), b, &a)?;
        judge("from_str::<OwnedLazyValue>", Tier::Skip, sonic_rs::from_str::<OwnedLazyValue>(s).is_ok(), expect(&a, Tier::Skip), b, &a)?;
        judge("from_str::<IgnoredAny>", Tier::Skip, sonic_rs::from_str::<IgnoredAny>(s).is_ok(), expect(&a, Tier::Skip), b, &a)?;
    }

    // ---- Deserializer::from_json carriers: first value of the input, no trailing check ----
    // (only on UTF-8 inputs: what a streaming deserializer does with invalid UTF-8 located
    // after the value it returns is not fixed by the statement)
    if utf8 {
        let pre = refjson::scan(b, 0, &mut refjson::NoSink);
        let want_full = matches!(&pre, Ok(s) if s.scalars_ok && s.finite_ok);
        let want_skip = pre.is_ok();
        let ap = Accept { utf8: true, grammar: pre.is_ok(), scalars: want_full, finite: want_full, max_depth: 0 };
        let by = Bytes::copy_from_slice(b);
        let fs = FastStr::new(s.unwrap());
        // Streaming semantics are only pinned down at both ends: a complete well-formed
        // document must be accepted, and whatever is accepted must start with a well-formed
        // value. (`00`, `1.` … may be read as `0`/`1` followed by garbage or rejected outright.)
        let stream = |route: &'static str, tier: Tier, got: bool| -> Result<(), Fail> {
            let (must, may) = match tier {
                Tier::Full => (a.full(), want_full),
                Tier::Skip => (a.skip(), want_skip),
            };
            if must {
                judge(route, tier, got, true, b, &a)
            } else if !may {
                judge(route, tier, got, false, b, &ap)
            } else {
                Ok(())
            }
        };
        stream("Deserializer::from_json(&[u8]).deserialize::<Value>", Tier::Full, Deserializer::from_json(b).deserialize::<Value>().is_ok())?;
        stream("Deserializer::from_json(&Bytes).deserialize::<Value>", Tier::Full, Deserializer::from_json(&by).deserialize::<Value>().is_ok())?;
        stream("Deserializer::from_json(&FastStr).deserialize::<Value>", Tier::Full, Deserializer::from_json(&fs).deserialize::<Value>().is_ok())?;
        stream("Deserializer::from_json(&Bytes).deserialize::<OwnedLazyValue>", Tier::Skip, Deserializer::from_json(&by).deserialize::<OwnedLazyValue>().is_ok())?;
        stream("Deserializer::from_json(&FastStr).deserialize::<LazyValue>", Tier::Skip, Deserializer::from_json(&fs).deserialize::<LazyValue>().is_ok())?;
        // second document of a stream (copying parser)
        let w = wrap(b"0 ", b, b"");
        let mut st = Deserializer::from_json(&w[..]).into_stream::<Value>();
        let first = st.next();
        ensure!(matches!(first, Some(Ok(_))), "C02/stream/first-document", "stream over {:?}: first document `0` not returned", show_bytes(&w, 200));
        let second = st.next();
        let got = matches!(second, Some(Ok(_)));
        stream("stream second document", Tier::Full, got)?;
    }
    // invalid UTF-8 INSIDE the first value: a hand-built deserializer has no trailing check, but what it
    // returns must itself be valid, so such a value must be rejected by every decoding target
    if !utf8 {
        if let Ok(sum) = refjson::scan(b, 0, &mut refjson::NoSink) {
            if std::str::from_utf8(&b[sum.start..sum.end]).is_err() {
                let by = Bytes::copy_from_slice(b);
                let routes: [(&'static str, bool); 6] = [
                    ("Deserializer::from_slice(non-UTF-8 value).deserialize::<Value>", Deserializer::from_slice(b).deserialize::<Value>().is_ok()),
                    ("Deserializer::from_json(&Bytes, non-UTF-8 value).deserialize::<Value>", Deserializer::from_json(&by).deserialize::<Value>().is_ok()),
                    ("Deserializer::from_slice(non-UTF-8 value).deserialize::<serde_json::Value>", Deserializer::from_slice(b).deserialize::<serde_json::Value>().is_ok()),
                    ("Deserializer::from_slice(non-UTF-8 value).deserialize::<String>", Deserializer::from_slice(b).deserialize::<String>().is_ok()),
                    ("Deserializer::from_slice(non-UTF-8 value).deserialize::<Vec<String>>", Deserializer::from_slice(b).deserialize::<Vec<String>>().is_ok()),
                    ("Deserializer::from_slice(non-UTF-8 value).deserialize::<BTreeMap<String,Value>>", Deserializer::from_slice(b).deserialize::<std::collections::BTreeMap<String, Value>>().is_ok()),
                ];
                for (route, got) in routes {
                    judge(route, Tier::Full, got, false, b, &a)?;
                }
                judge("Deserializer::from_slice(non-UTF-8 value).deserialize::<OwnedLazyValue>", Tier::Skip, Deserializer::from_slice(b).deserialize::<OwnedLazyValue>().is_ok(), false, b, &a)?;
            }
        }
    }
    Ok(())
}

fn one_element_array(w: &[u8]) -> bool {
    matches!(refjson::parse(w), Ok((n, _)) if matches!(&n.kind, Kind::Arr(v) if v.len() == 1))
}
fn root_is_object(w: &[u8]) -> bool {
    matches!(refjson::parse(w), Ok((n, _)) if matches!(&n.kind, Kind::Obj(_)))
}
fn only_key_v_once(w: &[u8]) -> bool {
    matches!(refjson::parse(w), Ok((n, _)) if matches!(&n.kind, Kind::Obj(v) if v.len() == 1 && v[0].0.text == "v"))
}
fn field_a_is_u8_once(w: &[u8]) -> bool {
    match refjson::parse(w) {
        Ok((n, _)) => match &n.kind {
            Kind::Obj(v) => {
                let a: Vec<_> = v.iter().filter(|(k, _)| k.text == "a").collect();
                a.len() == 1 && matches!(a[0].1.kind, Kind::Num) && {
                    let lit = std::str::from_utf8(a[0].1.span.of(w)).unwrap();
                    lit.parse::<u8>().is_ok() && !lit.starts_with('-')
                }
            }
            _ => false,
        },
        Err(_) => false,
    }
}

/// one document of a parse history: (text, number of members of the root container)
fn history_doc(kind: u8, size: usize) -> (Vec<u8>, usize) {
    let mut d = Vec::with_capacity(size + 16);
    let mut n = 0usize;
    match kind % 7 {
        0 => {
            d.extend_from_slice(b"[\"");
            d.resize(d.len() + size, b'a');
            d.extend_from_slice(b"\"]");
            n = 1;
        }
        1 => {
            d.push(b'[');
            while d.len() < size {
                if n > 0 {
                    d.push(b',');
                }
                d.push(b'0' + (n % 10) as u8);
                n += 1;
            }
            d.push(b']');
        }
        2 => {
            d.push(b'[');
            while d.len() < size {
                if n > 0 {
                    d.push(b',');
                }
                d.extend_from_slice(if n % 2 == 0 { b"[]" } else { b"{}" });
                n += 1;
            }
            d.push(b']');
        }
        3 => {
            d.push(b'{');
            while d.len() < size {
                if n > 0 {
                    d.push(b',');
                }
                d.extend_from_slice(b"\"\":");
                d.push(b'0' + (n % 10) as u8);
                n += 1;
            }
            d.push(b'}');
        }
        4 => {
            d.push(b'[');
            while d.len() < size {
                if n > 0 {
                    d.push(b',');
                }
                d.extend_from_slice([&b"true"[..], b"null", b"\"\"", b"false", b"-0"][n % 5]);
                n += 1;
            }
            d.push(b']');
        }
        5 => {
            d.extend_from_slice(b"[\n");
            while d.len() < size {
                if n > 0 {
                    d.extend_from_slice(b",\n    ");
                }
                d.extend_from_slice(format!("{}", n * 37 % 1000).as_bytes());
                n += 1;
            }
            d.extend_from_slice(b"\n]");
        }
        _ => {
            // nested pairs: [[0,[1]],[0,[1]],…]
            d.push(b'[');
            while d.len() < size {
                if n > 0 {
                    d.push(b',');
                }
                d.extend_from_slice(b"[0,[1]]");
                n += 1;
            }
            d.push(b']');
        }
    }
    (d, n)
}

/// sub-check `history`: acceptance must not depend on what the same thread parsed before. A case is a
/// sequence of (kind, size, route) triples; the documents are well-formed by construction (and confirmed by
/// the reference recogniser) and are parsed one after the other on a fresh thread, so that the thread-local
/// state of the DOM parser is a function of the case alone. Every parse must succeed and report the right
/// number of root members.
pub fn oracle_history(case: &[u8], obs: &mut Obs) -> Result<(), Fail> {
    let steps: Vec<(u8, usize, u8)> = case.chunks_exact(5).map(|c| (c[0], 1 + (c[1] as usize | (c[2] as usize) << 8 | (c[3] as usize) << 16) % 400_000, c[4])).collect();
    if steps.len() < 2 {
        return Ok(());
    }
    obs.nt();
    let growing = steps.windows(2).any(|w| w[1].1 > w[0].1 && w[0].1 >= 8192);
    obs.label(if growing { "history-growing-past-8k" } else { "history-other" });
    let docs: Vec<(Vec<u8>, usize)> = steps.iter().map(|&(k, sz, _)| history_doc(k, sz)).collect();
    for (d, _) in &docs {
        ensure!(accept(d).full(), "C02/harness/history-doc-invalid".to_string(), "generated history document is not well-formed: {}", show_bytes(d, 80));
    }
    let steps2 = steps.clone();
    let r = std::thread::Builder::new()
        .stack_size(8 << 20)
        .spawn(move || -> Result<(), (usize, String)> {
            for (i, ((d, n), &(_, _, route))) in docs.iter().zip(steps2.iter()).enumerate() {
                let text = std::str::from_utf8(d).unwrap();
                let v: Result<Value, sonic_rs::Error> = match route % 4 {
                    0 => sonic_rs::from_slice(d),
                    1 => sonic_rs::from_str(text),
                    2 => sonic_rs::from_reader(&d[..]),
                    _ => {
                        let mut de = Deserializer::from_json(text);
                        Value::deserialize(&mut de)
                    }
                };
                match v {
                    Err(e) => return Err((i, format!("rejected: {e}"))),
                    Ok(v) => {
                        use sonic_rs::{JsonContainerTrait, JsonValueTrait};
                        let len = if v.is_object() { v.as_object().map(|o| o.len()) } else { v.as_array().map(|a| a.len()) };
                        if len != Some(*n) {
                            return Err((i, format!("root has {len:?} members, expected {n}")));
                        }
                    }
                }
            }
            Ok(())
        })
        .unwrap()
        .join();
    match r {
        Ok(Ok(())) => Ok(()),
        Ok(Err((i, why))) => {
            let hist: Vec<String> = steps.iter().map(|(k, s, r)| format!("(kind {} size {} route {})", k % 7, s, r % 4)).collect();
            fail!("C02/full/rejects-valid/after-history".to_string(), "document {i} of the history [{}] on one thread: {why}", hist.join(", "));
        }
        Err(_) => fail!("C02/history/panic".to_string(), "a parse of the history panicked"),
    }
}

pub fn subs() -> Vec<Sub<'static>> {
    vec![
        Sub { name: "tokens", oracle: &oracle, minimise_bytes: true },
        Sub { name: "numbers", oracle: &oracle, minimise_bytes: true },
        Sub { name: "docs", oracle: &oracle, minimise_bytes: true },
        Sub { name: "mutations", oracle: &oracle, minimise_bytes: true },
        Sub { name: "long-numbers", oracle: &oracle, minimise_bytes: true },
        Sub { name: "many-small", oracle: &oracle, minimise_bytes: false },
        Sub { name: "large-utf8", oracle: &oracle, minimise_bytes: false },
        Sub { name: "history", oracle: &oracle_history, minimise_bytes: false },
    ]
}

fn sub(name: &str) -> Sub<'static> {
    subs().into_iter().find(|s| s.name == name).unwrap()
}

pub fn run(ctx: &Ctx) {
    // (a) exhaustive token sequences
    let max_len = ctx.n(6, 7);
    let s = sub("tokens");
    for len in 0..=max_len {
        ctx.sweep(&s, true, &|shard, n, emit| {
            gens::token_sequences(len, shard, n, &mut |c| emit(c));
        });
    }
    ctx.mark_exhaustive(format!("all token sequences of length <= {max_len} over the 14-token alphabet"));

    // (b) exhaustive number candidates in four contexts
    let s = sub("numbers");
    let nl = ctx.n(5, 6);
    ctx.sweep(&s, true, &|shard, n, emit| {
        gens::number_candidates(nl, shard, n, &mut |c| {
            emit(c)
                && emit(&wrap(b"[", c, b"]"))
                && emit(&wrap(b"[", c, b",1]"))
                && emit(&wrap(b"{\"k\":", c, b"}"))
                && emit(&wrap(b"{\"k\":", c, b" ,\"j\":[]}"))
        });
    });
    ctx.mark_exhaustive(format!("all strings of length <= {nl} over {{-019.eE+}} as number candidates in 5 contexts"));

    // (b2) long number literals (integer part 1..=130 digits, fraction 0..=66 digits) with every
    // tail of a small damage set, so that each scanner state is entered at every position of a
    // 32/64-byte block
    let s = sub("long-numbers");
    let max_int = ctx.n(130, 200);
    ctx.sweep(&s, true, &|shard, n, emit| {
        const TAILS: &[&str] = &["", ".5", ".5.5", ".5e5", ".5e5e5", ".5e5.5", "e5", "e5.5", "E+5", "E+5+", "e", "e+", "e-", ".", "..5", ".e5", ".5e", ".5E-", "-", "+", ".5-", ".5+1", "e5-", "e0x", ".5x", "x", ".5.", "e5e", "E5E5", ".-5", ".+5", "e.5", ".5ee5", "e--5", "e+-5"];
        let fracs: &[usize] = &[0, 1, 2, 15, 16, 17, 29, 30, 31, 32, 33, 34, 62, 63, 64, 65, 66];
        let mut k = 0usize;
        for int_len in 1..=max_int {
            for &fl in fracs {
                k += 1;
                if k % n != shard {
                    continue;
                }
                for neg in [false, true] {
                    let mut num = String::new();
                    if neg {
                        num.push('-');
                    }
                    for i in 0..int_len {
                        num.push((b'1' + (i % 9) as u8) as char);
                    }
                    if fl > 0 {
                        num.push('.');
                        for i in 0..fl {
                            num.push((b'0' + (i % 10) as u8) as char);
                        }
                    }
                    for t in TAILS {
                        if fl > 0 && t.starts_with('.') && t.len() > 4 {
                            continue;
                        }
                        let c = format!("{num}{t}");
                        let c = c.as_bytes();
                        if !(emit(c) && emit(&wrap(b"[", c, b",1]")) && emit(&wrap(b"{\"k\":", c, b",\"j\":\"0123456789012345678901234567890123456789\"}"))) {
                            return;
                        }
                    }
                }
            }
        }
    });

    // (c) generated documents and a random mutation of each
    let s = sub("docs");
    let p = DocParams { allow_inf: true, allow_lone_surrogates: true, ws: 2, max_depth: 5, ..DocParams::default() };
    let pc = p.clone();
    ctx.search(&s, "valid", ctx.n(40_000, 400_000), 400, &move |src: &mut Src| gens::gen_doc(src, &pc));
    let pc = p.clone();
    ctx.search(&s, "mutated", ctx.n(120_000, 1_500_000), 400, &move |src: &mut Src| {
        let d = gens::gen_doc(src, &pc);
        let mut m = gens::mutate(src, &d).0;
        if src.chance(40) {
            m = gens::mutate(src, &m).0;
        }
        m
    });

    // (c2) shallow documents with hundreds of tiny containers (state that accumulates per container)
    ctx.search(&sub("many-small"), "many-small", ctx.n(1_200, 20_000), 200, &|src: &mut Src| gens::gen_many_small(src));

    // (c3) documents of 4..64 KiB filled with multi-byte characters, intact and with one byte damaged near a
    // 4 KiB mark
    ctx.search(&sub("large-utf8"), "large-utf8", ctx.n(300, 5_000), 160, &|src: &mut Src| {
        let mut d = gens::gen_large_utf8(src);
        if src.chance(128) {
            let mark = 4096 * (1 + src.below((d.len() / 4096).max(1)));
            let at = (mark + src.below(9)).saturating_sub(4).min(d.len() - 1);
            d[at] = *src.pick(&[0x80u8, 0xff, b'a', 0xc3, 0xe4]);
        }
        d
    });

    // (c4) parse histories on one thread (thread-local buffers of the DOM parser keep their size between
    // parses): 2..5 documents of 1 B..400 KB in seven shapes (one long string, dense single-digit array, dense
    // empty containers, dense object, mixed scalars, pretty-printed, nested pairs); sizes climb a ladder in
    // half of the cases
    ctx.search(&sub("history"), "history", ctx.n(1_600, 30_000), 32, &|src: &mut Src| {
        let n = 2 + src.below(4);
        let mut out = Vec::new();
        let mut size = 1 + src.below(12_000);
        let ladder = src.chance(128);
        for _ in 0..n {
            let kind = src.below(7) as u8;
            out.push(kind);
            let sz = (size - 1).min(399_999);
            out.extend_from_slice(&[(sz & 0xff) as u8, (sz >> 8 & 0xff) as u8, (sz >> 16) as u8]);
            out.push(src.below(4) as u8);
            let cap = *src.pick(&[600usize, 9_000, 40_000, 400_000]);
            size = if ladder { size + 1 + src.below(size.max(2000) * 2) } else { 1 + src.below(cap) };
        }
        out
    });

    // (d) systematic mutation sweep over generated documents
    let s = sub("mutations");
    let ndocs = ctx.n(64, 640);
    let seed = ctx.seed;
    ctx.sweep(&s, false, &|shard, n, emit| {
        let pm = DocParams { ws: 1, max_depth: 4, max_items: 4, long_strings: false, align: 0, allow_inf: true, allow_lone_surrogates: true, ..DocParams::default() };
        for i in (shard..ndocs).step_by(n) {
            // deterministic per-document choice bytes derived from the seed
            let bytes = pseudo_bytes(seed, i as u64, 160);
            let mut src = Src::new(&bytes);
            let d = gens::gen_container_doc(&mut src, &pm);
            if !gens::sweep_mutations(&d, 1, &mut |c, _| emit(c)) {
                return;
            }
        }
        for (i, d) in gens::golden_docs().iter().enumerate() {
            if i % n == shard && !gens::sweep_mutations(d, 1, &mut |c, _| emit(c)) {
                return;
            }
        }
    });
}

/// deterministic byte stream from (seed, index) using proptest's RNG
pub fn pseudo_bytes(seed: u64, idx: u64, n: usize) -> Vec<u8> {
    use proptest::prelude::RngCore;
    use proptest::test_runner::{Config, RngSeed, TestRunner};
    let mut r = TestRunner::new(Config { rng_seed: RngSeed::Fixed(seed.wrapping_mul(0x9E37_79B9_7F4A_7C15) ^ idx), failure_persistence: None, ..Config::default() });
    let mut v = vec![0u8; n];
    r.rng().fill_bytes(&mut v);
    v
}
