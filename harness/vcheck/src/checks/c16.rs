//! C16 — values sharing a parsed arena stay valid in any clone, move and drop order.

use serde::Deserialize;
use sonic_rs::JsonContainerTrait as _;
use sonic_rs::{Deserializer, JsonValueMutTrait, JsonValueTrait, PointerNode, Value};
use vbase::alloc;
use vbase::engine::{Ctx, Fail, Obs, Src, Sub};
use vbase::refjson::{self, trunc, M};
use vbase::{ensure, fail};

use super::c15::{choose_path, dump, m_at, m_at_mut, mdump, universe, DOCS};

pub const RULE: &str = "cases are histories over up to 8 holders of DOM values and several documents: parse (whole input), several Values through one Deserializer / StreamDeserializer / one struct with many Value fields (sharing the deserializer's arena), clone of a subtree by path, take, insert (moved or cloned) into another document, mutate, parse-and-drop something else on the same thread in between (reuse of the thread-local node buffer), a document above the 3 MB thread-local threshold, hand-off to another thread (spawn/join, read and drop there or send back), reads, drops; finally the remaining holders are dropped in a generated order with a read of all survivors after every drop. Exhaustive: every drop order (all permutations) of up to 6 holders for each of a set of sharing shapes. Thread stress: 2/4/8 threads clone, read and drop sharers of one arena between barriers. Oracle: every surviving holder dumps to its model after every step; the harness allocator poisons freed memory and keeps it in a quarantine (a read through a freed arena gives a wrong dump or a fault, a second free of a block or a write after free is recorded); each history runs twice on the same thread and the second run must leave the thread's live allocation count and bytes unchanged (nothing leaked); for thread cases the global live counters must return to their baseline. Non-trivial = a sharer is read after its root was dropped, or a holder is dropped on another thread; distinct by history bytes.";
pub const ASSUMPTIONS: &[&str] = &["thread interleavings are stress only (the oracle is schedule-independent)", "leak accounting compares the second of two identical runs so that the thread-local node buffer has reached its steady size"];

#[derive(Deserialize)]
struct Many {
    a: Value,
    b: Value,
    #[serde(default)]
    c: Option<Value>,
    d: Vec<Value>,
}

struct H {
    v: Value,
    m: M,
    root_dropped: bool,
    root: usize, // id of the arena root holder it was derived from (usize::MAX = itself)
}

struct St {
    hs: Vec<Option<H>>,
    log: Vec<String>,
    nontrivial: bool,
    dropped_roots: Vec<usize>,
}

fn model_of(text: &str) -> M {
    // the fixed documents are parsed once per thread
    thread_local! {
        static CACHE: std::cell::RefCell<Vec<(usize, M)>> = const { std::cell::RefCell::new(Vec::new()) };
    }
    let key = text.as_ptr() as usize;
    if DOCS.iter().any(|d| d.as_ptr() as usize == key) {
        return CACHE.with(|c| {
            let mut c = c.borrow_mut();
            if let Some((_, m)) = c.iter().find(|(k, _)| *k == key) {
                return m.clone();
            }
            let m = refjson::parse(text.as_bytes()).unwrap().0.model(text.as_bytes(), false);
            c.push((key, m.clone()));
            m
        });
    }
    refjson::parse(text.as_bytes()).unwrap().0.model(text.as_bytes(), false)
}

impl St {
    fn check(&self, step: &str) -> Result<(), Fail> {
        for (i, h) in self.hs.iter().enumerate() {
            if let Some(h) = h {
                let same = vbase::engine::catch(|| crate::sx::eq_vm(&h.v, &h.m)).map_err(|p| Fail::new("C16/dump-panics", format!("reading holder {i} panicked after [{}]: {p}", self.log.join("; "))))?;
                if !same {
                    let got = dump(&h.v);
                    let want = mdump(&h.m);
                    fail!(format!("C16/holder-corrupted/{}", step.split(' ').next().unwrap_or(step)), "after [{}] holder {i} reads as {} but must be {}", self.log.join("; "), trunc(&got, 300), trunc(&want, 300));
                }
            }
        }
        Ok(())
    }
    fn free_slot(&mut self) -> Option<usize> {
        self.hs.iter().position(|h| h.is_none())
    }
    fn put(&mut self, v: Value, m: M, root: usize) -> Option<usize> {
        let i = self.free_slot()?;
        self.hs[i] = Some(H { v, m, root_dropped: false, root });
        Some(i)
    }
    fn live(&self) -> Vec<usize> {
        self.hs.iter().enumerate().filter(|(_, h)| h.is_some()).map(|(i, _)| i).collect()
    }
    fn drop_holder(&mut self, i: usize) {
        if let Some(h) = self.hs[i].take() {
            let root = if h.root == usize::MAX { i } else { h.root };
            if h.root == usize::MAX {
                // sharers derived from this holder are now read after their root was dropped
                for o in self.hs.iter_mut().flatten() {
                    if o.root == root {
                        o.root_dropped = true;
                        self.nontrivial = true;
                    }
                }
            }
            drop(h);
        }
    }
}

const MALFORMED: &[&str] = &["\"abc", "\"abc\\\"", "\"", "[1,2", "{\"a\":", "[1,]", "nul", "\"\\ud800\"", "[\"x\",{\"k\":[1,2,\"unterminated", "{\"a\":[tru", "]", "[1 2]", "{\"a\" 1}", "\"a\\", "[[[[[[", "1e999", "-", "{\"k\":\"v\",}", "\"tab\there\""];

fn big_doc() -> String {
    // > 3 MB of nodes: TlsBuf::MAX_TLS_SIZE is 3 MB / size_of::<Value>() nodes; the estimate is
    // json_len / 2 + 2 nodes, so a text above 6 MB / 16 * ... is needed: use ~1.2 M elements
    let mut s = String::with_capacity(3_000_000);
    s.push('[');
    for i in 0..420_000 {
        if i > 0 {
            s.push(',');
        }
        s.push_str("[1,{}]");
    }
    s.push(']');
    s
}

fn run_history(case: &[u8], allow_threads: bool, allow_big: bool) -> Result<(bool, String), Fail> {
    let mut src = Src::new(case);
    let mut st = St { hs: (0..8).map(|_| None).collect(), log: Vec::new(), nontrivial: false, dropped_roots: Vec::new() };
    let nops = 2 + src.below(30);
    for _ in 0..nops {
        let op = src.below(23);
        let live = st.live();
        let pick = |src: &mut Src, live: &Vec<usize>| -> Option<usize> { if live.is_empty() { None } else { Some(live[src.below(live.len())]) } };
        let name: String;
        match op {
            0 | 1 => {
                // default or raw-number mode (start_doc covers DOCS and RAW_DOCS)
                let (v, m, _) = super::c15::start_doc(src.below(super::c15::N_START_DOCS));
                name = "parse".into();
                st.put(v, m, usize::MAX);
            }
            2 => {
                // several values through one Deserializer: they share its arena (except the first)
                let d1 = DOCS[src.below(DOCS.len())];
                let d2 = DOCS[src.below(DOCS.len())];
                let text = format!("0 {d1} {d2} [1]");
                name = "deserializer x3".into();
                let mut de = if src.chance(80) { Deserializer::from_str(&text).use_rawnumber() } else { Deserializer::from_str(&text) };
                let _first: Value = de.deserialize().unwrap();
                let a: Value = de.deserialize().unwrap();
                let b: Value = de.deserialize().unwrap();
                let c: Value = de.deserialize().unwrap();
                // drop the deserializer before, between or after storing the values
                match src.below(3) {
                    0 => {
                        drop(de);
                        let r = st.put(a, model_of(d1), usize::MAX);
                        st.put(b, model_of(d2), r.unwrap_or(usize::MAX));
                        drop(c);
                    }
                    1 => {
                        let r = st.put(a, model_of(d1), usize::MAX);
                        drop(de);
                        st.put(b, model_of(d2), r.unwrap_or(usize::MAX));
                        st.put(c, model_of("[1]"), r.unwrap_or(usize::MAX));
                    }
                    _ => {
                        drop(a);
                        let r = st.put(b, model_of(d2), usize::MAX);
                        st.put(c, model_of("[1]"), r.unwrap_or(usize::MAX));
                        drop(de);
                    }
                }
            }
            3 => {
                let d1 = DOCS[src.below(DOCS.len())];
                let d2 = DOCS[src.below(DOCS.len())];
                let text = format!("{d1}\n{d2}\ntrue");
                name = "stream".into();
                let mut it = if src.chance(80) { Deserializer::from_str(&text).use_rawnumber() } else { Deserializer::from_str(&text) }.into_stream::<Value>();
                let a = it.next().unwrap().unwrap();
                let b = it.next().unwrap().unwrap();
                if src.bool() {
                    drop(it);
                }
                let r = st.put(b, model_of(d2), usize::MAX);
                st.put(a, model_of(d1), r.unwrap_or(usize::MAX));
            }
            4 => {
                let d1 = DOCS[src.below(DOCS.len())];
                let d2 = DOCS[src.below(DOCS.len())];
                let text = format!("{{\"a\":{d1},\"b\":{d2},\"d\":[{d1},{d2},7]}}");
                name = "struct with Value fields".into();
                let m: Many = sonic_rs::from_str(&text).unwrap();
                let Many { a, b, c, d } = m;
                drop(c);
                let r = st.put(a, model_of(d1), usize::MAX);
                let r = r.unwrap_or(usize::MAX);
                st.put(b, model_of(d2), r);
                let mut d = d;
                let last = d.pop().unwrap();
                st.put(last, M::U64(7), r);
                let second = d.pop().unwrap();
                st.put(second, model_of(d2), r);
                drop(d);
            }
            5 | 6 => {
                // clone a subtree
                let Some(a) = pick(&mut src, &live) else { continue };
                let path = choose_path(&st.hs[a].as_ref().unwrap().m, &mut src);
                name = format!("clone subtree of {a} at {path:?}");
                let h = st.hs[a].as_ref().unwrap();
                let v = h.v.pointer(&path).cloned();
                let m = m_at(&h.m, &path).cloned();
                let root = if h.root == usize::MAX { a } else { h.root };
                ensure!(v.is_some() == m.is_some(), "C16/pointer", "pointer resolves differently from the model");
                if let (Some(v), Some(m)) = (v, m) {
                    st.put(v, m, root);
                }
            }
            7 => {
                let Some(a) = pick(&mut src, &live) else { continue };
                let path = choose_path(&st.hs[a].as_ref().unwrap().m, &mut src);
                name = format!("take subtree of {a} at {path:?}");
                let h = st.hs[a].as_mut().unwrap();
                let root = if h.root == usize::MAX { a } else { h.root };
                if let Some(t) = h.v.pointer_mut(&path) {
                    let v = t.take();
                    let m = std::mem::replace(m_at_mut(&mut h.m, &path).unwrap(), M::Null);
                    st.put(v, m, root);
                }
            }
            8 | 9 => {
                // insert holder b (moved or cloned) into a container of holder a
                let (Some(a), Some(b)) = (pick(&mut src, &live), pick(&mut src, &live)) else { continue };
                if a == b {
                    continue;
                }
                let moved = op == 8;
                name = format!("insert holder {b} ({}) into holder {a}", if moved { "moved" } else { "cloned" });
                let (bv, bm) = if moved {
                    let hb = st.hs[b].take().unwrap();
                    (hb.v, hb.m)
                } else {
                    let hb = st.hs[b].as_ref().unwrap();
                    (hb.v.clone(), hb.m.clone())
                };
                let ha = st.hs[a].as_mut().unwrap();
                match &mut ha.m {
                    M::Arr(items) => {
                        ha.v.as_array_mut().unwrap().push(bv);
                        items.push(bm);
                    }
                    M::Obj(members) => {
                        ha.v.as_object_mut().unwrap().insert("ins", bv);
                        if let Some(e) = members.iter_mut().find(|(k, _)| k == "ins") {
                            e.1 = bm;
                        } else {
                            members.push(("ins".into(), bm));
                        }
                    }
                    m => {
                        ha.v = bv;
                        *m = bm;
                    }
                }
                st.nontrivial = true;
            }
            10 => {
                let Some(a) = pick(&mut src, &live) else { continue };
                let path = choose_path(&st.hs[a].as_ref().unwrap().m, &mut src);
                let (uv, um) = universe(src.below(super::c15::N_UNIVERSE));
                name = format!("mutate holder {a} at {path:?}");
                let h = st.hs[a].as_mut().unwrap();
                if let Some(t) = h.v.pointer_mut(&path) {
                    match m_at_mut(&mut h.m, &path).unwrap() {
                        M::Arr(items) => {
                            t.as_array_mut().unwrap().push(uv);
                            items.push(um);
                        }
                        M::Obj(members) => {
                            t.as_object_mut().unwrap().insert("mut", uv);
                            if let Some(e) = members.iter_mut().find(|(k, _)| k == "mut") {
                                e.1 = um;
                            } else {
                                members.push(("mut".into(), um));
                            }
                        }
                        m => {
                            *t = uv;
                            *m = um;
                        }
                    }
                }
            }
            19 | 20 => {
                // overwrite whatever is at the path (container, string or scalar) by a built value, or by
                // null through take-and-drop: the last reference into the arena may go away here while
                // the holder keeps member names and siblings that came from it
                let Some(a) = pick(&mut src, &live) else { continue };
                let path = choose_path(&st.hs[a].as_ref().unwrap().m, &mut src);
                let (uv, um) = universe(src.below(super::c15::N_UNIVERSE));
                name = format!("overwrite holder {a} at {path:?}");
                let h = st.hs[a].as_mut().unwrap();
                if let Some(t) = h.v.pointer_mut(&path) {
                    if op == 19 {
                        *t = uv;
                        *m_at_mut(&mut h.m, &path).unwrap() = um;
                    } else {
                        drop(t.take());
                        *m_at_mut(&mut h.m, &path).unwrap() = M::Null;
                    }
                    st.nontrivial = true;
                }
            }
            11 => {
                // parse something else on this thread and drop it (reuse of the TLS node buffer)
                let d = DOCS[src.below(DOCS.len())];
                name = "parse-and-drop".into();
                let v: Value = sonic_rs::from_str(d).unwrap();
                let c = v.pointer(&[] as &[PointerNode]).cloned();
                drop(v);
                if let Some(c) = c {
                    ensure!(dump(&c) == mdump(&model_of(d)), "C16/holder-corrupted/clone-after-root-drop", "clone read after its root was dropped differs");
                }
                let bad: Result<Value, _> = sonic_rs::from_str("[1,2,{\"a\":[tru");
                ensure!(bad.is_err(), "C16/accepts-malformed", "malformed document accepted");
            }
            12 => {
                let Some(a) = pick(&mut src, &live) else { continue };
                name = format!("drop holder {a}");
                st.drop_holder(a);
            }
            15 | 16 => {
                // several values through one deserializer, then a malformed later value: the
                // values handed out before the error must stay intact
                let d1 = DOCS[src.below(DOCS.len())];
                let d2 = DOCS[src.below(DOCS.len())];
                let bad = *src.pick(MALFORMED);
                let text = format!("0 {d1} {d2} {bad}");
                name = format!("deserializer: two values then malformed {bad:?}");
                let (a, b) = if op == 15 {
                    let mut de = Deserializer::from_str(&text);
                    let _z: Value = de.deserialize().unwrap();
                    let a: Value = de.deserialize().unwrap();
                    let b: Value = de.deserialize().unwrap();
                    let e: Result<Value, _> = de.deserialize();
                    ensure!(e.is_err(), "C16/accepts-malformed", "malformed stream value {bad:?} accepted");
                    // a further attempt after the error must not disturb the earlier values either
                    let _ = de.deserialize::<Value>();
                    (a, b)
                } else {
                    let mut it = Deserializer::from_str(&text).into_stream::<Value>();
                    let _z = it.next();
                    let a = it.next().unwrap().unwrap();
                    let b = it.next().unwrap().unwrap();
                    ensure!(matches!(it.next(), Some(Err(_))), "C16/accepts-malformed", "malformed stream value {bad:?} accepted");
                    let _ = it.next();
                    (a, b)
                };
                let r = st.put(a, model_of(d1), usize::MAX);
                st.put(b, model_of(d2), r.unwrap_or(usize::MAX));
                // parse something valid afterwards on the same thread (reuses freed memory)
                let v: Value = sonic_rs::from_str(DOCS[1]).unwrap();
                drop(v);
            }
            17 | 18 => {
                // failed parses of every kind must release everything they allocated
                let bad = *src.pick(MALFORMED);
                name = format!("failed parses of {bad:?}");
                ensure!(sonic_rs::from_str::<Value>(bad).is_err(), "C16/accepts-malformed", "malformed {bad:?} accepted");
                ensure!(sonic_rs::from_slice::<Value>(bad.as_bytes()).is_err(), "C16/accepts-malformed", "malformed {bad:?} accepted");
                let padded = format!("  {bad}");
                ensure!(sonic_rs::from_str::<Value>(&padded).is_err(), "C16/accepts-malformed", "malformed {bad:?} accepted");
                let wrapped = format!("{{\"a\":{bad}");
                ensure!(sonic_rs::from_str::<Many>(&wrapped).is_err(), "C16/accepts-malformed", "malformed {bad:?} accepted in a struct");
                let _ = sonic_rs::from_str::<Vec<Value>>(&format!("[{},{bad}]", DOCS[0]));
                let _ = sonic_rs::from_str::<sonic_rs::OwnedLazyValue>(bad);
                let _ = Deserializer::from_str(bad).deserialize::<Value>();
            }
            13 if allow_threads => {
                // hand a holder to another thread: read it there; drop it there or send it back
                let Some(a) = pick(&mut src, &live) else { continue };
                let back = src.bool();
                name = format!("holder {a} to another thread ({})", if back { "sent back" } else { "dropped there" });
                let h = st.hs[a].take().unwrap();
                let want = mdump(&h.m);
                let (v, m, root, rd) = (h.v, h.m, h.root, h.root_dropped);
                let r = std::thread::spawn(move || {
                    let got = dump(&v);
                    if back {
                        (got, Some(v))
                    } else {
                        drop(v);
                        (got, None)
                    }
                })
                .join()
                .map_err(|_| Fail::new("C16/thread-panicked", "reader thread panicked"))?;
                ensure!(r.0 == want, "C16/holder-corrupted/other-thread", "holder {a} read on another thread gives {} instead of {}", trunc(&r.0, 200), trunc(&want, 200));
                st.nontrivial = true;
                if let Some(v) = r.1 {
                    st.hs[a] = Some(H { v, m, root, root_dropped: rd });
                }
            }
            21 => {
                // a by-value array iterator and a clone of it (read on another thread when allowed): each must
                // see all remaining elements, whatever the other one does
                let Some(a) = pick(&mut src, &live) else { continue };
                let path = choose_path(&st.hs[a].as_ref().unwrap().m, &mut src);
                name = format!("into_iter of holder {a} at {path:?}, cloned");
                let h = st.hs[a].as_ref().unwrap();
                if let (Some(v), Some(M::Arr(items))) = (h.v.pointer(&path), m_at(&h.m, &path)) {
                    if let Some(arr) = v.as_array() {
                        let mut it = arr.clone().into_iter();
                        let skip = src.below(2);
                        let mut want: Vec<String> = items.iter().map(mdump).collect();
                        for _ in 0..skip {
                            let _ = it.next();
                            if !want.is_empty() {
                                want.remove(0);
                            }
                        }
                        let twin = it.clone();
                        let second: Vec<String> = if allow_threads {
                            std::thread::spawn(move || twin.map(|x| dump(&x)).collect::<Vec<_>>()).join().map_err(|_| Fail::new("C16/thread-panicked", "iterator thread panicked"))?
                        } else {
                            twin.map(|x| dump(&x)).collect()
                        };
                        let first: Vec<String> = it.map(|x| dump(&x)).collect();
                        ensure!(first == want && second == want, "C16/holder-corrupted/iterator-clone", "after [{}] {name}: the iterator yields {:?}, its clone {:?}, expected {:?}", st.log.join("; "), first, second, want);
                        st.nontrivial = true;
                    }
                }
            }
            22 if allow_big => {
                // one deserializer reads > 4 MiB of documents whose values are dropped before the next one
                // is read (nothing keeps the deserializer's arena alive in between)
                name = "long stream through one deserializer, values dropped in between".into();
                static TEXT: std::sync::OnceLock<String> = std::sync::OnceLock::new();
                let text = TEXT.get_or_init(|| {
                    let mut one = String::from("[");
                    for i in 0..4000 {
                        if i > 0 {
                            one.push(',');
                        }
                        one.push_str("{\"k\":[1,2],\"s\":\"abcdefgh\"}");
                    }
                    one.push(']');
                    let mut t = String::from("0");
                    for _ in 0..48 {
                        t.push(' ');
                        t.push_str(&one);
                    }
                    t
                });
                // first: a small later-document value from another deserializer, then a large later-document value
                // (above the thread-local node buffer) with the same member names; the small one is dropped
                // before the large one is read
                {
                    static BIG: std::sync::OnceLock<String> = std::sync::OnceLock::new();
                    let bigtext = BIG.get_or_init(|| {
                        let mut one = String::from("0 [");
                        for i in 0..16_000 {
                            if i > 0 {
                                one.push(',');
                            }
                            one.push_str("{\"k\":[1,2],\"s\":\"abcdefgh\"}");
                        }
                        one.push(']');
                        one
                    });
                    let mut small_de = Deserializer::from_str("0 {\"k\":[1,2],\"s\":\"abcdefgh\",\"id\":7}");
                    let _z: Value = small_de.deserialize().unwrap();
                    let small: Value = small_de.deserialize().unwrap();
                    let mut big_de = Deserializer::from_str(bigtext);
                    let _z: Value = big_de.deserialize().unwrap();
                    let big: Value = big_de.deserialize().map_err(|e| Fail::new("C16/rejects-valid", format!("large later document: {e}")))?;
                    ensure!(dump(&small) == "{\"id\":u7,\"k\":[u1,u2],\"s\":\"abcdefgh\"}", "C16/holder-corrupted/large-later-document", "the small value reads {}", trunc(&dump(&small), 100));
                    drop(small);
                    drop(small_de);
                    let junk: Vec<Vec<u8>> = (0..8).map(|i| vec![0x5a; 100 + i * 40]).collect();
                    for i in [0usize, 1, 8_000, 15_999] {
                        ensure!(dump(&big[i]) == "{\"k\":[u1,u2],\"s\":\"abcdefgh\"}", "C16/holder-corrupted/large-later-document", "element {i} of a large later-document value reads {} after an earlier value of another deserializer was dropped", trunc(&dump(&big[i]), 100));
                    }
                    drop(junk);
                    drop(big_de);
                    ensure!(big.as_array().map(|a| a.len()) == Some(16_000) && dump(&big[15_999]) == "{\"k\":[u1,u2],\"s\":\"abcdefgh\"}", "C16/holder-corrupted/large-later-document", "a large later-document value reads wrong after its deserializer was dropped");
                }
                let mut de = Deserializer::from_str(text);
                let _z: Value = de.deserialize().unwrap();
                let mut kept: Option<Value> = None;
                for k in 0..48 {
                    let v: Value = de.deserialize().map_err(|e| Fail::new("C16/rejects-valid", format!("document {k} of the long stream: {e}")))?;
                    let ok = v.as_array().map(|a| a.len()) == Some(4000) && v[3999]["s"].as_str() == Some("abcdefgh") && v[0]["k"][1].as_u64() == Some(2) && v[2000]["k"].as_array().map(|a| a.len()) == Some(2);
                    ensure!(ok, "C16/holder-corrupted/long-stream", "document {k} of a long stream reads wrong: {}", trunc(&dump(&v[3999]), 100));
                    if k % 16 == 7 && src.bool() {
                        kept = Some(v[1].clone());
                    } else if k % 16 == 15 {
                        kept = None;
                    }
                }
                drop(de);
                if let Some(kv) = kept {
                    ensure!(dump(&kv) == "{\"k\":[u1,u2],\"s\":\"abcdefgh\"}", "C16/holder-corrupted/long-stream", "a value kept from a long stream reads {}", trunc(&dump(&kv), 100));
                }
            }
            14 if allow_big => {
                name = "parse a document above the thread-local buffer threshold".into();
                let d = big_doc();
                let v: Value = sonic_rs::from_str(&d).unwrap();
                let c = v.pointer(&[PointerNode::Index(419_999)]).cloned();
                drop(v);
                ensure!(c.map(|c| dump(&c)) == Some("[u1,{}]".to_string()), "C16/holder-corrupted/big-doc", "clone out of a >3MB document reads wrong after the document was dropped");
            }
            _ => {
                name = "read all".into();
            }
        }
        st.log.push(name.clone());
        st.check(&name)?;
    }
    // drop the survivors in a generated order, reading all others after every drop
    let mut live = st.live();
    while !live.is_empty() {
        let k = src.below(live.len());
        let i = live.remove(k);
        st.drop_holder(i);
        st.log.push(format!("final drop {i}"));
        st.check("final-drop")?;
    }
    let _ = &st.dropped_roots;
    Ok((st.nontrivial, st.log.join("; ")))
}

fn leak_checked(case: &[u8], obs: &mut Obs, threads: bool, big: bool) -> Result<(), Fail> {
    alloc::set_strict(true);
    let f0 = alloc::faults();
    // warm-up run: brings thread-local buffers to their steady size
    let r1 = run_history(case, threads, big);
    let r1 = match r1 {
        Ok(x) => x,
        Err(e) => {
            alloc::set_strict(false);
            return Err(e);
        }
    };
    alloc::flush_quarantine();
    let before = alloc::thread_live();
    let r2 = run_history(case, false, big).map(|_| ());
    alloc::flush_quarantine();
    let after = alloc::thread_live();
    alloc::set_strict(false);
    let f1 = alloc::faults();
    r2?;
    if r1.0 {
        obs.nt();
    }
    obs.render = Some(r1.1.clone());
    ensure!(f1.0 == f0.0, "C16/double-free", "a block was freed twice during [{}]", r1.1);
    ensure!(f1.1 == f0.1, "C16/write-after-free", "freed memory was written during [{}]", r1.1);
    ensure!(after == before, "C16/leak", "history [{}] leaves {} allocations / {} bytes behind on its second run", r1.1, after.0 - before.0, after.1 - before.1);
    Ok(())
}

pub fn oracle(case: &[u8], obs: &mut Obs) -> Result<(), Fail> {
    leak_checked(case, obs, false, false)
}

/// fuzzing entry: the history without thread hand-off and without the 3 MB document (ASan and
/// LSan are the memory oracle there)
pub fn oracle_fuzz(case: &[u8], obs: &mut Obs) -> Result<(), Fail> {
    let r = run_history(case, false, false)?;
    if r.0 {
        obs.nt();
    }
    Ok(())
}

pub fn oracle_threads(case: &[u8], obs: &mut Obs) -> Result<(), Fail> {
    // histories with hand-off to other threads: the oracle is the dumps (and the quarantine);
    // leak accounting for these runs through the global counters in `oracle_stress`
    alloc::set_strict(true);
    let f0 = alloc::faults();
    let r = run_history(case, true, case.first().map(|b| b % 16 == 0).unwrap_or(false));
    alloc::flush_quarantine();
    alloc::set_strict(false);
    let f1 = alloc::faults();
    let r = r?;
    ensure!(f1.0 == f0.0, "C16/double-free", "a block was freed twice during [{}]", r.1);
    ensure!(f1.1 == f0.1, "C16/write-after-free", "freed memory was written during [{}]", r.1);
    if r.0 {
        obs.nt();
    }
    obs.render = Some(r.1);
    Ok(())
}

/// drop-order permutations: case = [shape][perm index u16]
pub fn oracle_perm(case: &[u8], obs: &mut Obs) -> Result<(), Fail> {
    if case.len() < 3 {
        return Ok(());
    }
    let shape = case[0] % 6;
    let mut perm_idx = ((case[1] as usize) << 8) | case[2] as usize;
    alloc::set_strict(true);
    let f0 = alloc::faults();
    let mut result = Ok(());
    let mut lives = Vec::with_capacity(4);
    for round in 0..2 {
        if round == 1 {
            alloc::flush_quarantine();
            lives.push(alloc::thread_live());
        }
        // build the sharing shape: holders (value, model)
        let d = DOCS[shape as usize % 3];
        let root: Value = sonic_rs::from_str(d).unwrap();
        let rm = model_of(d);
        let mut hs: Vec<(Value, M)> = Vec::new();
        match shape {
            0 | 1 | 2 => {
                // root + clones of subtrees + a take + a clone of a clone
                let paths = root_paths(&rm);
                for p in paths.iter().take(3) {
                    hs.push((root.pointer(p).unwrap().clone(), m_at(&rm, p).unwrap().clone()));
                }
                let c2 = hs[0].0.clone();
                let m2 = hs[0].1.clone();
                hs.push((c2, m2));
                let mut root = root;
                let mut rm = rm;
                if let Some(p) = paths.get(3) {
                    let t = root.pointer_mut(p).unwrap().take();
                    let tm = std::mem::replace(m_at_mut(&mut rm, p).unwrap(), M::Null);
                    hs.push((t, tm));
                }
                hs.push((root, rm));
            }
            3 => {
                // values of one deserializer
                let text = format!("0 {} {} {}", DOCS[0], DOCS[1], DOCS[2]);
                let mut de = Deserializer::from_str(&text);
                let _z: Value = de.deserialize().unwrap();
                for k in 0..3 {
                    let v: Value = de.deserialize().unwrap();
                    hs.push((v, model_of(DOCS[k])));
                }
                let c = hs[1].0.pointer(&[PointerNode::Index(2)]).unwrap().clone();
                let cm = m_at(&hs[1].1, &[PointerNode::Index(2)]).unwrap().clone();
                hs.push((c, cm));
                drop(de);
                drop(root);
            }
            4 => {
                // a document holding clones of another document's subtrees
                let mut target: Value = sonic_rs::from_str("[]").unwrap();
                let mut tm = Vec::new();
                for p in root_paths(&rm).iter().take(3) {
                    target.as_array_mut().unwrap().push(root.pointer(p).unwrap().clone());
                    tm.push(m_at(&rm, p).unwrap().clone());
                }
                hs.push((target.clone(), M::Arr(tm.clone())));
                hs.push((target, M::Arr(tm)));
                hs.push((root.clone(), rm.clone()));
                hs.push((root, rm));
            }
            _ => {
                // struct fields
                let text = format!("{{\"a\":{},\"b\":{},\"d\":[{},{}]}}", DOCS[0], DOCS[1], DOCS[2], DOCS[5]);
                let m: Many = sonic_rs::from_str(&text).unwrap();
                hs.push((m.a, model_of(DOCS[0])));
                hs.push((m.b, model_of(DOCS[1])));
                let mut d = m.d;
                hs.push((d.pop().unwrap(), model_of(DOCS[5])));
                hs.push((d.pop().unwrap(), model_of(DOCS[2])));
                drop(root);
            }
        }
        // the perm_idx-th permutation of the holders (factorial number system)
        let n = hs.len();
        let mut order = Vec::new();
        let mut idxs: Vec<usize> = (0..n).collect();
        let mut pi = perm_idx;
        for k in (1..=n).rev() {
            order.push(idxs.remove(pi % k));
            pi /= k;
        }
        let mut slots: Vec<Option<(Value, M)>> = hs.into_iter().map(Some).collect();
        for (step, &i) in order.iter().enumerate() {
            slots[i] = None;
            for (j, s) in slots.iter().enumerate() {
                if let Some((v, m)) = s {
                    let got = dump(v);
                    if got != mdump(m) {
                        result = Err(Fail::new("C16/holder-corrupted/drop-order", format!("shape {shape}, drop order {order:?}: after dropping {} holders, holder {j} reads as {} instead of {}", step + 1, trunc(&got, 200), trunc(&mdump(m), 200))));
                    }
                }
            }
        }
        perm_idx = ((case[1] as usize) << 8) | case[2] as usize;
    }
    alloc::flush_quarantine();
    lives.push(alloc::thread_live());
    alloc::set_strict(false);
    let f1 = alloc::faults();
    result?;
    obs.nt();
    ensure!(f1.0 == f0.0, "C16/double-free", "a block was freed twice (shape {shape}, permutation {perm_idx})");
    ensure!(f1.1 == f0.1, "C16/write-after-free", "freed memory was written (shape {shape}, permutation {perm_idx})");
    ensure!(lives[0] == lives[1], "C16/leak", "shape {shape}, permutation {perm_idx}: {} allocations / {} bytes are left behind", lives[1].0 - lives[0].0, lives[1].1 - lives[0].1);
    Ok(())
}

fn root_paths(m: &M) -> Vec<Vec<PointerNode>> {
    let mut out = Vec::new();
    fn rec(m: &M, cur: &mut Vec<PointerNode>, out: &mut Vec<Vec<PointerNode>>) {
        if !cur.is_empty() {
            out.push(cur.clone());
        }
        match m {
            M::Arr(v) => {
                for (i, x) in v.iter().enumerate() {
                    cur.push(PointerNode::Index(i));
                    rec(x, cur, out);
                    cur.pop();
                }
            }
            M::Obj(v) => {
                for (k, x) in v {
                    cur.push(PointerNode::Key(faststr::FastStr::new(k)));
                    rec(x, cur, out);
                    cur.pop();
                }
            }
            _ => {}
        }
    }
    rec(m, &mut Vec::new(), &mut out);
    // containers first: they hold more shared nodes
    out.sort_by_key(|p| match m_at(m, p) {
        Some(M::Arr(_)) | Some(M::Obj(_)) => 0,
        _ => 1,
    });
    out
}

/// thread stress: case = [threads][shape][rounds]
pub fn oracle_stress(case: &[u8], obs: &mut Obs) -> Result<(), Fail> {
    let nthreads = [2usize, 4, 8][case.first().copied().unwrap_or(0) as usize % 3];
    let d = DOCS[case.get(1).copied().unwrap_or(0) as usize % 3];
    let rounds = 4 + case.get(2).copied().unwrap_or(0) as usize % 12;
    let want_root = mdump(&model_of(d));
    obs.nt();
    obs.render = Some(format!("{nthreads} threads x {rounds} rounds over {d}"));
    let f0 = alloc::faults();
    alloc::set_strict_all(true);
    let mut baseline = None;
    let mut result: Result<(), Fail> = Ok(());
    for round in 0..3 {
        if round == 1 {
            baseline = Some(alloc::global_live());
        }
        let root: Value = sonic_rs::from_str(d).unwrap();
        let rm = model_of(d);
        let paths = root_paths(&rm);
        let barrier = std::sync::Arc::new(std::sync::Barrier::new(nthreads));
        let mut handles = Vec::new();
        // every thread gets its own clone of the root and of some subtrees; the root itself is
        // dropped by the main thread while the others are still reading
        for t in 0..nthreads {
            let mine = root.clone();
            let subs: Vec<(Value, String)> = paths.iter().skip(t % 2).step_by(2).take(3).map(|p| (root.pointer(p).unwrap().clone(), mdump(m_at(&rm, p).unwrap()))).collect();
            let b = barrier.clone();
            let want_root = want_root.clone();
            handles.push(std::thread::spawn(move || -> Result<(), String> {
                let mut kept: Vec<(Value, String)> = subs;
                for r in 0..rounds {
                    b.wait();
                    if dump(&mine) != want_root {
                        return Err(format!("thread {t} round {r}: root clone corrupted"));
                    }
                    for (v, w) in &kept {
                        if dump(v) != *w {
                            return Err(format!("thread {t} round {r}: subtree clone corrupted"));
                        }
                    }
                    // clone, read, drop in varying order
                    let c = kept[r % kept.len()].0.clone();
                    let w = kept[r % kept.len()].1.clone();
                    if r % 3 == 0 {
                        kept.remove(0);
                    }
                    kept.push((c, w));
                }
                b.wait();
                drop(mine);
                Ok(())
            }));
        }
        drop(root);
        for h in handles {
            match h.join() {
                Ok(Ok(())) => {}
                Ok(Err(e)) => result = Err(Fail::new("C16/holder-corrupted/thread-stress", e)),
                Err(_) => result = Err(Fail::new("C16/thread-panicked", "a stress thread panicked")),
            }
        }
    }
    alloc::set_strict_all(false);
    let end = alloc::global_live();
    let f1 = alloc::faults();
    result?;
    ensure!(f1.0 == f0.0, "C16/double-free", "a block was freed twice in the thread stress");
    ensure!(f1.1 == f0.1, "C16/write-after-free", "freed memory was written in the thread stress");
    // quarantined blocks of finished threads are counted as freed at dealloc time; allow nothing else
    let b = baseline.unwrap();
    ensure!(end.0 <= b.0 + 2 && end.1 <= b.1 + 4096, "C16/leak/threads", "thread stress leaves {} allocations / {} bytes behind", end.0 - b.0, end.1 - b.1);
    Ok(())
}

pub fn subs() -> Vec<Sub<'static>> {
    vec![
        Sub { name: "histories", oracle: &oracle, minimise_bytes: false },
        Sub { name: "thread-handoff", oracle: &oracle_threads, minimise_bytes: false },
        Sub { name: "drop-orders", oracle: &oracle_perm, minimise_bytes: false },
        Sub { name: "thread-stress", oracle: &oracle_stress, minimise_bytes: false },
        Sub { name: "fuzz-histories", oracle: &oracle_fuzz, minimise_bytes: false },
    ]
}

pub fn run(ctx: &Ctx) {
    let subs = subs();
    // exhaustive drop orders
    ctx.sweep(&subs[2], true, &|shard, n, emit| {
        let mut k = 0usize;
        for shape in 0..6u8 {
            let holders = match shape {
                0 | 1 | 2 => 6,
                3 | 4 | 5 => 4,
                _ => 4,
            };
            let perms: usize = (1..=holders).product();
            for p in 0..perms {
                k += 1;
                if k % n != shard {
                    continue;
                }
                if !emit(&[shape, (p >> 8) as u8, p as u8]) {
                    return;
                }
            }
        }
    });
    ctx.mark_exhaustive("every drop order (all permutations) of the holders of 6 sharing shapes (up to 6 holders)");
    ctx.search(&subs[0], "random", ctx.n(450_000, 4_000_000), 200, &|src: &mut Src| src.rest().to_vec());
    ctx.search(&subs[1], "random", ctx.n(24_000, 200_000), 200, &|src: &mut Src| src.rest().to_vec());
    // thread stress runs alone (global live counters): sequentially on the calling thread
    let mut list = Vec::new();
    for t in 0..3u8 {
        for shape in 0..3u8 {
            for r in [0u8, 5, 11] {
                list.push(vec![t, shape, r]);
            }
        }
    }
    if !ctx.quick() {
        let more = list.clone();
        for _ in 0..10 {
            list.extend(more.clone());
        }
    }
    ctx.cases(&subs[3], &list);
}
