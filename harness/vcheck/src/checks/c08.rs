//! C08 — numbers are written so that they read back bit-identically.

use sonic_rs::{JsonNumberTrait, JsonValueTrait, RawNumber, Value};
use vbase::engine::{Ctx, Fail, Obs, Src, Sub};
use vbase::gens;
use vbase::refjson;
use vbase::{ensure, fail};

pub const RULE: &str = "cases are numeric values and raw-number literals: f32 bit patterns (2^32 exhaustive in the thorough tier; in quick every exponent x boundary mantissas plus a strided+random sample), f64 bit patterns (every binary exponent x mantissa patterns {0,1,all-ones,single bits,random}, +-3 ulps around every power of two and ten, subnormal boundaries, random), all u8/i8/u16/i16 values (exhaustive), boundary and random u32..u128/i32..i128; each value is serialized (to_string, to_vec, and through to_value/Value::from + to_string) and read back into the same type — bare, behind whitespace, and inside pretty-printed tuples/arrays/maps — the bits must be identical and the text a number by the reference grammar. Raw numbers: literals of the C07 generator and malformed candidates, bare and quoted; a RawNumber deserializes iff the literal satisfies the number grammar, as_str()/to_string reproduce it verbatim, as_i64/as_u64/as_f64 equal std parsing; in a DOM parsed with use_rawnumber every literal is reproduced verbatim, also after the containers holding it were edited, cloned, or the number was moved. Known finding F32 (C08/f32/readback/double-rounding): f32 values whose shortest text, read as f64 and narrowed once as C07 prescribes, is the adjacent f32 are counted and excluded; any other f32 read-back difference is a violation. Non-trivial = float whose shortest representation has >= 2 significant digits or an exponent, or integer of >= 10 digits, or any raw literal that is not a plain short integer; distinct by (type, bits).";
pub const ASSUMPTIONS: &[&str] = &["Rust std float/integer parsing is exact", "reference number grammar (RFC 8259)"];

fn nontrivial_text(s: &str) -> bool {
    let sig = s.bytes().filter(|c| c.is_ascii_digit()).count();
    s.bytes().any(|c| c == b'e' || c == b'E') || (s.contains('.') && sig >= 2) || sig >= 10
}

macro_rules! roundtrip_int {
    ($t:ty, $x:expr, $obs:expr) => {{
        let x: $t = $x;
        let s = sonic_rs::to_string(&x).map_err(|e| Fail::new(format!("C08/{}/ser-error", stringify!($t)), format!("to_string({x}) failed: {e}")))?;
        ensure!(s == x.to_string(), format!("C08/{}/text", stringify!($t)), "to_string({}{}) = {:?}", x, stringify!($t), s);
        ensure!(refjson::is_number(s.as_bytes()), format!("C08/{}/not-a-number", stringify!($t)), "to_string({x}) = {:?} is not a JSON number", s);
        let v = sonic_rs::to_vec(&x).unwrap_or_default();
        ensure!(v == s.as_bytes(), format!("C08/{}/to_vec", stringify!($t)), "to_vec != to_string for {x}");
        let back: Result<$t, _> = sonic_rs::from_str(&s);
        match back {
            Ok(y) => ensure!(y == x, format!("C08/{}/readback", stringify!($t)), "{}{} -> {:?} -> {}", x, stringify!($t), s, y),
            Err(e) => fail!(format!("C08/{}/readback", stringify!($t)), "{}{} -> {:?} -> Err({e})", x, stringify!($t), s),
        }
        // the same number inside pretty output / behind whitespace reads back too
        let pretty = sonic_rs::to_string_pretty(&(x, [x, x], std::collections::BTreeMap::from([("k", x)]))).map_err(|e| Fail::new(format!("C08/{}/ser-error", stringify!($t)), format!("{e}")))?;
        let back: Result<($t, [$t; 2], std::collections::BTreeMap<String, $t>), _> = sonic_rs::from_str(&pretty);
        match back {
            Ok((a, b, m)) => ensure!(a == x && b == [x, x] && m.get("k") == Some(&x), format!("C08/{}/readback-pretty", stringify!($t)), "{}{} -> {:?} -> ({a}, {b:?}, {m:?})", x, stringify!($t), pretty),
            Err(e) => fail!(format!("C08/{}/readback-pretty", stringify!($t)), "{}{} -> {:?} -> Err({e})", x, stringify!($t), pretty),
        }
        let padded = format!(" \n\t{s}\r\n ");
        match sonic_rs::from_str::<$t>(&padded) {
            Ok(y) => ensure!(y == x, format!("C08/{}/readback-padded", stringify!($t)), "{}{} -> {:?} -> {}", x, stringify!($t), padded, y),
            Err(e) => fail!(format!("C08/{}/readback-padded", stringify!($t)), "{}{} -> {:?} -> Err({e})", x, stringify!($t), padded),
        }
        if nontrivial_text(&s) {
            $obs.nt();
        }
    }};
}

fn f64_case(x: f64, obs: &mut Obs) -> Result<(), Fail> {
    let s = sonic_rs::to_string(&x).map_err(|e| Fail::new("C08/f64/ser-error", format!("{e}")))?;
    if !x.is_finite() {
        ensure!(s == "null", "C08/f64/non-finite", "to_string({x:?}) = {:?}", s);
        return Ok(());
    }
    ensure!(refjson::is_number(s.as_bytes()), "C08/f64/not-a-number", "to_string({x:?}) = {:?} is not a JSON number", s);
    let back: f64 = sonic_rs::from_str(&s).map_err(|e| Fail::new("C08/f64/readback", format!("{x:?} -> {s:?} -> Err({e})")))?;
    ensure!(back.to_bits() == x.to_bits(), "C08/f64/readback", "{x:?} (bits {:#x}) -> {:?} -> {back:?} (bits {:#x})", x.to_bits(), s, back.to_bits());
    let v = sonic_rs::to_vec(&x).unwrap_or_default();
    ensure!(v == s.as_bytes(), "C08/f64/to_vec", "to_vec != to_string for {x:?}");
    let pretty = sonic_rs::to_string_pretty(&(x, [x, x], std::collections::BTreeMap::from([("k", x)]))).map_err(|e| Fail::new("C08/f64/ser-error", format!("{e}")))?;
    let (a, b, m): (f64, [f64; 2], std::collections::BTreeMap<String, f64>) = sonic_rs::from_str(&pretty).map_err(|e| Fail::new("C08/f64/readback-pretty", format!("{x:?} -> {pretty:?} -> Err({e})")))?;
    ensure!([a, b[0], b[1], m["k"]].iter().all(|y| y.to_bits() == x.to_bits()), "C08/f64/readback-pretty", "{x:?} -> {pretty:?} -> ({a:?}, {b:?}, {m:?})");
    let padded = format!(" \n\t{s}\r\n ");
    let y: f64 = sonic_rs::from_str(&padded).map_err(|e| Fail::new("C08/f64/readback-padded", format!("{x:?} -> {padded:?} -> Err({e})")))?;
    ensure!(y.to_bits() == x.to_bits(), "C08/f64/readback-padded", "{x:?} -> {padded:?} -> {y:?}");
    // through the DOM
    let dom = Value::try_from(x).map_err(|e| Fail::new("C08/f64/dom", format!("Value::try_from({x:?}) failed: {e}")))?;
    ensure!(dom.as_f64().map(f64::to_bits) == Some(x.to_bits()), "C08/f64/dom", "Value::try_from({x:?}).as_f64() = {:?}", dom.as_f64());
    let ds = sonic_rs::to_string(&dom).map_err(|e| Fail::new("C08/f64/dom", format!("{e}")))?;
    let back: Value = sonic_rs::from_str(&ds).map_err(|e| Fail::new("C08/f64/dom", format!("{x:?} -> {ds:?} -> Err({e})")))?;
    // an integral float is printed with ".0" or an exponent, so it must come back as a float
    ensure!(back.as_f64().map(f64::to_bits) == Some(x.to_bits()), "C08/f64/dom-readback", "{x:?} -> DOM -> {ds:?} -> {:?}", back.as_f64());
    ensure!(back.is_f64(), "C08/f64/dom-class", "{x:?} -> DOM -> {ds:?} reads back as a non-float number");
    let tv = sonic_rs::to_value(&x).map_err(|e| Fail::new("C08/f64/to_value", format!("{e}")))?;
    ensure!(tv.as_f64().map(f64::to_bits) == Some(x.to_bits()) && tv.is_f64(), "C08/f64/to_value", "to_value({x:?}) = {:?}", tv);
    if nontrivial_text(&s) {
        obs.nt();
    }
    Ok(())
}

fn f32_case(x: f32, obs: &mut Obs) -> Result<(), Fail> {
    let s = sonic_rs::to_string(&x).map_err(|e| Fail::new("C08/f32/ser-error", format!("{e}")))?;
    if !x.is_finite() {
        ensure!(s == "null", "C08/f32/non-finite", "to_string({x:?}) = {:?}", s);
        return Ok(());
    }
    ensure!(refjson::is_number(s.as_bytes()), "C08/f32/not-a-number", "to_string({x:?}f32) = {:?} is not a JSON number", s);
    let back: f32 = sonic_rs::from_str(&s).map_err(|e| Fail::new("C08/f32/readback", format!("{x:?} -> {s:?} -> Err({e})")))?;
    if back.to_bits() != x.to_bits() {
        // Known finding F32: the text is the shortest decimal that identifies x among f32 values, but an f32
        // target receives the f64 nearest to the text narrowed once (C07's rule); for about one value in
        // 2^29 that f64 is a tie of two f32 values or lies beyond x's rounding interval. That class — and
        // only that class — has its own signature: the reading side did exactly what C07 prescribes.
        let by_rule = s.parse::<f64>().ok().map(|f| f as f32);
        if by_rule.map(f32::to_bits) == Some(back.to_bits()) {
            fail!("C08/f32/readback/double-rounding", "{x:?}f32 (bits {:#x}) -> {:?} -> {back:?} (bits {:#x}): the shortest f32 text, read as f64 and narrowed, is the adjacent f32", x.to_bits(), s, back.to_bits());
        }
        fail!("C08/f32/readback", "{x:?}f32 (bits {:#x}) -> {:?} -> {back:?} (bits {:#x})", x.to_bits(), s, back.to_bits());
    }
    let pretty = sonic_rs::to_string_pretty(&(x, [x, x])).map_err(|e| Fail::new("C08/f32/ser-error", format!("{e}")))?;
    let (a, b): (f32, [f32; 2]) = sonic_rs::from_str(&pretty).map_err(|e| Fail::new("C08/f32/readback-pretty", format!("{x:?} -> {pretty:?} -> Err({e})")))?;
    ensure!([a, b[0], b[1]].iter().all(|y| y.to_bits() == x.to_bits()), "C08/f32/readback-pretty", "{x:?}f32 -> {pretty:?} -> ({a:?}, {b:?})");
    if nontrivial_text(&s) {
        obs.nt();
    }
    Ok(())
}

/// case encoding: tag byte + little-endian payload
pub fn oracle_num(case: &[u8], obs: &mut Obs) -> Result<(), Fail> {
    if case.is_empty() {
        return Ok(());
    }
    let mut p = [0u8; 16];
    let n = (case.len() - 1).min(16);
    p[..n].copy_from_slice(&case[1..1 + n]);
    let u = u128::from_le_bytes(p);
    match case[0] {
        0 => {
            obs.render = Some(format!("f32 bits {:#010x} = {:?}", u as u32, f32::from_bits(u as u32)));
            f32_case(f32::from_bits(u as u32), obs)
        }
        1 => {
            obs.render = Some(format!("f64 bits {:#018x} = {:?}", u as u64, f64::from_bits(u as u64)));
            f64_case(f64::from_bits(u as u64), obs)
        }
        2 => {
            roundtrip_int!(u8, u as u8, obs);
            roundtrip_int!(i8, u as u8 as i8, obs);
            Ok(())
        }
        3 => {
            roundtrip_int!(u16, u as u16, obs);
            roundtrip_int!(i16, u as u16 as i16, obs);
            Ok(())
        }
        4 => {
            roundtrip_int!(u32, u as u32, obs);
            roundtrip_int!(i32, u as u32 as i32, obs);
            Ok(())
        }
        5 => {
            let x = u as u64;
            obs.render = Some(format!("u64/i64 {x} / {}", x as i64));
            roundtrip_int!(u64, x, obs);
            roundtrip_int!(i64, x as i64, obs);
            roundtrip_int!(usize, x as usize, obs);
            roundtrip_int!(isize, x as isize, obs);
            // through the DOM
            let d = Value::from(x);
            ensure!(d.as_u64() == Some(x), "C08/u64/dom", "Value::from({x}u64).as_u64() = {:?}", d.as_u64());
            let ds = sonic_rs::to_string(&d).unwrap_or_default();
            ensure!(ds == x.to_string(), "C08/u64/dom-text", "Value::from({x}u64) serializes as {:?}", ds);
            let b: Value = sonic_rs::from_str(&ds).map_err(|e| Fail::new("C08/u64/dom-readback", format!("{e}")))?;
            ensure!(b.as_u64() == Some(x) && b.is_u64(), "C08/u64/dom-readback", "{x} -> {ds:?} -> {:?}", b);
            let i = x as i64;
            let d = Value::from(i);
            ensure!(d.as_i64() == Some(i), "C08/i64/dom", "Value::from({i}i64).as_i64() = {:?}", d.as_i64());
            let ds = sonic_rs::to_string(&d).unwrap_or_default();
            ensure!(ds == i.to_string(), "C08/i64/dom-text", "Value::from({i}i64) serializes as {:?}", ds);
            let b: Value = sonic_rs::from_str(&ds).map_err(|e| Fail::new("C08/i64/dom-readback", format!("{e}")))?;
            ensure!(b.as_i64() == Some(i) && b.is_i64(), "C08/i64/dom-readback", "{i} -> {ds:?} -> {:?}", b);
            let tv = sonic_rs::to_value(&x).map_err(|e| Fail::new("C08/u64/to_value", format!("{e}")))?;
            ensure!(tv.as_u64() == Some(x), "C08/u64/to_value", "to_value({x}) = {:?}", tv);
            // every integer conversion into the DOM (From impls of Value and Number, collect)
            let (us, is) = (x as usize, x as isize);
            ensure!(Value::from(us).as_u64() == Some(us as u64) && sonic_rs::to_string(&Value::from(us)).ok() == Some(us.to_string()), "C08/usize/dom", "Value::from({us}usize) = {:?}", Value::from(us));
            ensure!(Value::from(is).as_i64() == Some(is as i64) && sonic_rs::to_string(&Value::from(is)).ok() == Some(is.to_string()), "C08/isize/dom", "Value::from({is}isize) = {:?}", Value::from(is));
            ensure!(sonic_rs::Number::from(us).as_u64() == Some(us as u64) && sonic_rs::Number::from(x).as_u64() == Some(x) && sonic_rs::Number::from(i).as_i64() == Some(i) && sonic_rs::Number::from(is).as_i64() == Some(is as i64), "C08/number/from", "Number::from of {x} as u64/i64/usize/isize is wrong");
            let arr: Value = vec![us, 0usize].into_iter().collect();
            ensure!(sonic_rs::to_string(&arr).ok() == Some(format!("[{us},0]")), "C08/usize/dom", "collect::<Value>() of [{us}usize, 0] = {:?}", sonic_rs::to_string(&arr));
            for (w, t) in [((x as u32) as u64, sonic_rs::to_string(&Value::from(x as u32))), ((x as u16) as u64, sonic_rs::to_string(&Value::from(x as u16))), ((x as u8) as u64, sonic_rs::to_string(&Value::from(x as u8)))] {
                ensure!(t.ok() == Some(w.to_string()), "C08/uN/dom", "Value::from of a narrower unsigned {w} serializes wrongly");
            }
            for (w, t) in [((x as i32) as i64, sonic_rs::to_string(&Value::from(x as i32))), ((x as i16) as i64, sonic_rs::to_string(&Value::from(x as i16))), ((x as i8) as i64, sonic_rs::to_string(&Value::from(x as i8)))] {
                ensure!(t.ok() == Some(w.to_string()), "C08/iN/dom", "Value::from of a narrower signed {w} serializes wrongly");
            }
            Ok(())
        }
        _ => {
            obs.render = Some(format!("u128/i128 {u} / {}", u as i128));
            roundtrip_int!(u128, u, obs);
            roundtrip_int!(i128, u as i128, obs);
            Ok(())
        }
    }
}

/// raw numbers: case = candidate literal
pub fn oracle_raw(case: &[u8], obs: &mut Obs) -> Result<(), Fail> {
    let Ok(lit) = std::str::from_utf8(case) else { return Ok(()) };
    if lit.bytes().any(|c| c == b'"' || c == b'\\' || c < 0x20) {
        return Ok(());
    }
    let valid = refjson::is_number(case);
    if valid && nontrivial_text(lit) || !valid && lit.len() >= 2 {
        obs.nt();
    }
    obs.label(if valid { "valid-literal" } else { "malformed-candidate" });
    let quoted = format!("\"{lit}\"");
    // around a bare literal JSON whitespace is insignificant; inside quotes it is not
    let trimmed = lit.trim_matches(|c| c == ' ' || c == '\t' || c == '\n' || c == '\r');
    let valid_trimmed = refjson::is_number(trimmed.as_bytes());
    for (form, text) in [("bare", lit.to_string()), ("quoted", quoted), ("bare+ws", format!(" {lit}\n")), ("in-array", format!("[{lit}]"))] {
        let (valid, lit) = if form == "quoted" { (valid, lit) } else { (valid_trimmed, trimmed) };
        let r: Result<RawNumber, _> = if form == "in-array" { sonic_rs::from_str::<(RawNumber,)>(&text).map(|t| t.0) } else { sonic_rs::from_str::<RawNumber>(&text) };
        match (valid, r) {
            (true, Err(e)) => fail!(format!("C08/raw/{form}/rejects-valid"), "from_str::<RawNumber>({:?}) failed: {e}", text),
            (false, Ok(r)) => fail!(format!("C08/raw/{form}/accepts-invalid"), "from_str::<RawNumber>({:?}) = {:?} although {:?} is not a JSON number", text, r.as_str(), lit),
            (false, Err(_)) => {}
            (true, Ok(r)) => {
                ensure!(r.as_str() == lit, format!("C08/raw/{form}/as_str"), "RawNumber from {:?} has as_str() = {:?}", text, r.as_str());
                let s = sonic_rs::to_string(&r).map_err(|e| Fail::new("C08/raw/ser-error", format!("{e}")))?;
                ensure!(s == lit, format!("C08/raw/{form}/to_string"), "to_string(RawNumber {:?}) = {:?}", lit, s);
                ensure!(r.as_i64() == lit.parse::<i64>().ok(), "C08/raw/as_i64", "RawNumber({lit}).as_i64() = {:?}", r.as_i64());
                ensure!(r.as_u64() == lit.parse::<u64>().ok(), "C08/raw/as_u64", "RawNumber({lit}).as_u64() = {:?}", r.as_u64());
                let wf = lit.parse::<f64>().ok().filter(|f| f.is_finite());
                ensure!(r.as_f64().map(f64::to_bits) == wf.map(f64::to_bits), "C08/raw/as_f64", "RawNumber({lit}).as_f64() = {:?}, expected {:?}", r.as_f64(), wf);
                ensure!(r.is_i64() == r.as_i64().is_some() && r.is_u64() == r.as_u64().is_some() && r.is_f64() == r.as_f64().is_some(), "C08/raw/is_x", "is_*/as_* disagree for {lit}");
            }
        }
    }
    // raw numbers inside a DOM parsed with use_rawnumber keep the literal verbatim
    if valid {
        let text = format!("{{\"a\":[{lit} , {lit}]}}");
        let v: Value = sonic_rs::Deserializer::from_str(&text).use_rawnumber().deserialize().map_err(|e| Fail::new("C08/raw/dom/rejects-valid", format!("use_rawnumber parse of {text:?}: {e}")))?;
        let out = sonic_rs::to_string(&v).map_err(|e| Fail::new("C08/raw/dom/ser", format!("{e}")))?;
        let want = format!("{{\"a\":[{lit},{lit}]}}");
        ensure!(out == want, "C08/raw/dom/verbatim", "use_rawnumber DOM of {text:?} serializes to {out:?}");
        // the numeric view of a raw node is that of the same literal parsed without raw mode
        // (a literal beyond f64 has no plain parse: raw mode alone keeps it)
        if let Ok(plain) = sonic_rs::from_str::<Value>(&format!("[{lit}]")) {
            let (r, p) = (&v["a"][0], &plain[0]);
            let view = |x: &Value| (x.as_f64().map(f64::to_bits), x.as_u64(), x.as_i64(), x.is_f64(), x.is_u64(), x.is_i64(), x.is_number());
            ensure!(view(r) == view(p), "C08/raw/dom/numeric-view", "raw node {lit}: (as_f64 bits, as_u64, as_i64, is_f64, is_u64, is_i64, is_number) = {:?}, the plain parse of the literal gives {:?}", view(r), view(p));
            ensure!((r == p) && (p == r), "C08/raw/dom/numeric-view", "raw node {lit} != the plain parse of the same literal");
            let back: Result<f64, _> = sonic_rs::from_value(r);
            ensure!(back.ok().map(f64::to_bits) == p.as_f64().map(f64::to_bits), "C08/raw/dom/numeric-view", "from_value::<f64>(raw node {lit}) differs from the plain parse");
        }
        // ... also after the containers holding them were edited, cloned or the number moved
        use sonic_rs::JsonValueMutTrait;
        let text = format!("{{\"o\":{{\"n\":{lit}}},\"a\":[{lit},[{lit}]]}}");
        let mut v: Value = sonic_rs::Deserializer::from_str(&text).use_rawnumber().deserialize().map_err(|e| Fail::new("C08/raw/dom/rejects-valid", format!("use_rawnumber parse of {text:?}: {e}")))?;
        let keep = v.clone();
        v["o"].as_object_mut().unwrap().insert("z", true);
        v["a"].as_array_mut().unwrap().push(Value::from(false));
        v["a"][1].as_array_mut().unwrap().insert(0, Value::new_null());
        let moved = v["a"][0].clone();
        v.as_object_mut().unwrap().insert("m", moved);
        // (member order of an edited object is not promised: look at the parts)
        let part = |x: &Value| sonic_rs::to_string(x).map_err(|e| Fail::new("C08/raw/dom/ser", format!("{e}")));
        let (pa, pn, pm) = (part(&v["a"])?, part(&v["o"]["n"])?, part(&v["m"])?);
        ensure!(pa == format!("[{lit},[null,{lit}],false]") && pn == lit && pm == lit, "C08/raw/dom/verbatim-after-edit", "use_rawnumber DOM of {text:?} after edits: a = {pa:?}, o.n = {pn:?}, m = {pm:?}");
        let out = part(&v)?;
        ensure!(refjson::accept(out.as_bytes()).skip() && out.matches(lit).count() >= 4, "C08/raw/dom/verbatim-after-edit", "use_rawnumber DOM of {text:?} after edits serializes to {out:?}");
        for n in [&v["o"]["n"], &v["a"][0], &v["a"][1][1], &v["m"]] {
            ensure!(n.is_number() && n.as_raw_number().map(|r| r.as_str().to_string()).as_deref() == Some(lit), "C08/raw/dom/verbatim-after-edit", "after edits a raw number of {text:?} reports type {:?}, as_raw_number {:?}", n.get_type(), n.as_raw_number().map(|r| r.as_str().to_string()));
        }
        let kept = sonic_rs::to_string(&keep).map_err(|e| Fail::new("C08/raw/dom/ser", format!("{e}")))?;
        ensure!(kept == format!("{{\"o\":{{\"n\":{lit}}},\"a\":[{lit},[{lit}]]}}"), "C08/raw/dom/verbatim-after-edit", "the clone taken before the edits serializes to {kept:?}");
    }
    Ok(())
}

pub fn subs() -> Vec<Sub<'static>> {
    vec![
        Sub { name: "f32", oracle: &oracle_num, minimise_bytes: false },
        Sub { name: "f64", oracle: &oracle_num, minimise_bytes: false },
        Sub { name: "ints", oracle: &oracle_num, minimise_bytes: false },
        Sub { name: "raw", oracle: &oracle_raw, minimise_bytes: true },
    ]
}

fn sub(name: &str) -> Sub<'static> {
    subs().into_iter().find(|s| s.name == name).unwrap()
}

fn enc(tag: u8, v: u128, n: usize) -> Vec<u8> {
    let mut c = vec![tag];
    c.extend_from_slice(&v.to_le_bytes()[..n]);
    c
}

pub fn run(ctx: &Ctx) {
    let quick = ctx.quick();
    // ---- f32
    let s = sub("f32");
    ctx.sweep(&s, true, &|shard, n, emit| {
        if quick {
            // every exponent x boundary mantissas, both signs
            let mut k = 0usize;
            for e in 0u32..=255 {
                for m in [0u32, 1, 2, 3, 0x7fffff, 0x7ffffe, 0x400000, 0x3fffff, 0x555555, 0x2aaaaa, 0x000100, 0x7fff00] {
                    for sgn in [0u32, 1] {
                        k += 1;
                        if k % n == shard && !emit(&enc(0, ((sgn << 31) | (e << 23) | m) as u128, 4)) {
                            return;
                        }
                    }
                }
            }
            // strided sample of the whole space (stride 127, prime)
            let mut b = shard as u64 * 127;
            while b < (1u64 << 32) {
                if !emit(&enc(0, b as u128, 4)) {
                    return;
                }
                b += 127 * n as u64;
            }
        } else {
            let mut b = shard as u64;
            while b < (1u64 << 32) {
                if !emit(&enc(0, b as u128, 4)) {
                    return;
                }
                b += n as u64;
            }
        }
    });
    if !quick {
        ctx.mark_exhaustive("all 2^32 f32 bit patterns");
    }

    // ---- f64 structured
    let s = sub("f64");
    let seed = ctx.seed;
    ctx.sweep(&s, false, &|shard, n, emit| {
        let mut k = 0usize;
        for e in 0u64..=2047 {
            k += 1;
            if k % n != shard {
                continue;
            }
            let bytes = super::c02::pseudo_bytes(seed ^ 0xf64, e, 8 * 8);
            let mut src = Src::new(&bytes);
            let mut ms: Vec<u64> = vec![0, 1, 2, 3, (1 << 52) - 1, (1 << 52) - 2, (1 << 52) - 3, 1 << 51, (1 << 51) - 1, (1 << 51) + 1, 0x5555555555555, 0xaaaaaaaaaaaaa];
            for b in 0..52 {
                ms.push(1u64 << b);
            }
            for _ in 0..8 {
                ms.push(src.u64() & ((1 << 52) - 1));
            }
            for m in ms {
                for sgn in [0u64, 1] {
                    if !emit(&enc(1, ((sgn << 63) | (e << 52) | m) as u128, 8)) {
                        return;
                    }
                }
            }
        }
        // powers of ten +- 3 ulps, integral floats around 2^53 and the u64/i64 boundaries
        if shard == 0 {
            let mut specials: Vec<f64> = Vec::new();
            for p in -330i32..=310 {
                if let Ok(f) = format!("1e{p}").parse::<f64>() {
                    specials.push(f);
                }
            }
            for f in [9007199254740992.0, 9007199254740991.0, 18446744073709551615.0, 9223372036854775807.0, 9223372036854775808.0, 1e15, 1e16, 1e17, 1e21, 1e22, 123456789.0, 0.1, 0.2, 0.3, 1.0 / 3.0, 2.0 / 3.0, 5e-324, f64::MAX, f64::MIN_POSITIVE, f64::EPSILON, 100.0, 1e7, 1e-7, 12345678.9, 4.35, 0.000001, 0.0000001] {
                specials.push(f);
            }
            for f in specials {
                for d in -3i64..=3 {
                    let b = (f.to_bits() as i64 + d) as u64;
                    if !(emit(&enc(1, b as u128, 8)) && emit(&enc(1, (b | (1 << 63)) as u128, 8))) {
                        return;
                    }
                }
            }
            for f in [f64::NAN, f64::INFINITY, f64::NEG_INFINITY, 0.0, -0.0] {
                if !emit(&enc(1, f.to_bits() as u128, 8)) {
                    return;
                }
            }
            for f in [f32::NAN, f32::INFINITY, f32::NEG_INFINITY, 0.0f32, -0.0] {
                if !emit(&enc(0, f.to_bits() as u128, 4)) {
                    return;
                }
            }
        }
    });
    // ---- f64 random (uniform bits, plus "decimal-looking" values)
    ctx.search(&s, "random-bits", ctx.n(5_000_000, 100_000_000), 10, &|src: &mut Src| enc(1, src.u64() as u128, 8));
    ctx.search(&s, "decimal-looking", ctx.n(2_000_000, 30_000_000), 12, &|src: &mut Src| {
        let m = src.u32() as f64;
        let e = src.below(40) as i32 - 20;
        let f = m * 10f64.powi(e);
        enc(1, f.to_bits() as u128, 8)
    });
    ctx.search(&sub("f32"), "random-f32-decimal", ctx.n(500_000, 10_000_000), 12, &|src: &mut Src| {
        let m = (src.u32() % 10_000_000) as f32;
        let e = src.below(30) as i32 - 15;
        let f = m * 10f32.powi(e);
        enc(0, f.to_bits() as u128, 4)
    });

    // ---- integers
    let s = sub("ints");
    ctx.sweep(&s, true, &|shard, n, emit| {
        for v in (shard..65536).step_by(n) {
            if v < 256 && !emit(&enc(2, v as u128, 1)) {
                return;
            }
            if !emit(&enc(3, v as u128, 2)) {
                return;
            }
        }
        if shard == 0 {
            for sh in 0..128u32 {
                for d in -2i128..=2 {
                    let v = (1u128 << sh).wrapping_add(d as u128);
                    if !(emit(&enc(4, v, 4)) && emit(&enc(5, v, 8)) && emit(&enc(6, v, 16)) && emit(&enc(6, !v, 16))) {
                        return;
                    }
                }
            }
            let mut p: u128 = 1;
            for _ in 0..39 {
                for d in -1i128..=1 {
                    let v = p.wrapping_add(d as u128);
                    if !(emit(&enc(4, v, 4)) && emit(&enc(5, v, 8)) && emit(&enc(6, v, 16)) && emit(&enc(6, (v as i128).wrapping_neg() as u128, 16)) && emit(&enc(5, (v as i64).wrapping_neg() as u64 as u128, 8))) {
                        return;
                    }
                }
                p = p.wrapping_mul(10);
            }
        }
    });
    ctx.mark_exhaustive("all u8, i8, u16, i16 values");
    ctx.search(&s, "random-ints", ctx.n(300_000, 10_000_000), 20, &|src: &mut Src| {
        let tag = 4 + src.below(3) as u8;
        let bits = src.below(129);
        let v = if bits == 0 { 0 } else { ((src.u64() as u128) << 64 | src.u64() as u128) >> (128 - bits) };
        enc(tag, v, 16)
    });

    // ---- raw numbers
    let s = sub("raw");
    let nl = ctx.n(5, 6);
    ctx.sweep(&s, true, &|shard, n, emit| {
        gens::number_candidates(nl, shard, n, &mut |c| emit(c));
    });
    ctx.search(&s, "gen_number", ctx.n(200_000, 5_000_000), 64, &|src: &mut Src| {
        let mut out = Vec::new();
        gens::gen_number(src, true, &mut out);
        if src.chance(40) {
            // damage
            let d = *src.pick(gens::NUMBER_DAMAGE);
            match src.below(3) {
                0 => out.extend_from_slice(d),
                1 => {
                    let p = src.below(out.len() + 1);
                    out.splice(p..p, d.iter().copied());
                }
                _ => {
                    out.push(*src.pick(&[b' ', b'.', b'e', b'-', b'+', b'x', b',', b'0']));
                }
            }
        }
        out
    });
}
