//! C03 — a parsed document equals the reference data model of its text.

use serde::Deserialize;
use sonic_rs::{Deserializer, Value};
use vbase::engine::{Ctx, Fail, Obs, Src, Sub};
use vbase::gens::{self, DocParams};
use vbase::refjson::{self, show_bytes, Kind, Node};
use vbase::{ensure, fail};

use crate::sx::{cmp_node, walk};

pub const RULE: &str = "cases are well-formed JSON texts (generated with independent layout incl. duplicate keys, escapes, long strings, every alignment prefix 0..64; golden documents padded to every total length; the repository's benchmark corpus files). Each is parsed through the routes {from_slice/from_str whole input (in-place padded parser), struct field, Option<Value> behind whitespace, two elements of Vec<Value>, 2nd and 3rd document of Deserializer::deserialize and of into_stream (copying parser)} x {default, use_rawnumber(), utf8_lossy(), both options in either order}; from_reader with the text arriving whole, byte by byte, in 5-byte pieces with interruptions, and in growing pieces; every resulting Value is walked through the public read API and compared node by node with the reference parse (order and duplicates kept, decoded strings, numbers by the C07 rule, raw numbers byte-equal to the literal); routes must also agree with each other by == and to_string; typed DOM targets Object / Array (whole input, struct field, later stream document); objects of 16..104 members in non-lexicographic order, flat containers of 196,600..262,144 members, and one array and one object with 2^24 + 9 members whose elements are known by position; sub-check stream-mix reads 2..6 generated documents (incl. many-small, bracket-burst and skip-stress ones) through ONE deserializer into alternating targets (Value, LazyValue, IgnoredAny, OwnedLazyValue) and requires each to come out as if parsed alone. Every Deserializer route parses from a private heap copy of the text that is overwritten and freed before the Value is walked (a Value has no lifetime and must own everything). Non-trivial = at least one container and at least three values; distinct by text.";
pub const ASSUMPTIONS: &[&str] = &["refjson parser is correct (self-tested against serde_json on every run)", "Rust std str::parse::<f64>/<u64>/<i64> are exact"];

#[derive(Deserialize)]
struct WrapV {
    v: Value,
}

fn wrap(pre: &[u8], b: &[u8], post: &[u8]) -> Vec<u8> {
    let mut v = Vec::with_capacity(pre.len() + b.len() + post.len());
    v.extend_from_slice(pre);
    v.extend_from_slice(b);
    v.extend_from_slice(post);
    v
}

fn check_value(route: &'static str, class: &'static str, node: &Node, t: &[u8], v: &Value, raw: bool) -> Result<(), Fail> {
    let got = walk(v, raw);
    let mut path = String::from("$");
    if let Err((kind, msg)) = cmp_node(node, t, &got, raw, &mut path) {
        fail!(format!("C03/{class}/{kind}"), "route {route} on {:?}: {msg}", show_bytes(t, 300));
    }
    Ok(())
}

#[derive(Clone, Copy, PartialEq)]
enum Mode {
    Default,
    Raw,
    Lossy,
    /// both options, in either order of the builder calls
    RawLossy,
    LossyRaw,
}

fn de_with<'a>(input: &'a [u8], mode: Mode) -> Deserializer<sonic_rs::Read<'a>> {
    let d = Deserializer::from_slice(input);
    match mode {
        Mode::Default => d,
        Mode::Raw => d.use_rawnumber(),
        Mode::Lossy => d.utf8_lossy(),
        Mode::RawLossy => d.use_rawnumber().utf8_lossy(),
        Mode::LossyRaw => d.utf8_lossy().use_rawnumber(),
    }
}

/// Parse from a private heap copy of `w`, then overwrite and free that copy before the result is
/// looked at: a `Value` has no lifetime, so nothing in it may still refer to the caller's input.
fn scrubbed<T>(w: &[u8], mode: Mode, f: impl for<'a> FnOnce(Deserializer<sonic_rs::Read<'a>>) -> T) -> T {
    let mut buf = w.to_vec();
    let r = f(de_with(&buf, mode));
    buf.fill(b'7');
    drop(buf);
    r
}

pub fn oracle(t: &[u8], obs: &mut Obs) -> Result<(), Fail> {
    let Ok((node, sum)) = refjson::parse(t) else {
        // generators produce well-formed texts only; anything else is a generator bug
        fail!("C03/generator", "generator produced a text the reference rejects: {:?}", show_bytes(t, 200));
    };
    if !(sum.scalars_ok && sum.finite_ok) || std::str::from_utf8(t).is_err() {
        return Ok(()); // not an accepted text for decoding entry points
    }
    if sum.values >= 3 && sum.max_depth >= 1 {
        obs.nt();
    }
    if sum.has_dup_keys {
        obs.label("dup-keys");
    }
    if sum.max_depth >= 3 {
        obs.label("depth>=3");
    }
    if t.len() >= 64 {
        obs.label("len>=64");
    }
    let s = std::str::from_utf8(t).unwrap();

    // whole input, in-place parser
    let v0: Value = match sonic_rs::from_slice(t) {
        Ok(v) => v,
        Err(e) => fail!("C03/whole/rejects-valid", "from_slice::<Value> rejected well-formed {:?}: {e}", show_bytes(t, 300)),
    };
    check_value("from_slice::<Value>", "whole", &node, t, &v0, false)?;
    let v1: Value = sonic_rs::from_str(s).map_err(|e| Fail::new("C03/whole/rejects-valid", format!("from_str rejected {:?}: {e}", show_bytes(t, 300))))?;
    check_value("from_str::<Value>", "whole", &node, t, &v1, false)?;
    ensure!(v0 == v1, "C03/whole/routes-disagree", "from_slice and from_str values differ on {:?}", show_bytes(t, 300));
    let s0 = sonic_rs::to_string(&v0).map_err(|e| Fail::new("C03/whole/to_string", format!("{e}")))?;
    // the typed DOM targets `Object` / `Array` (whole input, struct field, later stream document)
    {
        use sonic_rs::{Array, Object};
        #[derive(Deserialize)]
        struct WrapO {
            v: Object,
        }
        #[derive(Deserialize)]
        struct WrapA {
            v: Array,
        }
        let w = wrap(b"{\"v\": ", t, b"}");
        let st = wrap(b"0 ", t, b"");
        match &node.kind {
            Kind::Obj(_) => {
                let o: Object = sonic_rs::from_slice(t).map_err(|e| Fail::new("C03/typed-dom/rejects-valid", format!("from_slice::<Object> rejected {:?}: {e}", show_bytes(t, 300))))?;
                check_value("from_slice::<Object>", "typed-dom", &node, t, &o.into_value(), false)?;
                let x: WrapO = sonic_rs::from_slice(&w).map_err(|e| Fail::new("C03/typed-dom/rejects-valid", format!("Object field rejected {:?}: {e}", show_bytes(t, 300))))?;
                check_value("struct field of type Object", "typed-dom", &node, t, &x.v.into_value(), false)?;
                let mut de = Deserializer::from_slice(&st);
                let _ = de.deserialize::<Value>();
                let o: Object = de.deserialize().map_err(|e| Fail::new("C03/typed-dom/rejects-valid", format!("Object as later stream document rejected {:?}: {e}", show_bytes(t, 300))))?;
                check_value("later stream document of type Object", "typed-dom", &node, t, &o.into_value(), false)?;
                ensure!(sonic_rs::from_slice::<Array>(t).is_err(), "C03/typed-dom/wrong-kind", "from_slice::<Array> accepted an object");
            }
            Kind::Arr(_) => {
                let a: Array = sonic_rs::from_slice(t).map_err(|e| Fail::new("C03/typed-dom/rejects-valid", format!("from_slice::<Array> rejected {:?}: {e}", show_bytes(t, 300))))?;
                check_value("from_slice::<Array>", "typed-dom", &node, t, &a.into_value(), false)?;
                let x: WrapA = sonic_rs::from_slice(&w).map_err(|e| Fail::new("C03/typed-dom/rejects-valid", format!("Array field rejected {:?}: {e}", show_bytes(t, 300))))?;
                check_value("struct field of type Array", "typed-dom", &node, t, &x.v.into_value(), false)?;
                ensure!(sonic_rs::from_slice::<Object>(t).is_err(), "C03/typed-dom/wrong-kind", "from_slice::<Object> accepted an array");
            }
            _ => {}
        }
    }
    // from_reader, the text arriving in one piece and in small pieces
    for step in [usize::MAX, 1, 5, 0] {
        let rd = super::c02::Pieces::new(t, step, step == 5);
        let v: Value = sonic_rs::from_reader(rd).map_err(|e| Fail::new("C03/reader/rejects-valid", format!("from_reader (pieces of {step}) rejected {:?}: {e}", show_bytes(t, 300))))?;
        check_value("from_reader::<Value>", "reader", &node, t, &v, false)?;
    }

    for mode in [Mode::Default, Mode::Raw, Mode::Lossy, Mode::RawLossy, Mode::LossyRaw] {
        let raw = matches!(mode, Mode::Raw | Mode::RawLossy | Mode::LossyRaw);
        let mname = match mode {
            Mode::Default => "default",
            Mode::Raw => "rawnumber",
            Mode::Lossy => "lossy",
            Mode::RawLossy => "rawnumber+lossy",
            Mode::LossyRaw => "lossy+rawnumber",
        };
        // whole input through Deserializer (index 0: in-place)
        let v: Value = scrubbed(t, mode, |mut d| d.deserialize()).map_err(|e| Fail::new("C03/whole/rejects-valid", format!("Deserializer({mname}) rejected {:?}: {e}", show_bytes(t, 300))))?;
        check_value("Deserializer::deserialize (first)", if raw { "whole-raw" } else { "whole" }, &node, t, &v, raw)?;
        // embedded in a struct (copying parser)
        let w = wrap(b"{\"v\": ", t, b"}");
        let x: WrapV = scrubbed(&w, mode, |mut d| d.deserialize()).map_err(|e| Fail::new("C03/embedded/rejects-valid", format!("struct field ({mname}) rejected {:?}: {e}", show_bytes(t, 300))))?;
        check_value("struct field", if raw { "embedded-raw" } else { "embedded" }, &node, t, &x.v, raw)?;
        if !raw {
            ensure!(x.v == v0, "C03/embedded/routes-disagree", "embedded value != whole-input value on {:?}", show_bytes(t, 300));
            let s1 = sonic_rs::to_string(&x.v).map_err(|e| Fail::new("C03/embedded/to_string", format!("{e}")))?;
            ensure!(s1 == s0, "C03/embedded/routes-disagree", "to_string of embedded value {:?} != whole {:?}", refjson::trunc(&s1, 200), refjson::trunc(&s0, 200));
        }
        // Option<Value> behind whitespace
        let w = wrap(b" \n\t", t, b"");
        let x: Option<Value> = scrubbed(&w, mode, |mut d| d.deserialize()).map_err(|e| Fail::new("C03/embedded/rejects-valid", format!("Option<Value> ({mname}) rejected {:?}: {e}", show_bytes(t, 300))))?;
        match (&node.kind, &x) {
            (Kind::Null, None) => {}
            (_, Some(v)) => check_value("Option<Value>", if raw { "embedded-raw" } else { "embedded" }, &node, t, v, raw)?,
            (_, None) => fail!("C03/embedded/structure/kind", "Option<Value> gave None for {:?}", show_bytes(t, 200)),
        }
        // Vec<Value> of two copies
        let mut w = wrap(b"[", t, b",");
        w.extend_from_slice(t);
        w.push(b']');
        let x: Vec<Value> = scrubbed(&w, mode, |mut d| d.deserialize()).map_err(|e| Fail::new("C03/embedded/rejects-valid", format!("Vec<Value> ({mname}) rejected two copies of {:?}: {e}", show_bytes(t, 300))))?;
        ensure!(x.len() == 2, "C03/embedded/structure", "Vec<Value> has {} elements", x.len());
        for v in &x {
            check_value("Vec<Value> element", if raw { "embedded-raw" } else { "embedded" }, &node, t, v, raw)?;
        }
        // stream: 0 <t> <t>
        let mut w = wrap(b"0 ", t, b" ");
        w.extend_from_slice(t);
        let docs: Vec<sonic_rs::Result<Value>> = scrubbed(&w, mode, |mut de| (0..3).map(|_| de.deserialize::<Value>()).collect());
        let mut docs = docs.into_iter();
        let first: Value = docs.next().unwrap().map_err(|e| Fail::new("C03/stream/rejects-valid", format!("{e}")))?;
        ensure!(walk(&first, false) == refjson::M::U64(0), "C03/stream/first", "first stream document is not 0");
        for (k, r) in docs.enumerate() {
            let v: Value = r.map_err(|e| Fail::new("C03/stream/rejects-valid", format!("stream document {} ({mname}) of {:?} rejected: {e}", k + 2, show_bytes(&w, 300))))?;
            check_value("Deserializer::deserialize (later document)", if raw { "stream-raw" } else { "stream" }, &node, t, &v, raw)?;
        }
        let items: Vec<Option<sonic_rs::Result<Value>>> = scrubbed(&w, mode, |de| {
            let mut st = de.into_stream::<Value>();
            (0..3).map(|_| st.next()).collect()
        });
        for (k, it) in items.into_iter().enumerate().skip(1) {
            match it {
                Some(Ok(v)) => check_value("StreamDeserializer", if raw { "stream-raw" } else { "stream" }, &node, t, &v, raw)?,
                other => fail!("C03/stream/rejects-valid", "into_stream document {} of {:?}: {:?}", k + 1, show_bytes(&w, 300), other.map(|r| r.map(|_| ()))),
            }
        }
    }
    Ok(())
}

/// Several documents read through ONE deserializer, each into a different kind of target; every
/// document must come out as if it had been parsed alone (no state may leak from one document, or
/// from a skipped one, into the next). case = choice sequence.
pub fn oracle_stream(case: &[u8], obs: &mut Obs) -> Result<(), Fail> {
    use sonic_rs::{JsonValueTrait, LazyValue, OwnedLazyValue};
    let mut src = Src::new(case);
    let p = DocParams { ws: 1, max_depth: 4, max_items: 4, dup_keys: true, align: 0, ..DocParams::default() };
    let ndocs = 2 + src.below(5);
    let mut docs: Vec<(Vec<u8>, u8)> = Vec::new();
    for _ in 0..ndocs {
        let d = match src.below(6) {
            0 => gens::gen_many_small(&mut src),
            1 => crate::lazyhelp::gen_bracket_stress(&mut src),
            2 => crate::lazyhelp::gen_skip_stress(&mut src, &p),
            _ => gens::gen_doc(&mut src, &p),
        };
        let Ok((_, sum)) = refjson::parse(&d) else { fail!("C03/generator", "generator produced a text the reference rejects: {:?}", show_bytes(&d, 200)) };
        if !(sum.scalars_ok && sum.finite_ok) || std::str::from_utf8(&d).is_err() || d.len() > 20_000 {
            continue;
        }
        docs.push((d, src.below(5) as u8));
    }
    if docs.len() < 2 {
        return Ok(());
    }
    obs.nt();
    let mode = [Mode::Default, Mode::Raw, Mode::Lossy, Mode::RawLossy, Mode::LossyRaw][src.below(5)];
    let raw = matches!(mode, Mode::Raw | Mode::RawLossy | Mode::LossyRaw);
    let sep: &[u8] = *src.pick(&[&b" "[..], b"\n", b"", b"\r\n\t "]);
    let mut text = Vec::new();
    for (i, (d, _)) in docs.iter().enumerate() {
        if i > 0 {
            // two scalars need a separator; containers and strings do not
            let need = sep.is_empty() && !matches!(d[refjson::skip_ws(d, 0)], b'[' | b'{' | b'"') || sep.is_empty() && !matches!(text.last(), Some(b']' | b'}' | b'"'));
            text.extend_from_slice(if need { b" " } else { sep });
        }
        text.extend_from_slice(d);
    }
    obs.render = Some(format!("mode={} targets={:?} text={}", ["default", "rawnumber", "lossy", "rawnumber+lossy", "lossy+rawnumber"][mode as usize], docs.iter().map(|d| d.1).collect::<Vec<_>>(), show_bytes(&text, 400)));
    let mut de = de_with(&text, mode);
    for (i, (d, target)) in docs.iter().enumerate() {
        let (node, _) = refjson::parse(d).unwrap();
        let trimmed = &d[node.span.start..node.span.end];
        let what = |e: sonic_rs::Error| Fail::new("C03/stream-mix/rejects-valid", format!("document {} (target {target}) of {:?} rejected: {e}", i + 1, show_bytes(&text, 300)));
        match target {
            0 | 1 => {
                let v: Value = de.deserialize().map_err(what)?;
                check_value("stream-mix Value", if raw { "stream-mix-raw" } else { "stream-mix" }, &node, d, &v, raw)?;
            }
            2 => {
                let l: LazyValue = de.deserialize().map_err(what)?;
                ensure!(l.as_raw_str().as_bytes() == trimmed, "C03/stream-mix/lazy-span", "document {} read as LazyValue has raw text {:?}, expected {:?}", i + 1, refjson::trunc(l.as_raw_str(), 120), show_bytes(trimmed, 120));
            }
            3 => {
                let _: serde::de::IgnoredAny = de.deserialize().map_err(what)?;
            }
            _ => {
                let o: OwnedLazyValue = de.deserialize().map_err(what)?;
                let t = sonic_rs::to_string(&o).map_err(|e| Fail::new("C03/stream-mix/ser", format!("{e}")))?;
                ensure!(t.as_bytes() == trimmed, "C03/stream-mix/lazy-span", "document {} read as OwnedLazyValue serializes as {:?}, expected {:?}", i + 1, refjson::trunc(&t, 120), show_bytes(trimmed, 120));
                let _ = o.get_type();
            }
        }
    }
    // nothing but whitespace may be left
    ensure!(de.deserialize::<Value>().is_err(), "C03/stream-mix/extra-document", "a further document was read after the last one of {:?}", show_bytes(&text, 300));
    Ok(())
}

/// A container with more than 2^24 direct children (about 34 MB of text): too large for the reference
/// tree, so it is built so that every element is known by its position. case[0] = 0: array, 1: object.
pub fn oracle_huge(case: &[u8], obs: &mut Obs) -> Result<(), Fail> {
    use sonic_rs::{JsonContainerTrait, JsonValueTrait};
    let as_obj = case.first().copied().unwrap_or(0) == 1;
    let n: usize = (1 << 24) + 5;
    let mut t = Vec::with_capacity(n * (if as_obj { 6 } else { 2 }) + 64);
    t.push(if as_obj { b'{' } else { b'[' });
    for i in 0..n {
        if i > 0 {
            t.push(b',');
        }
        if as_obj {
            t.extend_from_slice(b"\"\":");
        }
        t.push(b'0' + (i % 10) as u8);
    }
    // the last members are the ones whose position no longer fits a narrower field
    let tail: [&str; 4] = ["\"tail-string\"", "[1,[2]]", "{\"k\":\"v\"}", "-1.5"];
    for (j, x) in tail.iter().enumerate() {
        t.push(b',');
        if as_obj {
            t.extend_from_slice(format!("\"t{j}\":").as_bytes());
        }
        t.extend_from_slice(x.as_bytes());
    }
    t.push(if as_obj { b'}' } else { b']' });
    obs.nt();
    obs.render = Some(format!("{} with {} + 4 members", if as_obj { "object" } else { "array" }, n));
    let check = |route: &'static str, v: &Value| -> Result<(), Fail> {
        let len = if as_obj { v.as_object().map(|o| o.len()) } else { v.as_array().map(|a| a.len()) };
        ensure!(len == Some(n + 4), "C03/huge/length", "{route}: container of {} members has len() = {len:?}", n + 4);
        // one pass over the members: remember the ones that are looked at
        let probes = [0usize, 1, 9, (1 << 24) - 2, (1 << 24) - 1, 1 << 24, n - 1, n, n + 1, n + 2, n + 3];
        let mut found: Vec<Option<&Value>> = vec![None; probes.len()];
        if as_obj {
            for (i, (_, x)) in v.as_object().unwrap().iter().enumerate() {
                if let Some(k) = probes.iter().position(|&p| p == i) {
                    found[k] = Some(x);
                }
            }
        } else {
            for (k, &p) in probes.iter().enumerate() {
                found[k] = v.get(p);
            }
        }
        for k in 0..7 {
            let i = probes[k];
            ensure!(found[k].and_then(|x| x.as_u64()) == Some((i % 10) as u64), "C03/huge/element", "{route}: member {i} is {:?}, expected {}", found[k].map(|x| walk(x, false).dump()), i % 10);
        }
        let got: Vec<String> = (0..4).map(|j| found[7 + j].map(|x| sonic_rs::to_string(&x.clone()).unwrap_or_default()).unwrap_or_default()).collect();
        ensure!(got == tail, "C03/huge/tail", "{route}: the last four members read as {got:?}, expected {tail:?}");
        ensure!(found[7].and_then(|x| x.as_str()) == Some("tail-string") && found[8].and_then(|x| x.get(1usize)).and_then(|x| x.get(0usize)).and_then(|x| x.as_u64()) == Some(2) && found[9].and_then(|x| x.get("k")).and_then(|x| x.as_str()) == Some("v"), "C03/huge/tail", "{route}: reading into the last members fails");
        Ok(())
    };
    let v: Value = sonic_rs::from_slice(&t).map_err(|e| Fail::new("C03/huge/rejects-valid", format!("{e}")))?;
    check("from_slice::<Value>", &v)?;
    drop(v);
    let mut w = b"0 ".to_vec();
    w.extend_from_slice(&t);
    drop(t);
    let mut de = Deserializer::from_slice(&w).use_rawnumber();
    let _ = de.deserialize::<Value>();
    let v: Value = de.deserialize().map_err(|e| Fail::new("C03/huge/rejects-valid", format!("later stream document: {e}")))?;
    check("later stream document (raw-number mode)", &v)?;
    Ok(())
}

pub fn subs() -> Vec<Sub<'static>> {
    vec![
        Sub { name: "docs", oracle: &oracle, minimise_bytes: false },
        Sub { name: "aligned", oracle: &oracle, minimise_bytes: false },
        Sub { name: "corpus", oracle: &oracle, minimise_bytes: false },
        Sub { name: "stream-mix", oracle: &oracle_stream, minimise_bytes: false },
        Sub { name: "big-flat", oracle: &oracle, minimise_bytes: false },
        Sub { name: "huge", oracle: &oracle_huge, minimise_bytes: false },
    ]
}

fn sub(name: &str) -> Sub<'static> {
    subs().into_iter().find(|s| s.name == name).unwrap()
}

pub fn run(ctx: &Ctx) {
    let s = sub("docs");
    let p = DocParams { ws: 2, dup_keys: true, max_depth: 6, ..DocParams::default() };
    let pc = p.clone();
    ctx.search(&s, "dup-keys", ctx.n(1_200_000, 9_600_000), 600, &move |src: &mut Src| gens::gen_doc(src, &pc));
    let pc = DocParams { ws: 1, dup_keys: false, max_depth: 8, max_items: 10, ..DocParams::default() };
    ctx.search(&s, "plain", ctx.n(1_200_000, 9_600_000), 1200, &move |src: &mut Src| gens::gen_container_doc(src, &pc));

    ctx.search(&s, "wide-objects", ctx.n(8_000, 80_000), 200, &|src: &mut Src| {
        let mut d = gens::gen_wide_object(src);
        if src.chance(100) {
            // repeat some members (duplicate names, kept in order)
            if let Some(pos) = d.iter().rposition(|&c| c == b'}') {
                let extra = b",\"k3\":\"dup\",\"k1\":[0],\"k3\":null";
                if d[..pos].ends_with(b"}") || d[..pos].ends_with(b"]") || d[..pos].last().map(|c| c.is_ascii_digit()).unwrap_or(false) {
                    d.splice(pos..pos, extra.iter().copied());
                }
            }
        }
        d
    });
    // flat containers of several hundred KiB (node buffers beyond the thread-local one)
    {
        let mut big: Vec<Vec<u8>> = Vec::new();
        for n in [196_600usize, 196_608, 196_700, 262_144] {
            let mut a = Vec::with_capacity(n * 2 + 2);
            a.push(b'[');
            for i in 0..n {
                if i > 0 {
                    a.push(b',');
                }
                a.push(b'0' + (i % 10) as u8);
            }
            a.push(b']');
            big.push(a);
        }
        // (`Object ==` on parsed objects is quadratic in the member count: a small object around a large array)
        let mut o = b"{\"k\":1,\"arr\":".to_vec();
        o.extend_from_slice(&big[1]);
        o.extend_from_slice(b",\"z\":[2]}");
        big.push(o);
        // an object of 3,000 members is wide enough for every per-object threshold and still cheap to compare
        let mut o = b"{".to_vec();
        for i in 0..3_000 {
            if i > 0 {
                o.push(b',');
            }
            o.extend_from_slice(format!("\"k{i}\":{}", i % 7).as_bytes());
        }
        o.push(b'}');
        big.push(o);
        ctx.cases(&sub("big-flat"), &big);
    }
    ctx.cases(&sub("huge"), &[vec![0u8], vec![1u8]]);
    ctx.search(&sub("stream-mix"), "stream-mix", ctx.n(300_000, 3_000_000), 400, &|src: &mut Src| src.rest().to_vec());

    // alignment sweep: golden documents at every offset and padded to every length
    let s = sub("aligned");
    let max_pad = ctx.n(70, 200);
    ctx.sweep(&s, false, &|shard, n, emit| {
        let docs = gens::golden_docs();
        let mut k = 0usize;
        for d in &docs {
            for pre in 0..=64usize {
                for post in (0..=max_pad).step_by(if pre % 8 == 0 { 1 } else { 13 }) {
                    k += 1;
                    if k % n != shard {
                        continue;
                    }
                    let mut t = vec![b' '; pre];
                    t.extend_from_slice(d);
                    t.resize(t.len() + post, b' ');
                    if !emit(&t) {
                        return;
                    }
                }
            }
        }
    });

    // corpus files of the repository (read-only)
    let s = sub("corpus");
    let mut files = vec!["book.json", "github_events.json"];
    if !ctx.quick() {
        files.extend(["twitter.json", "citm_catalog.json", "canada.json"]);
    }
    let list: Vec<Vec<u8>> = files.iter().filter_map(|f| std::fs::read(format!("/repo/benchmarks/benches/testdata/{f}")).ok()).collect();
    ctx.cases(&s, &list);
}
