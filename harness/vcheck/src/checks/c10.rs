//! C10 — lazy get returns exactly what a full parse followed by lookup finds.

use bytes::Bytes;
use faststr::FastStr;
use sonic_rs::{JsonValueTrait, LazyValue, OwnedLazyValue, PointerNode, Value};
use vbase::engine::{Ctx, Fail, Obs, Src, Sub};
use vbase::gens::{self, DocParams};
use vbase::refjson::{self, path_to_string, show_bytes, Kind, Node, PathElem};
use vbase::{ensure, fail};

use crate::lazyhelp::{gen_confusable_keys, gen_skip_stress, perturb, perturb_raw, to_pointer};
use crate::sx::{cmp_node, walk};

pub const RULE: &str = "cases are (document, path) pairs: well-formed documents (generated with tricky strings, long siblings, other-kind containers, alignment prefixes; skip-stress documents with features at block edges; a positional sweep placing each string feature at every position 0..=130 of a skipped sibling; a duplicate-key subset; shallow documents with 64..1030 tiny containers before the targets; documents of 4..64 KiB filled with multi-byte characters in front of the targets; objects with 16..104 members in non-lexicographic order; objects whose member names are confusable between raw spelling and decoded text or share their first 16 and last 8 bytes) x every path of the reference tree (cap 64 per document) plus perturbed paths (missing key, index = len, index into object, key into array, one step too deep, empty key, key prefix/extension, the raw source spelling of an escaped member name and its prefixes ending in a backslash; for documents with more than 64 paths also the last paths in document order). Each pair goes through get over &[u8]/&str/&String/&Bytes/&FastStr, get_from_str/slice/bytes/faststr, all *_unchecked forms, Value::pointer and stepwise Value::get, LazyValue::pointer, OwnedLazyValue::pointer. Expected: the path resolves in the reference tree (first member wins) <=> Ok/Some, raw text == exact source span (pointer arithmetic for borrowing carriers), DOM subtree equal to the reference node. Non-trivial = path length >= 1 with at least one sibling skipped before the target; distinct by (document, path).";
pub const ASSUMPTIONS: &[&str] = &["refjson parser / lookup (first member wins)", "unchecked variants are called on well-formed UTF-8 input only (their contract)"];

fn skipped_sibling(root: &Node, p: &[PathElem]) -> bool {
    let mut cur = root;
    for e in p {
        match (e, &cur.kind) {
            (PathElem::Idx(i), Kind::Arr(v)) => {
                if *i > 0 {
                    return true;
                }
                match v.get(*i) {
                    Some(n) => cur = n,
                    None => return false,
                }
            }
            (PathElem::Key(k), Kind::Obj(v)) => match v.iter().position(|(kk, _)| kk.text == *k) {
                Some(pos) => {
                    if pos > 0 {
                        return true;
                    }
                    cur = &v[pos].1;
                }
                None => return !v.is_empty(),
            },
            _ => return false,
        }
    }
    false
}

fn check_lazy(api: &'static str, got: Result<LazyValue<'_>, sonic_rs::Error>, want: Option<&Node>, doc: &[u8], path: &[PathElem], borrowed: bool) -> Result<(), Fail> {
    match (want, got) {
        (Some(n), Ok(lv)) => {
            let raw = lv.as_raw_str();
            ensure!(raw.as_bytes() == n.span.of(doc), format!("C10/wrong-span/{}", api_class(api)), "{api}({}) on {:?} returned {:?}, expected {:?}", path_to_string(path), show_bytes(doc, 300), refjson::trunc(raw, 120), show_bytes(n.span.of(doc), 120));
            if borrowed {
                let off = (raw.as_ptr() as usize).wrapping_sub(doc.as_ptr() as usize);
                ensure!(off == n.span.start, format!("C10/wrong-offset/{}", api_class(api)), "{api}({}) on {:?} points at offset {off}, expected {}", path_to_string(path), show_bytes(doc, 300), n.span.start);
            }
            Ok(())
        }
        (Some(_), Err(e)) => fail!(format!("C10/not-found/{}", api_class(api)), "{api}({}) failed on {:?}: {}", path_to_string(path), show_bytes(doc, 300), e.to_string().lines().next().unwrap_or("")),
        (None, Ok(lv)) => fail!(format!("C10/found-missing/{}", api_class(api)), "{api}({}) on {:?} returned {:?} but the path does not resolve", path_to_string(path), show_bytes(doc, 300), refjson::trunc(lv.as_raw_str(), 120)),
        (None, Err(_)) => Ok(()),
    }
}

fn api_class(api: &str) -> &'static str {
    if api.contains("unchecked") {
        "unchecked"
    } else if api.starts_with("Value") {
        "dom"
    } else if api.starts_with("LazyValue") {
        "lazyvalue"
    } else if api.starts_with("OwnedLazyValue") {
        "ownedlazy"
    } else {
        "checked"
    }
}

pub fn oracle(doc: &[u8], obs: &mut Obs) -> Result<(), Fail> {
    let Ok((root, sum)) = refjson::parse(doc) else { fail!("C10/generator", "generator produced malformed document {:?}", show_bytes(doc, 200)) };
    let Ok(s) = std::str::from_utf8(doc) else { return Ok(()) };
    if !(sum.scalars_ok && sum.finite_ok) {
        return Ok(());
    }
    if sum.has_dup_keys {
        obs.label("dup-keys");
    }
    let string = s.to_string();
    let by = Bytes::copy_from_slice(doc);
    let fs = FastStr::new(s);
    let dom: Value = sonic_rs::from_slice(doc).map_err(|e| Fail::new("C10/dom-rejects-valid", format!("{e}")))?;
    let lazy_root: LazyValue = sonic_rs::from_slice(doc).map_err(|e| Fail::new("C10/lazy-rejects-valid", format!("{e}")))?;
    let owned_root: OwnedLazyValue = sonic_rs::from_slice(doc).map_err(|e| Fail::new("C10/lazy-rejects-valid", format!("{e}")))?;

    let valid = root.all_paths(64);
    let mut paths: Vec<Vec<PathElem>> = valid.clone();
    for (i, p) in valid.iter().enumerate() {
        if i % 3 == 0 || valid.len() < 12 {
            paths.extend(perturb(&root, p));
        }
        if i < 24 {
            paths.extend(perturb_raw(&root, doc, p));
        }
    }
    if valid.len() >= 64 {
        // very wide documents: the last paths matter most (everything before them is skipped)
        if let Some(last) = root.last_paths(8) {
            paths.extend(last);
        }
    }
    for p in &paths {
        let want = root.lookup(p);
        let ptr: Vec<PointerNode> = to_pointer(p);
        if !p.is_empty() && skipped_sibling(&root, p) {
            obs.nt_key(&path_to_string(p));
        }
        obs.label(if want.is_some() { "path-resolves" } else { "path-missing" });
        // checked, borrowing carriers
        check_lazy("get(&[u8])", sonic_rs::get(doc, &ptr), want, doc, p, true)?;
        check_lazy("get(&str)", sonic_rs::get(s, &ptr), want, doc, p, true)?;
        check_lazy("get(&String)", sonic_rs::get(&string, &ptr), want, string.as_bytes(), p, true)?;
        check_lazy("get_from_str", sonic_rs::get_from_str(s, &ptr), want, doc, p, true)?;
        check_lazy("get_from_slice", sonic_rs::get_from_slice(doc, &ptr), want, doc, p, true)?;
        // owning carriers
        check_lazy("get(&Bytes)", sonic_rs::get(&by, &ptr), want, doc, p, false)?;
        check_lazy("get(&FastStr)", sonic_rs::get(&fs, &ptr), want, doc, p, false)?;
        check_lazy("get_from_bytes", sonic_rs::get_from_bytes(&by, &ptr), want, doc, p, false)?;
        check_lazy("get_from_faststr", sonic_rs::get_from_faststr(&fs, &ptr), want, doc, p, false)?;
        // unchecked forms (input is well-formed UTF-8)
        unsafe {
            check_lazy("get_unchecked(&[u8])", sonic_rs::get_unchecked(doc, &ptr), want, doc, p, true)?;
            check_lazy("get_unchecked(&str)", sonic_rs::get_unchecked(s, &ptr), want, doc, p, true)?;
            check_lazy("get_from_str_unchecked", sonic_rs::get_from_str_unchecked(s, &ptr), want, doc, p, true)?;
            check_lazy("get_from_slice_unchecked", sonic_rs::get_from_slice_unchecked(doc, &ptr), want, doc, p, true)?;
            check_lazy("get_from_bytes_unchecked", sonic_rs::get_from_bytes_unchecked(&by, &ptr), want, doc, p, false)?;
            check_lazy("get_from_faststr_unchecked", sonic_rs::get_from_faststr_unchecked(&fs, &ptr), want, doc, p, false)?;
        }
        // DOM
        let sub = dom.pointer(&ptr);
        match (want, sub) {
            (Some(n), Some(v)) => {
                let mut pp = String::from("$");
                if let Err((kind, msg)) = cmp_node(n, doc, &walk(v, false), false, &mut pp) {
                    fail!(format!("C10/dom-wrong-value/{kind}"), "Value::pointer({}) on {:?}: {msg}", path_to_string(p), show_bytes(doc, 300));
                }
            }
            (Some(_), None) => fail!("C10/not-found/dom", "Value::pointer({}) is None on {:?}", path_to_string(p), show_bytes(doc, 300)),
            (None, Some(v)) => fail!("C10/found-missing/dom", "Value::pointer({}) on {:?} found {:?}", path_to_string(p), show_bytes(doc, 300), walk(v, false).dump()),
            (None, None) => {}
        }
        // stepwise get / Index
        let mut cur = Some(&dom);
        for e in &ptr {
            cur = cur.and_then(|c| c.get(e));
        }
        ensure!(cur.is_some() == want.is_some(), "C10/stepwise/dom", "stepwise Value::get({}) on {:?}: found={}, expected {}", path_to_string(p), show_bytes(doc, 300), cur.is_some(), want.is_some());
        if let (Some(a), Some(b)) = (cur, sub) {
            ensure!(a == b, "C10/stepwise/dom", "stepwise get and pointer disagree at {}", path_to_string(p));
        }
        // the same path built through the public conversions (`PointerNode::from(&str)`, `from(usize)`,
        // the `pointer!` macro for short paths) addresses the same node
        {
            let ptr2: Vec<PointerNode> = p
                .iter()
                .map(|e| match e {
                    PathElem::Key(k) => PointerNode::from(k.as_str()),
                    PathElem::Idx(i) => PointerNode::from(*i),
                })
                .collect();
            check_lazy("get(&[u8]) with From-built path", sonic_rs::get(doc, &ptr2), want, doc, p, true)?;
            ensure!(dom.pointer(&ptr2).is_some() == want.is_some() && lazy_root.pointer(&ptr2).is_some() == want.is_some() && owned_root.pointer(&ptr2).is_some() == want.is_some(), "C10/from-built-path", "a path built with PointerNode::from resolves differently from the same path built from Key/Index nodes: {} on {:?}", path_to_string(p), show_bytes(doc, 300));
            if let [PathElem::Key(a), PathElem::Key(b)] = &p[..] {
                let via_macro = sonic_rs::pointer![a.as_str(), b.as_str()];
                ensure!(dom.pointer(&via_macro).is_some() == want.is_some() && sonic_rs::get(doc, &via_macro).is_ok() == want.is_some(), "C10/from-built-path", "pointer![{a:?}, {b:?}] resolves differently from the Key/Key path on {:?}", show_bytes(doc, 300));
            }
            if let [PathElem::Key(a)] = &p[..] {
                let via_macro = sonic_rs::pointer![a.as_str()];
                ensure!(dom.pointer(&via_macro).is_some() == want.is_some() && sonic_rs::get(doc, &via_macro).is_ok() == want.is_some(), "C10/from-built-path", "pointer![{a:?}] resolves differently from the Key path on {:?}", show_bytes(doc, 300));
            }
        }
        // lazy values
        let lp = lazy_root.pointer(&ptr);
        match (want, lp) {
            (Some(n), Some(lv)) => ensure!(lv.as_raw_str().as_bytes() == n.span.of(doc), "C10/wrong-span/lazyvalue", "LazyValue::pointer({}) on {:?} returned {:?}", path_to_string(p), show_bytes(doc, 300), refjson::trunc(lv.as_raw_str(), 120)),
            (Some(_), None) => fail!("C10/not-found/lazyvalue", "LazyValue::pointer({}) is None on {:?}", path_to_string(p), show_bytes(doc, 300)),
            (None, Some(lv)) => fail!("C10/found-missing/lazyvalue", "LazyValue::pointer({}) on {:?} found {:?}", path_to_string(p), show_bytes(doc, 300), refjson::trunc(lv.as_raw_str(), 120)),
            (None, None) => {}
        }
        let op = owned_root.pointer(&ptr);
        match (want, op) {
            (Some(n), Some(ov)) => {
                let text = sonic_rs::to_string(ov).map_err(|e| Fail::new("C10/ownedlazy-ser", format!("{e}")))?;
                ensure!(text.as_bytes() == n.span.of(doc), "C10/wrong-span/ownedlazy", "OwnedLazyValue::pointer({}) on {:?} serializes as {:?}, expected {:?}", path_to_string(p), show_bytes(doc, 300), refjson::trunc(&text, 120), show_bytes(n.span.of(doc), 120));
            }
            (Some(_), None) => fail!("C10/not-found/ownedlazy", "OwnedLazyValue::pointer({}) is None on {:?}", path_to_string(p), show_bytes(doc, 300)),
            (None, Some(_)) => fail!("C10/found-missing/ownedlazy", "OwnedLazyValue::pointer({}) on {:?} found something", path_to_string(p), show_bytes(doc, 300)),
            (None, None) => {}
        }
    }
    Ok(())
}

pub fn subs() -> Vec<Sub<'static>> {
    ["docs", "stress", "positional", "dup-keys", "golden", "many-small", "confusable-keys", "brackets", "large-utf8", "wide-objects", "scalars"].iter().map(|n| Sub { name: n, oracle: &oracle, minimise_bytes: false }).collect()
}

fn sub(name: &str) -> Sub<'static> {
    subs().into_iter().find(|s| s.name == name).unwrap()
}

pub const POS_FEATURES: &[&[u8]] = &[b"\\\"", b"\\\\", b"\\\\\\\"", b"\\\\\\\\", b"\\n", b"\\u00e9", b"\\ud83d\\ude00", "é".as_bytes(), "😀".as_bytes(), b"]", b"}", b"[", b"{", b",", b":", b"\\\"]", b"}\\\\"];

pub fn run(ctx: &Ctx) {
    let p = DocParams { ws: 2, max_depth: 5, max_items: 6, ..DocParams::default() };
    let pc = p.clone();
    ctx.search(&sub("docs"), "generated", ctx.n(120_000, 1_000_000), 800, &move |src: &mut Src| gens::gen_container_doc(src, &pc));
    let pc = p.clone();
    ctx.search(&sub("stress"), "skip-stress", ctx.n(180_000, 1_600_000), 600, &move |src: &mut Src| gen_skip_stress(src, &pc));
    let pc = DocParams { dup_keys: true, ..p.clone() };
    ctx.search(&sub("dup-keys"), "dup", ctx.n(60_000, 480_000), 400, &move |src: &mut Src| gens::gen_container_doc(src, &pc));

    ctx.search(&sub("many-small"), "many-small", ctx.n(4_500, 60_000), 200, &|src: &mut Src| gens::gen_many_small(src));
    ctx.search(&sub("brackets"), "bracket-stress", ctx.n(90_000, 800_000), 300, &|src: &mut Src| crate::lazyhelp::gen_bracket_stress(src));
    ctx.search(&sub("large-utf8"), "large-utf8", ctx.n(400, 6_000), 120, &|src: &mut Src| gens::gen_large_utf8(src));
    ctx.search(&sub("wide-objects"), "wide-objects", ctx.n(6_000, 80_000), 200, &|src: &mut Src| gens::gen_wide_object(src));
    // scalar documents (the value ends where the input ends) and the empty path, on every carrier
    {
        let mut list: Vec<Vec<u8>> = Vec::new();
        for tail in ["\\u00e9", "\\ud83d\\ude00", "\\n", "\\\\", "\\\"", "\\u0041", "\\/", "é", "a", ""] {
            for pre in ["", "x", "abc def ", "0123456789012345678901234567890", "0123456789012345678901234567890123456789012345678901234567890123"] {
                for ws in ["", " ", "\n"] {
                    list.push(format!("{ws}\"{pre}{tail}\"").into_bytes());
                    list.push(format!("{ws}\"{pre}{tail}\"{ws}").into_bytes());
                }
            }
        }
        for x in ["0", "-0", "1.5", "1e5", "12345678901234567890", "true", "false", "null", " null", "-1.25E-3", "123456789012345678901234567890.5"] {
            list.push(x.as_bytes().to_vec());
        }
        ctx.cases(&sub("scalars"), &list);
    }
    ctx.search(&sub("confusable-keys"), "confusable", ctx.n(60_000, 600_000), 200, &|src: &mut Src| gen_confusable_keys(src));

    // positional sweep: a feature at every position of a skipped sibling string
    let quick = ctx.quick();
    ctx.sweep(&sub("positional"), true, &|shard, n, emit| {
        let mut k = 0usize;
        for f in POS_FEATURES {
            for pos in 0..=130usize {
                for tail in [0usize, 1, 2, 30, 31, 32, 33, 64, 100] {
                    k += 1;
                    if k % n != shard {
                        continue;
                    }
                    let offs: &[usize] = if quick { &[0, 1, 31] } else { &[0, 1, 7, 15, 16, 31, 32, 33, 63, 64] };
                    for &off in offs {
                        for shape in 0..3 {
                            let mut d = vec![b' '; off];
                            let mut lit = vec![b'"'];
                            lit.resize(1 + pos, b'a');
                            lit.extend_from_slice(f);
                            lit.resize(lit.len() + tail, b'a');
                            lit.push(b'"');
                            match shape {
                                0 => {
                                    d.extend_from_slice(b"{\"s\":");
                                    d.extend_from_slice(&lit);
                                    d.extend_from_slice(b",\"t\":[1,{\"u\":null}],\"v\":\"0123456789012345678901234567890123456789\"}");
                                }
                                1 => {
                                    d.push(b'[');
                                    d.extend_from_slice(&lit);
                                    d.extend_from_slice(b",12.5E3,[\"x\"],\"0123456789012345678901234567890123456789\"]");
                                }
                                _ => {
                                    // the feature inside a skipped *key*, and inside a nested container
                                    d.push(b'{');
                                    d.extend_from_slice(&lit);
                                    d.extend_from_slice(b":[");
                                    d.extend_from_slice(&lit);
                                    d.extend_from_slice(b"],\"t\":{\"w\":-1.5e-3},\"v\":\"0123456789012345678901234567890123456789\"}");
                                }
                            }
                            if !emit(&d) {
                                return;
                            }
                        }
                    }
                }
            }
        }
    });
    ctx.mark_exhaustive("each string feature at every position 0..=130 of a skipped sibling / key x tail lengths x offsets x 3 document shapes");

    // golden documents padded through every alignment
    ctx.sweep(&sub("golden"), false, &|shard, n, emit| {
        let mut k = 0usize;
        for d in gens::golden_docs() {
            for pre in 0..=64usize {
                k += 1;
                if k % n != shard {
                    continue;
                }
                let mut t = vec![b' '; pre];
                t.extend_from_slice(&d);
                t.extend_from_slice(&[b' '; 70]);
                if !emit(&t) {
                    return;
                }
            }
        }
    });
}
