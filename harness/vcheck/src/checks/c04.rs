//! C04 — typed deserialization agrees with serde_json on result and on accept/reject.

use std::borrow::Cow;

use serde::Deserialize;
use vbase::engine::{Ctx, Fail, Obs, Src, Sub};
use vbase::gens;
use vbase::refjson::{self, show_bytes, trunc, Kind, Node, Span};
use vbase::{ensure, fail};

use crate::family::{self, Fam, FamVisitor};
use crate::model_ser::{to_model, SV};

pub const RULE: &str = "cases are (target type, text) pairs: for each of the 71 types of the family (incl. structs/enums whose field and variant names need escaping, newtype variants with nullable payloads, Display-driven strings written in pieces) (plus a struct of borrowed &str / Cow / &[u8] fields) a value is generated, printed by serde_json (compact or pretty) and then kept, re-laid-out, or damaged by type-directed near-misses: a scalar replaced by boundary integers of every width, 1.0/1e2/-0/20..40-digit integers, another JSON kind, strings with escapes, lone surrogates; keys renamed, decorated numerically (' 1', '01', '+1', '1.0', '1e0', '', '-'), duplicated, extra members carrying nested (possibly malformed) documents, or values built to stress the validating skipper (a string with one escape at a chosen position 0..=130, hundreds of tiny containers, bracket bursts); generic byte mutations, truncation, trailing bytes. serde_json::from_slice/from_str::<T> and sonic_rs::from_slice/from_str::<T> must agree on Ok/Err and on the value (floats by bits). Documented differences are excluded: f32 fields may differ by the double rounding through f64 (one ulp) and literals beyond f32::MAX. Non-trivial = a damaged or re-laid-out text, or a value with nesting; distinct by (type, text).";
pub const ASSUMPTIONS: &[&str] = &["serde_json 1.0 with float_roundtrip is the reference the property names", "nesting of generated texts stays below both libraries' limits", "exact f32 expectations are checked in C07, here f32 fields are compared with one-ulp tolerance"];

/// compare two models; f32 leaves with one-ulp tolerance
fn sv_equal(a: &SV, b: &SV) -> bool {
    match (a, b) {
        (SV::F32(x), SV::F32(y)) => {
            let (fx, fy) = (f32::from_bits(*x), f32::from_bits(*y));
            x == y || (fx.is_finite() && fy.is_finite() && (*x as i64 - *y as i64).abs() <= 1) || (fx.is_infinite() != fy.is_infinite())
        }
        (SV::Arr(x), SV::Arr(y)) => x.len() == y.len() && x.iter().zip(y).all(|(p, q)| sv_equal(p, q)),
        (SV::Obj(x), SV::Obj(y)) => x.len() == y.len() && x.iter().zip(y).all(|((k, p), (l, q))| sv_equal(k, l) && sv_equal(p, q)),
        _ => a == b,
    }
}

fn has_huge_number(text: &[u8]) -> bool {
    // a number literal whose magnitude exceeds f32::MAX
    let mut i = 0;
    while i < text.len() {
        if text[i] == b'-' || text[i].is_ascii_digit() {
            if let Ok(e) = refjson::lex_number(text, i) {
                if let Ok(f) = std::str::from_utf8(&text[i..e]).unwrap_or("0").parse::<f64>() {
                    if f.abs() > f32::MAX as f64 {
                        return true;
                    }
                }
                i = e;
                continue;
            }
        }
        i += 1;
    }
    false
}

fn invalid_utf8_only_in_bytes_targets(text: &[u8], bytes_at: u8) -> bool {
    if bytes_at == 0 {
        return false;
    }
    let Ok((root, _)) = refjson::parse(text) else { return false };
    let mut spans: Vec<Span> = Vec::new();
    match (bytes_at, &root.kind) {
        (1, Kind::Str(_)) => spans.push(root.span),
        (2, Kind::Arr(v)) => spans.extend(v.iter().filter(|n| matches!(n.kind, Kind::Str(_))).map(|n| n.span)),
        (2, Kind::Obj(v)) => spans.extend(v.iter().filter(|(_, n)| matches!(n.kind, Kind::Str(_))).map(|(_, n)| n.span)),
        (3, Kind::Arr(v)) => spans.extend(v.iter().enumerate().filter(|(i, n)| (*i == 0 || *i == 2) && matches!(n.kind, Kind::Str(_))).map(|(_, n)| n.span)),
        _ => {}
    }
    // every byte of every invalid sequence must be inside one of the spans
    let mut rest = text;
    let mut base = 0usize;
    loop {
        match std::str::from_utf8(rest) {
            Ok(_) => return true,
            Err(e) => {
                let at = base + e.valid_up_to();
                let len = e.error_len().unwrap_or(rest.len() - e.valid_up_to());
                if !spans.iter().any(|sp| sp.start < at && at + len < sp.end) {
                    return false;
                }
                base = at + len;
                rest = &text[base..];
            }
        }
    }
}

fn compare<T: Fam>(text: &[u8]) -> Result<(), Fail> {
    let name = T::NAME;
    // Texts that are not valid UTF-8: C02 requires every entry point (including skipped / ignored
    // content) to reject them, while serde_json does not validate the parts it skips. The two
    // libraries are only comparable when every invalid byte lies inside a string literal that is
    // deserialized into a byte buffer (both document that such literals need not be UTF-8).
    if std::str::from_utf8(text).is_err() && !invalid_utf8_only_in_bytes_targets(text, T::BYTES_AT) {
        return Ok(());
    }
    let sj: Result<T, _> = serde_json::from_slice(text);
    let so: Result<T, _> = sonic_rs::from_slice(text);
    let f32_slack = T::HAS_F32 && has_huge_number(text);
    match (&sj, &so) {
        (Ok(a), Ok(b)) => {
            if a != b {
                // allow the documented f32 difference
                let ok = T::HAS_F32 && matches!((to_model(a), to_model(b)), (Ok(x), Ok(y)) if sv_equal(&x, &y));
                ensure!(ok, format!("C04/{name}/value-differs"), "{name}: {:?} -> serde_json {}, sonic-rs {}", show_bytes(text, 300), trunc(&format!("{a:?}"), 200), trunc(&format!("{b:?}"), 200));
            }
        }
        (Ok(a), Err(e)) => {
            // known finding F17: a byte-buffer target accepts unpaired surrogate escapes in
            // serde_json (they become 3-byte sequences), sonic-rs rejects them
            if T::BYTES_AT != 0 && matches!(refjson::scan(text, 0, &mut refjson::NoSink), Err(e) if e.reason == "raw control character in string") {
                fail!("C04/bytes/raw-control-character", "ByteBuf: {:?} -> serde_json Ok({}), sonic-rs Err({})", show_bytes(text, 300), trunc(&format!("{a:?}"), 160), e.to_string().lines().next().unwrap_or(""));
            }
            if T::BYTES_AT != 0 && matches!(refjson::scan(text, 0, &mut refjson::NoSink), Ok(s) if !s.scalars_ok) {
                fail!("C04/bytes/lone-surrogate", "ByteBuf: {:?} -> serde_json Ok({}), sonic-rs Err({})", show_bytes(text, 300), trunc(&format!("{a:?}"), 160), e.to_string().lines().next().unwrap_or(""));
            }
            ensure!(f32_slack, format!("C04/{name}/sonic-rejects"), "{name}: {:?} -> serde_json Ok({}), sonic-rs Err({})", show_bytes(text, 300), trunc(&format!("{a:?}"), 160), e.to_string().lines().next().unwrap_or(""));
        }
        (Err(e), Ok(b)) => {
            ensure!(f32_slack, format!("C04/{name}/sonic-accepts"), "{name}: {:?} -> serde_json Err({e}), sonic-rs Ok({})", show_bytes(text, 300), trunc(&format!("{b:?}"), 160));
        }
        (Err(_), Err(_)) => {}
    }
    // from_str must behave like from_slice
    if let Ok(s) = std::str::from_utf8(text) {
        let so2: Result<T, _> = sonic_rs::from_str(s);
        match (&so, &so2) {
            (Ok(a), Ok(b)) => ensure!(a == b, format!("C04/{name}/from_str-differs"), "{name}: from_str and from_slice give different values for {:?}", show_bytes(text, 300)),
            (Err(_), Err(_)) => {}
            _ => fail!(format!("C04/{name}/from_str-differs"), "{name}: from_str ok={} but from_slice ok={} for {:?}", so2.is_ok(), so.is_ok(), show_bytes(text, 300)),
        }
    }
    Ok(())
}

#[derive(Deserialize, PartialEq, Debug)]
struct BorrowS<'a> {
    #[serde(borrow)]
    s: &'a str,
    #[serde(borrow)]
    c: Cow<'a, str>,
    #[serde(borrow, with = "serde_bytes")]
    b: &'a [u8],
    o: Option<&'a str>,
}

fn compare_borrowed(text: &[u8]) -> Result<(), Fail> {
    if std::str::from_utf8(text).is_err() {
        return Ok(());
    }
    let sj: Result<BorrowS, _> = serde_json::from_slice(text);
    let so: Result<BorrowS, _> = sonic_rs::from_slice(text);
    match (&sj, &so) {
        (Ok(a), Ok(b)) => {
            ensure!(a == b, "C04/BorrowS/value-differs", "BorrowS: {:?} -> serde_json {a:?}, sonic-rs {b:?}", show_bytes(text, 300));
            ensure!(matches!(a.c, Cow::Borrowed(_)) == matches!(b.c, Cow::Borrowed(_)), "C04/BorrowS/borrow-differs", "BorrowS: Cow borrowed-ness differs for {:?}", show_bytes(text, 300));
        }
        (Ok(a), Err(e)) if matches!(refjson::scan(text, 0, &mut refjson::NoSink), Err(x) if x.reason == "raw control character in string") => fail!("C04/bytes/raw-control-character", "BorrowS: {:?} -> serde_json Ok({a:?}), sonic-rs Err({})", show_bytes(text, 300), e.to_string().lines().next().unwrap_or("")),
        (Ok(a), Err(e)) if matches!(refjson::scan(text, 0, &mut refjson::NoSink), Ok(s) if !s.scalars_ok) => fail!("C04/bytes/lone-surrogate", "BorrowS: {:?} -> serde_json Ok({a:?}), sonic-rs Err({})", show_bytes(text, 300), e.to_string().lines().next().unwrap_or("")),
        (Ok(a), Err(e)) => fail!("C04/BorrowS/sonic-rejects", "BorrowS: {:?} -> serde_json Ok({a:?}), sonic-rs Err({})", show_bytes(text, 300), e.to_string().lines().next().unwrap_or("")),
        (Err(e), Ok(b)) => fail!("C04/BorrowS/sonic-accepts", "BorrowS: {:?} -> serde_json Err({e}), sonic-rs Ok({b:?})", show_bytes(text, 300)),
        _ => {}
    }
    Ok(())
}

// ---- type-directed text generation ------------------------------------------------------------

const NUM_NEARMISS: &[&str] = &[
    "127", "128", "-128", "-129", "255", "256", "-1", "32767", "32768", "-32768", "-32769", "65535", "65536", "2147483647", "2147483648", "-2147483648", "-2147483649", "4294967295", "4294967296", "9223372036854775807", "9223372036854775808", "-9223372036854775808",
    "-9223372036854775809", "18446744073709551615", "18446744073709551616", "170141183460469231731687303715884105727", "170141183460469231731687303715884105728", "-170141183460469231731687303715884105728", "-170141183460469231731687303715884105729", "340282366920938463463374607431768211455",
    "340282366920938463463374607431768211456", "9007199254740993.00000000000000000000000000000000000000000000000000000000000000000000000000000000000000000000000000000000000000000000000000000000000000000000000000000000000000000000000000000000000000000000000000000000000000000000000000000000000000000000000000000000000000000000000000000000000000000000000000000000000000000000000000000000000000000000000000000000000000000000000000000000000000000000000000000000000000000000000000000000000000000000000000000000000000000000000000000000000000000000000000000000000000000000000000000000000000000000000000000000000000000000000000000000000000000000000000000000000000000000000000000000000000000000000000000000000000000000000000000000000000000000000000000000000000000000000000000000000000000000000000000000000000000000000000000000000000000000000000000000000000000000000000000000000000", "1.0", "1e2", "1E2", "1.25e-2147483647", "1.25e-2147483648", "100000000000000000000e2147483647", "123.456e-2147483646", "0.00125e2147483647", "1e-2147483649", "12.5e4294967295", "0.0000001e-4294967296", "-0", "0.0", "-0.0", "1.5", "1e400", "-1e400", "12345678901234567890123456789012345678901", "0.1", "3.4028236e38", "1e39", "5e-324", "1e-400", "1.7976931348623157e308", "00", "01", "1.", ".5", "+1", "0x10", "1_000", "NaN", "Infinity",
];
const OTHER_KIND: &[&str] = &["null", "true", "false", "\"x\"", "\"\"", "[]", "{}", "[1]", "{\"a\":1}", "\"\\u00e9\\n\"", "\"\\ud83d\\ude00\"", "\"\\ud800\"", "\"\\udc00x\"", "\"1\"", "\"Alpha\"", "\"Unit\"", "\"g\\\"amma\"", "[null]", "[[]]", "\"a\\u0000b\""];
const KEY_DECOR: &[&str] = &["\" 1\"", "\"01\"", "\"+1\"", "\"1.0\"", "\"1e0\"", "\"\"", "\"-\"", "\"1 \"", "\"-0\"", "\"256\"", "\"-129\"", "\"true\"", "\"True\"", "\"a\"", "\"\\u0031\"", "\"1\"", "\"0\"", "\"-1\"", "\"18446744073709551616\"", "\"zz\"", "\"t\"", "\"c\"", "\"x-y\"", "\"Alpha\"", "\"id\"", "\"340282366920938463463374607431768211456\"", "\"\\u0061\""];
const EXTRA_MEMBER: &[&str] = &["\"extra\":[1,{\"q\":null}]", "\"a\":0", "\"x-y\":\"dup\"", "\"t\":\"B\"", "\"t\":\"A\"", "\"c\":1", "\"b\":null", "\"extra\":{\"deep\":[[[\"]\"]]]}", "\"k\":7", "\"id\":1", "\"extra\":\"\\ud800\"", "\"extra\":1e999", "\"extra\":[1,]", "\"z\":300", "\"p\":null", "\"v\":[{}]"];

fn collect(n: &Node, scalars: &mut Vec<Span>, keys: &mut Vec<Span>, objs: &mut Vec<Span>) {
    match &n.kind {
        Kind::Arr(v) => v.iter().for_each(|x| collect(x, scalars, keys, objs)),
        Kind::Obj(v) => {
            objs.push(n.span);
            v.iter().for_each(|(k, x)| {
                keys.push(k.span);
                collect(x, scalars, keys, objs)
            })
        }
        _ => scalars.push(n.span),
    }
}

pub fn damage(src: &mut Src, text: &[u8]) -> (Vec<u8>, &'static str) {
    let Ok((root, _)) = refjson::parse(text) else { return (text.to_vec(), "as-printed") };
    let (mut scalars, mut keys, mut objs) = (Vec::new(), Vec::new(), Vec::new());
    collect(&root, &mut scalars, &mut keys, &mut objs);
    let mut out = text.to_vec();
    let k = src.below(15);
    match k {
        0 => (out, "as-printed"),
        1 | 2 if !scalars.is_empty() => {
            let sp = scalars[src.below(scalars.len())];
            if src.chance(60) {
                // an integer-valued exact tie of two adjacent doubles (more than 19 digits), spelt with an
                // all-zero fraction / exponent / sticky digit: (2m+1) * 2^(e-1) for a 53-bit m
                let m = (src.u64() & ((1u64 << 52) - 1)) | (1u64 << 52);
                let e = 12 + src.below(40) as u32;
                let tie: u128 = ((2 * m as u128) + 1) << (e - 1);
                let rep = format!("{}{}{}", if src.bool() { "-" } else { "" }, tie, *src.pick(&["", ".0", ".000000", "e0", ".0e0", ".0E+0", ".00000000000000000000000001", "E-0"]));
                out.splice(sp.start..sp.end, rep.bytes());
                return (out, "number-near-miss");
            }
            let rep = *src.pick(NUM_NEARMISS);
            out.splice(sp.start..sp.end, rep.bytes());
            (out, "number-near-miss")
        }
        3 if !scalars.is_empty() => {
            let sp = scalars[src.below(scalars.len())];
            let rep = *src.pick(OTHER_KIND);
            out.splice(sp.start..sp.end, rep.bytes());
            (out, "other-kind")
        }
        4 if !keys.is_empty() => {
            let sp = keys[src.below(keys.len())];
            let rep = *src.pick(KEY_DECOR);
            out.splice(sp.start..sp.end, rep.bytes());
            (out, "key-changed")
        }
        5 if !objs.is_empty() => {
            // extra / duplicate member at the start or the end of an object
            let sp = objs[src.below(objs.len())];
            let m = *src.pick(EXTRA_MEMBER);
            let empty = refjson::skip_ws(&out, sp.start + 1) == sp.end - 1;
            if src.bool() {
                let ins = if empty { m.to_string() } else { format!("{m},") };
                out.splice(sp.start + 1..sp.start + 1, ins.bytes());
            } else {
                let ins = if empty { m.to_string() } else { format!(",{m}") };
                out.splice(sp.end - 1..sp.end - 1, ins.bytes());
            }
            (out, "extra-member")
        }
        6 if !keys.is_empty() => {
            // drop a member: remove from key start to the next comma or closing brace at the same level
            let sp = keys[src.below(keys.len())];
            if let Ok(sum) = refjson::scan(&out, refjson::skip_ws(&out, sp.end) + 1, &mut refjson::NoSink) {
                let mut end = refjson::skip_ws(&out, sum.end);
                let mut start = sp.start;
                if end < out.len() && out[end] == b',' {
                    end += 1;
                } else {
                    // last member: remove the preceding comma
                    let mut j = start;
                    while j > 0 && refjson::is_ws(out[j - 1]) {
                        j -= 1;
                    }
                    if j > 0 && out[j - 1] == b',' {
                        start = j - 1;
                    }
                }
                out.splice(start..end, std::iter::empty());
            }
            (out, "member-dropped")
        }
        7 => {
            let m = gens::mutate(src, &out).0;
            (m, "byte-mutation")
        }
        8 => {
            // whitespace re-layout
            let mut o = Vec::with_capacity(out.len() * 2);
            let compact = refjson::compact(&out);
            let mut in_str = false;
            let mut esc = false;
            for &c in &compact {
                if in_str {
                    o.push(c);
                    if esc {
                        esc = false;
                    } else if c == b'\\' {
                        esc = true;
                    } else if c == b'"' {
                        in_str = false;
                    }
                    continue;
                }
                if c == b'"' {
                    in_str = true;
                }
                if matches!(c, b'{' | b'}' | b'[' | b']' | b',' | b':') {
                    let w = *src.pick(&["", " ", "\n", "\t", "\r\n", "  "]);
                    o.extend_from_slice(w.as_bytes());
                    o.push(c);
                    let w = *src.pick(&["", " ", "\n ", ""]);
                    o.extend_from_slice(w.as_bytes());
                } else {
                    o.push(c);
                }
            }
            (o, "relayout")
        }
        9 => {
            let cut = src.below(out.len() + 1);
            out.truncate(cut);
            (out, "truncated")
        }
        11 => {
            // a string literal with raw (possibly non-UTF-8) bytes in place of an array or scalar
            let mut spans = scalars.clone();
            fn arrays(n: &Node, out: &mut Vec<Span>) {
                match &n.kind {
                    Kind::Arr(v) => {
                        out.push(n.span);
                        v.iter().for_each(|x| arrays(x, out));
                    }
                    Kind::Obj(v) => v.iter().for_each(|(_, x)| arrays(x, out)),
                    _ => {}
                }
            }
            arrays(&root, &mut spans);
            if spans.is_empty() {
                return (out, "as-printed");
            }
            let sp = spans[src.below(spans.len())];
            let n = src.below(12);
            let mut lit = vec![b'"'];
            for _ in 0..n {
                let b = *src.pick(&[b'a', b'z', 0xff, 0xfe, 0x80, 0xc3, 0xa9, 0xe4, 0xb8, 0xad, 0xf0, 0x9f, 0x20, 0x7f, 0xed, 0xa0]);
                lit.push(b);
            }
            if src.chance(60) {
                lit.extend_from_slice(*src.pick(&[&b"\\n"[..], b"\\u00e9", b"\\\"", b"\\\\", b"\\ud83d\\ude00"]));
            }
            lit.push(b'"');
            out.splice(sp.start..sp.end, lit);
            (out, "bytes-string")
        }
        12 | 13 if !objs.is_empty() => {
            // an unknown member whose value stresses the validating skipper: a string with one feature
            // at a chosen position, hundreds of tiny containers, bracket bursts, nasty siblings
            let sp = objs[src.below(objs.len())];
            let mut val: Vec<u8> = Vec::new();
            match src.below(6) {
                0 | 1 | 2 => {
                    let pos = if src.chance(128) { *src.pick(&[29usize, 30, 31, 32, 33, 61, 62, 63, 64, 65, 93, 94, 95, 96, 97, 127]) } else { src.below(131) };
                    let feat: &[u8] = *src.pick(&[&b"\\\""[..], b"\\\\", b"\\n", b"\\u00e9", "é".as_bytes(), b"\\\\\\\"", b"\\/", b"\\ud83d\\ude00"]);
                    let tail = *src.pick(&[0usize, 1, 5, 30, 31, 32, 33, 40, 64, 70]);
                    val.push(b'"');
                    val.resize(1 + pos, b'a');
                    val.extend_from_slice(feat);
                    val.resize(val.len() + tail, b'b');
                    val.push(b'"');
                }
                3 if src.bool() => {
                    // a long number with a damaged tail (both libraries must refuse it, also when skipped)
                    let n = *src.pick(&[1usize, 15, 16, 17, 30, 31, 32, 33, 34, 62, 63, 64, 65, 66, 100]);
                    for i in 0..n {
                        val.push(b'1' + (i % 9) as u8);
                    }
                    let tail: &[u8] = *src.pick(&[&b".5.5"[..], b".5e5e5", b".5", b"", b"e5", b".", b"e", b"e+", b".e5", b".5e", b"-", b".5-", b".5x", b"..5", b"e5.5", b".25.0000000"]);
                    val.extend_from_slice(tail);
                }
                3 => val = gens::gen_many_small(src),
                4 => val = crate::lazyhelp::gen_bracket_stress(src),
                _ => val = crate::lazyhelp::gen_skip_stress(src, &gens::DocParams { align: 0, ..gens::DocParams::default() }),
            }
            let key = *src.pick(&["\"zzskip\"", "\"extra\"", "\"tags\"", "\"\""]);
            let empty = refjson::skip_ws(&out, sp.start + 1) == sp.end - 1;
            let mut ins: Vec<u8> = Vec::new();
            let at_start = src.bool();
            if !at_start && !empty {
                ins.push(b',');
            }
            ins.extend_from_slice(key.as_bytes());
            ins.push(b':');
            ins.extend_from_slice(&val);
            if at_start && !empty {
                ins.push(b',');
            }
            let at = if at_start { sp.start + 1 } else { sp.end - 1 };
            out.splice(at..at, ins);
            (out, "skipped-member")
        }
        10 => {
            let t = *src.pick(&[" ", "\n", " x", ",", "]", "}", " 1", "null", "\u{0}", "//c"]);
            out.extend_from_slice(t.as_bytes());
            (out, "trailing")
        }
        _ => (out, "as-printed"),
    }
}

struct Case<'a, 'b> {
    src: &'a mut Src<'b>,
    obs: &'a mut Obs,
    result: Result<(), Fail>,
}
impl FamVisitor for Case<'_, '_> {
    fn visit<T: Fam>(&mut self) {
        let x = T::g(self.src, 0);
        let printed = if self.src.chance(60) { serde_json::to_vec_pretty(&x) } else { serde_json::to_vec(&x) };
        let Ok(printed) = printed else {
            return; // serde_json cannot print it (e.g. non-string key kinds): no text to start from
        };
        let (mut text, mut label) = damage(self.src, &printed);
        if self.src.chance(50) && label != "as-printed" {
            let (t2, l2) = damage(self.src, &text);
            if l2 != "as-printed" {
                text = t2;
                label = "double-damage";
            }
        }
        self.obs.label(label);
        self.obs.label(T::NAME);
        if label != "as-printed" || printed.iter().filter(|c| matches!(c, b'[' | b'{')).count() >= 2 {
            self.obs.nt();
        }
        self.obs.render = Some(format!("{}: {}", T::NAME, show_bytes(&text, 300)));
        self.result = compare::<T>(&text);
    }
}

pub fn oracle(case: &[u8], obs: &mut Obs) -> Result<(), Fail> {
    if case.is_empty() {
        return Ok(());
    }
    let idx = case[0] as usize;
    let mut src = Src::new(&case[1..]);
    if idx >= 200 {
        // borrowed struct
        let s = <String as crate::family::G>::g(&mut src, 0);
        let c = <String as crate::family::G>::g(&mut src, 0);
        let b = <String as crate::family::G>::g(&mut src, 0);
        let printed = serde_json::to_vec(&serde_json::json!({"s": s, "c": c, "b": b, "o": if src.bool() { Some(&s) } else { None }})).unwrap();
        let (text, label) = damage(&mut src, &printed);
        obs.label(label);
        obs.label("BorrowS");
        obs.nt();
        obs.render = Some(format!("BorrowS: {}", show_bytes(&text, 300)));
        return compare_borrowed(&text);
    }
    let mut v = Case { src: &mut src, obs, result: Ok(()) };
    family::dispatch(idx, &mut v);
    v.result
}

/// explicit (type, text) pairs: case = [idx][text]
pub fn oracle_text(case: &[u8], obs: &mut Obs) -> Result<(), Fail> {
    if case.is_empty() {
        return Ok(());
    }
    struct V<'a> {
        text: &'a [u8],
        result: Result<(), Fail>,
    }
    impl FamVisitor for V<'_> {
        fn visit<T: Fam>(&mut self) {
            self.result = compare::<T>(self.text);
        }
    }
    obs.nt();
    let mut v = V { text: &case[1..], result: Ok(()) };
    family::dispatch(case[0] as usize, &mut v);
    v.result
}

pub fn subs() -> Vec<Sub<'static>> {
    vec![Sub { name: "family", oracle: &oracle, minimise_bytes: false }, Sub { name: "texts", oracle: &oracle_text, minimise_bytes: false }]
}

pub fn run(ctx: &Ctx) {
    let subs = subs();
    // every type x a fixed list of texts (each type sees every near-miss at the root)
    ctx.sweep(&subs[1], true, &|shard, n, emit| {
        let mut k = 0usize;
        for idx in 0..family::N_TYPES {
            for t in NUM_NEARMISS.iter().chain(OTHER_KIND.iter()).chain(["", " ", "[", "{", "[1,2,3]", "[1,\"a\",true]", "{\"1\":true}", "{\" 1\":true}", "{\"a\":1,\"a\":2}", "{\"Alpha\":1}", "{\"New\":1}", "{\"Unit\":null}", "\"Unit\"", "{\"Tup\":[1,\"a\"]}", "{\"Tup\":[1]}", "{\"Struct\":{\"a\":true}}", "{\"Struct\":{\"a\":true,\"b\":1,\"c\":2}}", "{\"t\":\"A\",\"x\":1}", "{\"x\":1,\"t\":\"A\"}", "{\"t\":\"C\",\"c\":null}", "{\"t\":\"D\",\"c\":[1,true]}", "{\"c\":[1,true],\"t\":\"D\"}", "{\"k\":true}", "[1,2]", "{\"id\":1,\"x\":2}", "{\"id\":1,\"id\":2}", "{\"v\":1,\"kids\":[]}", "[0,[]]"].iter()) {
                k += 1;
                if k % n != shard {
                    continue;
                }
                let mut c = vec![idx as u8];
                c.extend_from_slice(t.as_bytes());
                if !emit(&c) {
                    return;
                }
            }
        }
    });
    // byte-buffer targets fed with string literals holding raw (often non-UTF-8) bytes
    ctx.search(&subs[1], "bytes-literals", ctx.n(1_200_000, 9_600_000), 120, &|src: &mut Src| {
        fn lit(src: &mut Src, out: &mut Vec<u8>) {
            out.push(b'"');
            let n = src.below(8);
            for _ in 0..n {
                out.push(*src.pick(&[b'a', b'z', 0xff, 0xfe, 0x80, 0xc3, 0xa9, 0xe4, 0xb8, 0xad, 0xf0, 0x9f, 0x20, 0x7f, 0xed, 0xa0, b'0']));
            }
            if src.chance(50) {
                out.extend_from_slice(*src.pick(&[&b"\\n"[..], b"\\u00e9", b"\\\"", b"\\\\", b"\\ud83d\\ude00", b"\\u0000"]));
            }
            out.push(b'"');
        }
        let idx = *src.pick(&[49u8, 60, 61, 62]);
        let mut c = vec![idx];
        match idx {
            49 => lit(src, &mut c),
            60 => {
                c.push(b'[');
                let n = src.below(5);
                for i in 0..n {
                    if i > 0 {
                        c.push(b',');
                    }
                    lit(src, &mut c);
                }
                c.push(b']');
            }
            61 => {
                c.push(b'{');
                let n = src.below(5);
                for i in 0..n {
                    if i > 0 {
                        c.push(b',');
                    }
                    c.extend_from_slice(format!("\"k{i}\":").as_bytes());
                    lit(src, &mut c);
                }
                c.push(b'}');
            }
            _ => {
                c.push(b'[');
                lit(src, &mut c);
                c.extend_from_slice(b",\"plain text\",");
                lit(src, &mut c);
                c.push(b']');
            }
        }
        c
    });
    ctx.search(&subs[0], "values", ctx.n(18_000_000, 144_000_000), 300, &|src: &mut Src| {
        let mut c = vec![if src.chance(8) { 200u8 } else { src.below(family::N_TYPES) as u8 }];
        c.extend_from_slice(src.rest());
        c
    });
}
