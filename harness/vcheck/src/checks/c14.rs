//! C14 — validating lazy APIs never hand out malformed fragments.

use bytes::Bytes;
use faststr::FastStr;
use sonic_rs::{LazyValue, PointerNode, PointerTree, Value};
use vbase::engine::{Ctx, Fail, Obs, Src, Sub};
use vbase::gens::{self, DocParams};
use vbase::refjson::{self, path_to_string, prefix_ok, scan, show_bytes, Kind, NoSink, PathElem};
use vbase::{ensure, fail};

use crate::lazyhelp::{gen_skip_stress, to_pointer};

pub const RULE: &str = "cases are (input bytes, path set) pairs: the paths are valid paths of a generated well-formed document (plus fixed short paths), the input is that document after one or two random mutations (truncation, substitution, insertion, deletion, duplication, UTF-8 damage, escape damage, number damage, separator damage), or — in the sweeps — every truncation, every per-position substitution by each of 23 bytes and every deletion of a set of documents; long number literals (1..=200 integer digits x fraction lengths) with every tail of a damage set as skipped and as returned member; strings and keys carrying invalid UTF-8 at varying distance from the start; member names whose escapes were replaced in place by the raw character (quote, line feed, tab, control) while the path names the member by its decoded text; items reached through nth / skip / step_by. Each pair goes through checked get over &[u8]/&str/&Bytes/&FastStr and get_from_*, get_many, get_by_schema, to_array_iter and to_object_iter over &[u8]/&str/&String/&Bytes/&FastStr. Whenever a value is returned its raw text must lie inside the input, be UTF-8, be exactly one well-formed JSON value without surrounding whitespace, and input[..end of value] must be a prefix of a well-formed UTF-8 JSON text (so every member, key and separator traversed before it was well-formed). Non-trivial = malformed input with a path of length >= 1; distinct by (input, path).";
pub const ASSUMPTIONS: &[&str] = &["refjson scanner and prefix rule", "bytes after the returned value are not required to be valid (statement)"];

fn split_case(case: &[u8]) -> Option<(&[u8], &[u8])> {
    if case.len() < 2 {
        return None;
    }
    let n = ((case[0] as usize) << 8) | case[1] as usize;
    if case.len() < 2 + n {
        return None;
    }
    Some((&case[2..2 + n], &case[2 + n..]))
}

pub fn join_case(doc: &[u8], paths: &[Vec<PathElem>]) -> Vec<u8> {
    let mut c = vec![(doc.len() >> 8) as u8, doc.len() as u8];
    c.extend_from_slice(doc);
    for p in paths {
        let mut line = String::from("[");
        for (i, e) in p.iter().enumerate() {
            if i > 0 {
                line.push(',');
            }
            match e {
                PathElem::Key(k) => line.push_str(&serde_json::to_string(k).unwrap()),
                PathElem::Idx(i) => line.push_str(&i.to_string()),
            }
        }
        line.push_str("]\n");
        c.extend_from_slice(line.as_bytes());
    }
    c
}

fn parse_paths(b: &[u8]) -> Vec<Vec<PathElem>> {
    let mut out = Vec::new();
    for line in b.split(|c| *c == b'\n') {
        if line.is_empty() {
            continue;
        }
        let Ok(v) = serde_json::from_slice::<Vec<serde_json::Value>>(line) else { continue };
        let p: Vec<PathElem> = v
            .iter()
            .filter_map(|e| match e {
                serde_json::Value::String(s) => Some(PathElem::Key(s.clone())),
                serde_json::Value::Number(n) => n.as_u64().map(|i| PathElem::Idx(i as usize)),
                _ => None,
            })
            .collect();
        out.push(p);
    }
    out
}

/// the returned fragment is sound
fn check_fragment(api: &str, input: &[u8], raw: &[u8], offset: Option<usize>, what: &str) -> Result<(), Fail> {
    let class = if api.contains("iter") { "iter" } else if api.contains("many") { "get_many" } else { "get" };
    ensure!(std::str::from_utf8(raw).is_ok(), format!("C14/{class}/fragment-not-utf8"), "{api} {what} on {:?} returned non-UTF-8 text {:?}", show_bytes(input, 300), show_bytes(raw, 100));
    match scan(raw, 0, &mut NoSink) {
        Ok(s) if s.start == 0 && s.end == raw.len() => {}
        _ => fail!(format!("C14/{class}/fragment-malformed"), "{api} {what} on {:?} returned {:?}, which is not exactly one well-formed JSON value", show_bytes(input, 300), show_bytes(raw, 160)),
    }
    // locate the fragment in the input
    let off = match offset {
        Some(o) => {
            ensure!(o + raw.len() <= input.len() && &input[o..o + raw.len()] == raw, format!("C14/{class}/outside-input"), "{api} {what}: returned span [{o}, {}) is not inside the input / does not hold the returned text", o + raw.len());
            o
        }
        None => {
            // owning carriers: find an occurrence whose prefix is well-formed
            let mut found = None;
            let mut any = false;
            for o in gens::find_all(input, raw) {
                any = true;
                if prefix_ok(input, o + raw.len()) {
                    found = Some(o);
                    break;
                }
            }
            ensure!(any, format!("C14/{class}/outside-input"), "{api} {what}: returned text {:?} does not occur in the input {:?}", show_bytes(raw, 100), show_bytes(input, 300));
            match found {
                Some(o) => o,
                None => fail!(format!("C14/{class}/malformed-before-value"), "{api} {what} on {:?} returned {:?} but no occurrence of it is preceded by a well-formed prefix", show_bytes(input, 300), show_bytes(raw, 100)),
            }
        }
    };
    ensure!(prefix_ok(input, off + raw.len()), format!("C14/{class}/malformed-before-value"), "{api} {what} on {:?} returned {:?} at offset {off}, but the input up to the end of that value is not a prefix of any well-formed JSON text", show_bytes(input, 300), show_bytes(raw, 100));
    Ok(())
}

fn off_in(input: &[u8], s: &str) -> Option<usize> {
    let a = input.as_ptr() as usize;
    let p = s.as_ptr() as usize;
    if p >= a && p + s.len() <= a + input.len() {
        Some(p - a)
    } else {
        None
    }
}

pub fn oracle(case: &[u8], obs: &mut Obs) -> Result<(), Fail> {
    let Some((input, pathbytes)) = split_case(case) else { return Ok(()) };
    let mut paths = parse_paths(pathbytes);
    // fixed short paths as well
    for p in [vec![], vec![PathElem::Idx(0)], vec![PathElem::Idx(1)], vec![PathElem::Key("a".into())], vec![PathElem::Idx(0), PathElem::Idx(0)], vec![PathElem::Key("a".into()), PathElem::Idx(0)]] {
        if !paths.contains(&p) {
            paths.push(p);
        }
    }
    let malformed = !refjson::accept(input).skip();
    obs.render = Some(format!("input={} paths={}", show_bytes(input, 300), paths.iter().map(|p| path_to_string(p)).collect::<Vec<_>>().join(" ")));
    let s = std::str::from_utf8(input).ok();
    let by = Bytes::copy_from_slice(input);
    let mut any_ok = false;
    for p in &paths {
        let ptr: Vec<PointerNode> = to_pointer(p);
        let what = format!("path {}", path_to_string(p));
        if malformed && !p.is_empty() {
            obs.nt_key(&what);
        }
        // borrowing carriers: exact offset known
        let mut check = |api: &str, r: sonic_rs::Result<LazyValue>, buf: &[u8], borrowed: bool| -> Result<(), Fail> {
            if let Ok(lv) = r {
                any_ok = true;
                let raw = lv.as_raw_str();
                let off = if borrowed { off_in(buf, raw) } else { None };
                if borrowed {
                    ensure!(off.is_some(), "C14/get/outside-input", "{api} {what}: returned text does not point into the input");
                }
                check_fragment(api, buf, raw.as_bytes(), off, &what)?;
            }
            Ok(())
        };
        check("get(&[u8])", sonic_rs::get(input, &ptr), input, true)?;
        check("get_from_slice", sonic_rs::get_from_slice(input, &ptr), input, true)?;
        check("get(&Bytes)", sonic_rs::get(&by, &ptr), input, false)?;
        check("get_from_bytes", sonic_rs::get_from_bytes(&by, &ptr), input, false)?;
        if let Some(s) = s {
            let fs = FastStr::new(s);
            check("get(&str)", sonic_rs::get(s, &ptr), input, true)?;
            check("get_from_str", sonic_rs::get_from_str(s, &ptr), input, true)?;
            check("get(&FastStr)", sonic_rs::get(&fs, &ptr), input, false)?;
            check("get_from_faststr", sonic_rs::get_from_faststr(&fs, &ptr), input, false)?;
        }
    }
    obs.label(if any_ok { "some-get-ok" } else { "all-get-err" });

    // get_many over shape-consistent subsets of the paths: group by "kind of first element"
    for kind_key in [true, false] {
        let group: Vec<&Vec<PathElem>> = paths.iter().filter(|p| consistent_kind(p, kind_key)).collect();
        if group.len() < 2 {
            continue;
        }
        let mut accepted: Vec<&Vec<PathElem>> = Vec::new();
        let mut tree = PointerTree::new();
        for p in group {
            if accepted.iter().all(|q| shape_compatible(q, p)) {
                let ptr = to_pointer(p);
                tree.add_path(ptr.iter());
                accepted.push(p);
            }
        }
        let run = |res: sonic_rs::Result<Vec<Option<LazyValue>>>, buf: &[u8], borrowed: bool| -> Result<(), Fail> {
            if let Ok(slots) = res {
                for (i, slot) in slots.iter().enumerate() {
                    if let Some(lv) = slot {
                        let raw = lv.as_raw_str();
                        let off = if borrowed { off_in(buf, raw) } else { None };
                        let what = format!("slot {i} ({})", accepted.get(i).map(|p| path_to_string(p)).unwrap_or_default());
                        check_fragment("get_many", buf, raw.as_bytes(), off, &what)?;
                    }
                }
            }
            Ok(())
        };
        run(sonic_rs::get_many(input, &tree), input, true)?;
        run(sonic_rs::get_many(&by, &tree), input, false)?;
        if let Some(s) = s {
            run(sonic_rs::get_many(s, &tree), input, true)?;
        }
    }

    // get_by_schema: Ok only if the first value of the input is well-formed
    for schema_text in ["{\"a\":null,\"b\":{\"c\":1}}", "{}", "{\"k0\":0,\"aa\":[],\"a\":{\"a\":null}}"] {
        let schema: Value = sonic_rs::from_str(schema_text).unwrap();
        let r = sonic_rs::get_by_schema(input, schema);
        if r.is_ok() {
            let first_ok = match scan(input, 0, &mut NoSink) {
                Ok(sum) => std::str::from_utf8(&input[..sum.end]).is_ok(),
                Err(_) => false,
            };
            ensure!(first_ok, "C14/schema/accepts-malformed", "get_by_schema({schema_text}) returned Ok on {:?} whose first value is not well-formed", show_bytes(input, 300));
        }
    }

    // checked iterators over the owning / string carriers as well
    {
        let fs = s.map(FastStr::new);
        let string = s.map(|x| x.to_string());
        let run_arr = |api: &str, it: &mut dyn Iterator<Item = sonic_rs::Result<LazyValue>>| -> Result<(), Fail> {
            for (n, item) in it.enumerate().take(10_000) {
                match item {
                    Ok(lv) => check_fragment(api, input, lv.as_raw_str().as_bytes(), None, &format!("item {}", n + 1))?,
                    Err(_) => break,
                }
            }
            Ok(())
        };
        run_arr("to_array_iter(&Bytes)", &mut sonic_rs::to_array_iter(&by))?;
        if let (Some(s), Some(fs), Some(string)) = (s, &fs, &string) {
            run_arr("to_array_iter(&str)", &mut sonic_rs::to_array_iter(s))?;
            run_arr("to_array_iter(&FastStr)", &mut sonic_rs::to_array_iter(fs))?;
            run_arr("to_array_iter(&String)", &mut sonic_rs::to_array_iter(string))?;
        }
        let run_obj = |api: &str, it: &mut dyn Iterator<Item = sonic_rs::Result<(std::borrow::Cow<str>, LazyValue)>>| -> Result<(), Fail> {
            for (n, item) in it.enumerate().take(10_000) {
                match item {
                    Ok((k, lv)) => {
                        ensure!(std::str::from_utf8(k.as_bytes()).is_ok(), "C14/iter/fragment-not-utf8", "{api} member {} on {:?}: the key is not valid UTF-8: {:?}", n + 1, show_bytes(input, 300), show_bytes(k.as_bytes(), 100));
                        check_fragment(api, input, lv.as_raw_str().as_bytes(), None, &format!("member {}", n + 1))?
                    }
                    Err(_) => break,
                }
            }
            Ok(())
        };
        run_obj("to_object_iter(&Bytes)", &mut sonic_rs::to_object_iter(&by))?;
        if let (Some(s), Some(fs), Some(string)) = (s, &fs, &string) {
            run_obj("to_object_iter(&str)", &mut sonic_rs::to_object_iter(s))?;
            run_obj("to_object_iter(&FastStr)", &mut sonic_rs::to_object_iter(fs))?;
            run_obj("to_object_iter(&String)", &mut sonic_rs::to_object_iter(string))?;
        }
    }

    // items reached through nth / skip (members stepped over without being yielded) are sound fragments too
    for k in 1..=3usize {
        if let Some(Ok(lv)) = sonic_rs::to_array_iter(input).nth(k) {
            let raw = lv.as_raw_str();
            check_fragment("to_array_iter(&[u8]).nth", input, raw.as_bytes(), off_in(input, raw), &format!("nth({k})"))?;
        }
        if let Some(Ok(lv)) = sonic_rs::to_array_iter(&by).skip(k).next() {
            check_fragment("to_array_iter(&Bytes).skip", input, lv.as_raw_str().as_bytes(), None, &format!("skip({k})"))?;
        }
        if let Some(Ok((key, lv))) = sonic_rs::to_object_iter(input).nth(k) {
            ensure!(std::str::from_utf8(key.as_bytes()).is_ok(), "C14/iter/fragment-not-utf8", "to_object_iter(&[u8]).nth({k}) on {:?}: the key is not valid UTF-8", show_bytes(input, 300));
            let raw = lv.as_raw_str();
            check_fragment("to_object_iter(&[u8]).nth", input, raw.as_bytes(), off_in(input, raw), &format!("nth({k})"))?;
        }
        if let Some(Ok((_, lv))) = sonic_rs::to_object_iter(&by).skip(k).next() {
            check_fragment("to_object_iter(&Bytes).skip", input, lv.as_raw_str().as_bytes(), None, &format!("skip({k})"))?;
        }
        if let Some(Ok(lv)) = sonic_rs::to_array_iter(input).step_by(k + 1).nth(1) {
            let raw = lv.as_raw_str();
            check_fragment("to_array_iter(&[u8]).step_by", input, raw.as_bytes(), off_in(input, raw), &format!("step_by({}).nth(1)", k + 1))?;
        }
    }

    // checked iterators: every item is a sound fragment
    let mut n = 0;
    for item in sonic_rs::to_array_iter(input) {
        n += 1;
        match item {
            Ok(lv) => {
                let raw = lv.as_raw_str();
                check_fragment("to_array_iter", input, raw.as_bytes(), off_in(input, raw), &format!("item {n}"))?;
            }
            Err(_) => break,
        }
        if n > 10_000 {
            break;
        }
    }
    let mut n = 0;
    for item in sonic_rs::to_object_iter(input) {
        n += 1;
        match item {
            Ok((_, lv)) => {
                let raw = lv.as_raw_str();
                check_fragment("to_object_iter", input, raw.as_bytes(), off_in(input, raw), &format!("member {n}"))?;
            }
            Err(_) => break,
        }
        if n > 10_000 {
            break;
        }
    }
    Ok(())
}

fn consistent_kind(p: &[PathElem], key: bool) -> bool {
    match p.first() {
        None => true,
        Some(PathElem::Key(_)) => key,
        Some(PathElem::Idx(_)) => !key,
    }
}

/// two paths never put a key child and an index child under the same prefix
fn shape_compatible(a: &[PathElem], b: &[PathElem]) -> bool {
    for (x, y) in a.iter().zip(b.iter()) {
        match (x, y) {
            (PathElem::Key(k), PathElem::Key(l)) => {
                if k != l {
                    return true;
                }
            }
            (PathElem::Idx(i), PathElem::Idx(j)) => {
                if i != j {
                    return true;
                }
            }
            _ => return false,
        }
    }
    true
}

/// raw input bytes (fuzzer artifacts) with the fixed path family
pub fn oracle_raw(case: &[u8], obs: &mut Obs) -> Result<(), Fail> {
    oracle(&join_case(case, &[]), obs)
}

pub fn subs() -> Vec<Sub<'static>> {
    let mut v: Vec<Sub<'static>> = ["mutated", "sweep", "long-numbers", "utf8-in-strings", "raw-names"].iter().map(|n| Sub { name: n, oracle: &oracle, minimise_bytes: false }).collect();
    v.push(Sub { name: "fuzz-inputs", oracle: &oracle_raw, minimise_bytes: true });
    v
}

fn doc_and_paths(src: &mut Src, p: &DocParams, stress: bool) -> (Vec<u8>, Vec<Vec<PathElem>>) {
    let doc = if stress { gen_skip_stress(src, p) } else { gens::gen_container_doc(src, p) };
    let doc = if doc.len() > 8000 { b"{\"a\":[1,{\"b\":null}]}".to_vec() } else { doc };
    let paths = match refjson::parse(&doc) {
        Ok((root, _)) => {
            let all = root.all_paths(40);
            let n = 1 + src.below(5);
            let mut v: Vec<Vec<PathElem>> = (0..n).map(|_| all[src.below(all.len())].clone()).collect();
            // prefer deep and late paths: they traverse the most
            if let Some(last) = all.last() {
                v.push(last.clone());
            }
            if let Some(deep) = all.iter().max_by_key(|p| p.len()) {
                v.push(deep.clone());
            }
            let _ = Kind::Null;
            v
        }
        Err(_) => Vec::new(),
    };
    (doc, paths)
}

pub fn run(ctx: &Ctx) {
    let subs = subs();
    let p = DocParams { ws: 1, max_depth: 4, max_items: 5, long_strings: true, ..DocParams::default() };
    for (label, stress) in [("generated", false), ("skip-stress", true), ("dup-keys", false)] {
        let mut pc = p.clone();
        pc.dup_keys = label == "dup-keys";
        ctx.search(&subs[0], label, ctx.n(600_000, 4_800_000), 700, &move |src: &mut Src| {
            let (doc, paths) = doc_and_paths(src, &pc, stress);
            let mut m = gens::mutate(src, &doc).0;
            if src.chance(70) {
                m = gens::mutate(src, &m).0;
            }
            join_case(&m, &paths)
        });
    }
    // long number literals x damage tails, as skipped and as returned member (scanner states at every
    // position of a 32-byte block)
    let max_int = ctx.n(100, 200);
    ctx.sweep(&subs[2], true, &|shard, n, emit| {
        const TAILS: &[&str] = &[".5.5", ".5e5e5", ".5e5.5", "e5.5", "E+5+", "e", "e+", ".", "..5", ".e5", ".5e", "-", ".5-", "e5-", ".5x", "x", ".5.", "e5e", ".-5", "e.5", ".5ee5", "e--5", "", ".5", "e5"];
        let paths = vec![vec![PathElem::Idx(0)], vec![PathElem::Idx(1)], vec![PathElem::Key("k".into())], vec![PathElem::Key("j".into())]];
        let mut k = 0usize;
        for int_len in 1..=max_int {
            for fl in [0usize, 1, 2, 30, 31, 32, 33] {
                k += 1;
                if k % n != shard {
                    continue;
                }
                for neg in [false, true] {
                    let mut num = String::new();
                    if neg {
                        num.push('-');
                    }
                    for i in 0..int_len {
                        num.push((b'1' + (i % 9) as u8) as char);
                    }
                    if fl > 0 {
                        num.push('.');
                        for i in 0..fl {
                            num.push((b'0' + (i % 10) as u8) as char);
                        }
                    }
                    for t in TAILS {
                        if fl > 0 && t.starts_with('.') {
                            continue;
                        }
                        let a = format!("[{num}{t},\"0123456789012345678901234567890123456789\"]");
                        let o = format!("{{\"k\":{num}{t},\"j\":\"0123456789012345678901234567890123456789\"}}");
                        if !(emit(&join_case(a.as_bytes(), &paths)) && emit(&join_case(o.as_bytes(), &paths))) {
                            return;
                        }
                    }
                }
            }
        }
    });
    // invalid UTF-8 inside otherwise well-formed strings and keys, at varying distance from the start
    ctx.search(&subs[3], "utf8-in-strings", ctx.n(180_000, 1_440_000), 300, &|src: &mut Src| {
        let pad = *src.pick(&[0usize, 1, 10, 30, 31, 32, 33, 60, 64, 100]);
        let bad: &[u8] = *src.pick(gens::UTF8_DAMAGE);
        let mut lit = vec![b'"'];
        lit.resize(1 + pad, b'a');
        lit.extend_from_slice(bad);
        let tail = src.below(40);
        lit.resize(lit.len() + tail, b'b');
        lit.push(b'"');
        let mut d = Vec::new();
        match src.below(4) {
            0 => {
                d.push(b'[');
                d.extend_from_slice(&lit);
                d.extend_from_slice(b",1,\"x\"]");
            }
            1 => {
                d.extend_from_slice(b"[1,");
                d.extend_from_slice(&lit);
                d.extend_from_slice(b",2]");
            }
            2 => {
                d.extend_from_slice(b"{\"k\":");
                d.extend_from_slice(&lit);
                d.extend_from_slice(b",\"j\":1}");
            }
            _ => {
                d.push(b'{');
                d.extend_from_slice(&lit);
                d.extend_from_slice(b":1,\"j\":[2]}");
            }
        }
        let paths = vec![vec![PathElem::Idx(0)], vec![PathElem::Idx(1)], vec![PathElem::Idx(2)], vec![PathElem::Key("k".into())], vec![PathElem::Key("j".into())]];
        join_case(&d, &paths)
    });
    // member names whose escapes were replaced in place by the raw character they denote (a raw quote,
    // line feed, tab, control character inside the name): the path still names the member by its decoded
    // text, the document is malformed at that name
    ctx.search(&subs[4], "raw-names", ctx.n(60_000, 600_000), 200, &|src: &mut Src| {
        const NAMES: &[(&str, &[u8], &str)] = &[("a\\nb", b"a\nb", "a\nb"), ("x\\\"y", b"x\"y", "x\"y"), ("t\\tab", b"t\tab", "t\tab"), ("c\\u0001d", b"c\x01d", "c\u{1}d"), ("q\\\"", b"q\"", "q\""), ("\\n", b"\n", "\n"), ("e\\u0000", b"e\x00", "e\u{0}"), ("r\\rn", b"r\rn", "r\rn")];
        let n = 1 + src.below(4);
        let damaged = src.below(n);
        let mut d = Vec::new();
        let nested = src.bool();
        if nested {
            d.extend_from_slice(b"[1,");
        }
        d.push(b'{');
        let mut paths = Vec::new();
        for i in 0..n {
            if i > 0 {
                d.push(b',');
            }
            let (esc, raw, text) = NAMES[src.below(NAMES.len())];
            d.push(b'"');
            if i == damaged {
                d.extend_from_slice(raw);
            } else {
                d.extend_from_slice(esc.as_bytes());
            }
            d.extend_from_slice(format!("{i}\":").as_bytes());
            d.extend_from_slice(format!("[{i},{{\"v\":{i}}}]").as_bytes());
            let key = format!("{text}{i}");
            let mut p = if nested { vec![PathElem::Idx(1)] } else { vec![] };
            p.push(PathElem::Key(key));
            paths.push(p.clone());
            p.push(PathElem::Idx(1));
            paths.push(p);
        }
        d.push(b'}');
        if nested {
            d.push(b']');
        }
        join_case(&d, &paths)
    });
    // systematic sweeps
    let ndocs = ctx.n(60, 600);
    let seed = ctx.seed;
    ctx.sweep(&subs[1], false, &|shard, n, emit| {
        let pm = DocParams { ws: 1, max_depth: 3, max_items: 4, long_strings: false, align: 0, ..DocParams::default() };
        for i in (shard..ndocs).step_by(n) {
            let bytes = super::c02::pseudo_bytes(seed ^ 0xc14, i as u64, 200);
            let mut src = Src::new(&bytes);
            let (doc, paths) = doc_and_paths(&mut src, &pm, i % 3 == 0);
            if doc.len() > 400 {
                continue;
            }
            if !gens::sweep_mutations(&doc, 1, &mut |c, _| emit(&join_case(c, &paths))) {
                return;
            }
        }
        for (i, d) in gens::golden_docs().iter().enumerate() {
            if i % n != shard {
                continue;
            }
            let paths = refjson::parse(d).map(|(r, _)| r.all_paths(12)).unwrap_or_default();
            if !gens::sweep_mutations(d, 1, &mut |c, _| emit(&join_case(c, &paths))) {
                return;
            }
        }
    });
}
