//! C17 — results do not depend on the SIMD backend compiled in.

use std::hash::{Hash, Hasher};
use std::io::{Read, Write};

use serde::de::IgnoredAny;
use sonic_rs::{LazyValue, PointerNode, Value};
use sonic_simd::{i8x32, u8x16, u8x32, u8x64, BitMask, Mask, Simd};
use vbase::engine::{Ctx, Fail, Obs, Src, Sub};
use vbase::gens::{self, DocParams};
use vbase::refjson::show_bytes;

use crate::family::{self, Fam, FamVisitor};
use crate::sx::walk;

pub const RULE: &str = "(a) transcripts: deterministic case streams (generated and mutated documents, number literals, the midpoints of adjacent doubles of every binary exponent cut to 15..25 digits / extended / re-spelt through the eager number routes f64, f32 and Value, the positional string sweep of C09 in four placements, skip-stress documents with lookup paths, containers for the lazy iterators, values of the type family for serialization) are replayed in three builds of the same tree — native (AVX2 + PCLMUL), baseline x86-64 (SSE2 composed into 256/512-bit vectors, scalar prefix_xor / get_nonspace_bits / simd_str2int) and forced-portable (array backend) — and a digest of every observable outcome (accept/reject per entry point, DOM dump, decoded strings, raw spans as offsets, iterator items, serialized bytes compact and pretty, error offset/line/column/category) is compared case by case; (b) primitives, in each build, against scalar loops: for u8x16/u8x32/u8x64/i8x32 loadu/storeu/splat/eq/le/gt, Mask |, &, |=, bitmask, splat, for every lane x all 256 byte values x comparison operands; BitMask first_offset/before/all_zero/clear_high_bits; prefix_xor on all single bits, all pairs and random words; get_nonspace_bits for all 256 byte values in each of 64 lanes; simd_str2int for every need 1..=16 x digit-run length 1..=16 (callers guarantee one digit) x terminator bytes. Non-trivial = transcript case of >= 32 bytes (reaches a vector loop) / every (lane, byte) pair; distinct by case.";
pub const ASSUMPTIONS: &[&str] = &["the NEON backend (aarch64) cannot be built or run in this sandbox", "scalar loops define the lane-wise functions"];

// ------------------------------------------------------------------------------------------
// (b) primitives

trait ToU64 {
    fn to_u64(&self) -> u64;
}
impl ToU64 for u16 {
    fn to_u64(&self) -> u64 {
        *self as u64
    }
}
impl ToU64 for u32 {
    fn to_u64(&self) -> u64 {
        *self as u64
    }
}
impl ToU64 for u64 {
    fn to_u64(&self) -> u64 {
        *self
    }
}

trait Elem: Copy {
    fn from_byte(b: u8) -> Self;
    fn le(a: u8, b: u8) -> bool;
    fn gt(a: u8, b: u8) -> bool;
}
impl Elem for u8 {
    fn from_byte(b: u8) -> Self {
        b
    }
    fn le(a: u8, b: u8) -> bool {
        a <= b
    }
    fn gt(a: u8, b: u8) -> bool {
        a > b
    }
}
impl Elem for i8 {
    fn from_byte(b: u8) -> Self {
        b as i8
    }
    fn le(a: u8, b: u8) -> bool {
        (a as i8) <= (b as i8)
    }
    fn gt(a: u8, b: u8) -> bool {
        (a as i8) > (b as i8)
    }
}

struct PrimStats {
    evals: u64,
    fail: Option<String>,
}

fn check_vector<V>(name: &str, operands: &[u8], st: &mut PrimStats)
where
    V: Simd,
    V::Element: Elem,
    <V::Mask as Mask>::BitMask: ToU64,
    V::Mask: std::ops::BitOr<V::Mask, Output = V::Mask> + std::ops::BitAnd<V::Mask, Output = V::Mask> + std::ops::BitOrAssign,
{
    let lanes = V::LANES;
    let full: u64 = if lanes == 64 { u64::MAX } else { (1u64 << lanes) - 1 };
    for filler in [0u8, b'a', 0x7f, 0x80, 0xff] {
        for lane in 0..lanes {
            for b in 0..=255u8 {
                let mut data = vec![filler; lanes + 8];
                data[lane] = b;
                let v = unsafe { V::loadu(data.as_ptr()) };
                // storeu writes exactly LANES bytes and loadu read exactly those
                let mut out = vec![0xEEu8; lanes + 8];
                unsafe { v.storeu(out.as_mut_ptr()) };
                st.evals += 1;
                if out[..lanes] != data[..lanes] || out[lanes..].iter().any(|x| *x != 0xEE) {
                    st.fail.get_or_insert(format!("{name}: loadu/storeu round trip differs (lane {lane}, byte {b:#x}, filler {filler:#x})"));
                    return;
                }
                let v2 = unsafe { V::from_slice_unaligned_unchecked(&data) };
                let mut out2 = vec![0u8; lanes];
                unsafe { v2.write_to_slice_unaligned_unchecked(&mut out2) };
                if out2[..] != data[..lanes] {
                    st.fail.get_or_insert(format!("{name}: from_slice/write_to_slice round trip differs"));
                    return;
                }
                for &c in operands {
                    let sc = V::splat(V::Element::from_byte(c));
                    let mut want_eq = 0u64;
                    let mut want_le = 0u64;
                    let mut want_gt = 0u64;
                    for i in 0..lanes {
                        if data[i] == c {
                            want_eq |= 1 << i;
                        }
                        if V::Element::le(data[i], c) {
                            want_le |= 1 << i;
                        }
                        if V::Element::gt(data[i], c) {
                            want_gt |= 1 << i;
                        }
                    }
                    let eq = v.eq(&sc).bitmask().to_u64();
                    let le = v.le(&sc).bitmask().to_u64();
                    let gt = v.gt(&sc).bitmask().to_u64();
                    st.evals += 3;
                    if eq != want_eq || le != want_le || gt != want_gt {
                        st.fail.get_or_insert(format!("{name}: lane {lane} byte {b:#x} operand {c:#x} filler {filler:#x}: eq {eq:#x} (want {want_eq:#x}) le {le:#x} (want {want_le:#x}) gt {gt:#x} (want {want_gt:#x})"));
                        return;
                    }
                    // mask algebra
                    let or = (v.eq(&sc) | v.gt(&sc)).bitmask().to_u64();
                    let and = (v.le(&sc) & v.eq(&sc)).bitmask().to_u64();
                    let mut m = v.eq(&sc);
                    m |= v.gt(&sc);
                    st.evals += 3;
                    if or != (want_eq | want_gt) || and != (want_le & want_eq) || m.bitmask().to_u64() != or {
                        st.fail.get_or_insert(format!("{name}: mask |, & or |= wrong at lane {lane} byte {b:#x} operand {c:#x}"));
                        return;
                    }
                    if (want_le | want_gt) != full {
                        st.fail.get_or_insert(format!("{name}: internal: le|gt must cover all lanes"));
                        return;
                    }
                }
            }
        }
    }
    let t = <V::Mask as Mask>::splat(true).bitmask().to_u64();
    let f = <V::Mask as Mask>::splat(false).bitmask().to_u64();
    if t != full || f != 0 {
        st.fail.get_or_insert(format!("{name}: Mask::splat(true/false).bitmask() = {t:#x}/{f:#x}"));
    }
}

fn check_bitmask<B: BitMask + ToU64 + Copy>(name: &str, from: impl Fn(u64) -> B, st: &mut PrimStats, words: &[u64]) {
    let len = B::LEN;
    let mask: u64 = if len == 64 { u64::MAX } else { (1u64 << len) - 1 };
    for &a in words {
        let a = a & mask;
        let x = from(a);
        let first = if a == 0 { len } else { a.trailing_zeros() as usize };
        st.evals += 3;
        if x.first_offset() != first.min(len) && a != 0 {
            st.fail.get_or_insert(format!("{name}: first_offset({a:#x}) = {}", x.first_offset()));
            return;
        }
        if x.all_zero() != (a == 0) {
            st.fail.get_or_insert(format!("{name}: all_zero({a:#x}) = {}", x.all_zero()));
            return;
        }
        for n in 0..=len {
            let want = if n == len { 0 } else { a & (mask >> n) };
            if x.clear_high_bits(n).to_u64() != want {
                st.fail.get_or_insert(format!("{name}: clear_high_bits({a:#x}, {n}) = {:#x}, expected {want:#x}", x.clear_high_bits(n).to_u64()));
                return;
            }
        }
        for &b in words.iter().take(40) {
            let b = b & mask;
            // "a has a set bit below the lowest set bit of b, or at a position where b-1 has one"
            let want = (a as u128 & ((b as u128).wrapping_sub(1) & mask as u128)) != 0;
            st.evals += 1;
            if x.before(&from(b)) != want {
                st.fail.get_or_insert(format!("{name}: before({a:#x}, {b:#x}) = {}", x.before(&from(b))));
                return;
            }
        }
    }
}

fn prefix_xor_ref(x: u64) -> u64 {
    let mut out = 0u64;
    let mut acc = 0u64;
    for i in 0..64 {
        acc ^= (x >> i) & 1;
        out |= acc << i;
    }
    out
}

fn primitives(ctx: &Ctx, sub: &Sub) {
    let mut st = PrimStats { evals: 0, fail: None };
    let operands: Vec<u8> = if ctx.quick() { vec![0, 1, 0x1f, 0x20, b'"', b'\\', b'0', b'9', b'a', 0x7e, 0x7f, 0x80, 0x81, 0xc0, 0xfe, 0xff] } else { (0..=255).collect() };
    check_vector::<u8x16>("u8x16", &operands, &mut st);
    check_vector::<u8x32>("u8x32", &operands, &mut st);
    check_vector::<u8x64>("u8x64", &operands, &mut st);
    check_vector::<i8x32>("i8x32", &operands, &mut st);
    // bit masks
    let mut words: Vec<u64> = vec![0, 1, 2, 3, u64::MAX, 1 << 63, 1 << 31, 1 << 15, 0x8000_0000_0000_0001, 0x5555_5555_5555_5555, 0xaaaa_aaaa_aaaa_aaaa];
    for i in 0..64 {
        words.push(1u64 << i);
        words.push(!(1u64 << i));
        words.push((1u64 << i).wrapping_sub(1));
    }
    let rb = super::c02::pseudo_bytes(ctx.seed ^ 0xc17, 1, 8 * 400);
    for ch in rb.chunks(8) {
        words.push(u64::from_le_bytes(ch.try_into().unwrap()));
    }
    check_bitmask::<u16>("BitMask for u16", |x| x as u16, &mut st, &words);
    check_bitmask::<u32>("BitMask for u32", |x| x as u32, &mut st, &words);
    check_bitmask::<u64>("BitMask for u64", |x| x, &mut st, &words);
    // prefix_xor: all single bits, all pairs, random words
    let mut pw: Vec<u64> = words.clone();
    for i in 0..64 {
        for j in 0..i {
            pw.push((1u64 << i) | (1u64 << j));
        }
    }
    let rb = super::c02::pseudo_bytes(ctx.seed ^ 0xc17, 2, 8 * ctx.n(200_000, 2_000_000));
    for ch in rb.chunks(8) {
        pw.push(u64::from_le_bytes(ch.try_into().unwrap()));
    }
    for &w in &pw {
        st.evals += 1;
        let got = unsafe { sonic_rs::verif::prefix_xor(w) };
        if got != prefix_xor_ref(w) && st.fail.is_none() {
            st.fail = Some(format!("prefix_xor({w:#x}) = {got:#x}, expected {:#x}", prefix_xor_ref(w)));
        }
    }
    // get_nonspace_bits: all byte values in every lane
    for filler in [b' ', b'x', b'\n'] {
        for lane in 0..64 {
            for b in 0..=255u8 {
                let mut data = [filler; 64];
                data[lane] = b;
                let mut want = 0u64;
                for (i, c) in data.iter().enumerate() {
                    if !matches!(c, b' ' | b'\t' | b'\n' | b'\r') {
                        want |= 1 << i;
                    }
                }
                st.evals += 1;
                let got = unsafe { sonic_rs::verif::get_nonspace_bits(&data) };
                if got != want && st.fail.is_none() {
                    st.fail = Some(format!("get_nonspace_bits: lane {lane} byte {b:#x} filler {filler:#x}: {got:#x}, expected {want:#x}"));
                }
            }
        }
    }
    // simd_str2int
    for need in 1..=16usize {
        for run in 1..=16usize {  // implicit precondition of every caller: at least one digit
            for term in [b'.', b'e', b',', b' ', b'\0', b'/', b':', b'a', 0xff, b'-'] {
                for variant in 0..3u8 {
                    let mut buf = [b'7'; 32];
                    for (i, slot) in buf.iter_mut().enumerate().take(run) {
                        *slot = b'0' + ((i as u8 * 7 + variant * 3 + 1) % 10);
                    }
                    buf[run] = term;
                    let mut want = 0u64;
                    let mut n = 0;
                    while n < need && buf[n].is_ascii_digit() {
                        want = want * 10 + (buf[n] - b'0') as u64;
                        n += 1;
                    }
                    st.evals += 1;
                    let (got, cnt) = unsafe { sonic_number::verif::simd_str2int(&buf, need) };
                    if (got, cnt) != (want, n) && st.fail.is_none() {
                        st.fail = Some(format!("simd_str2int({:?}, need {need}) = ({got}, {cnt}), expected ({want}, {n})", String::from_utf8_lossy(&buf[..20])));
                    }
                }
            }
        }
    }
    ctx.add_raw_evaluations("primitives", st.evals, st.evals, &[("lane-wise checks", st.evals)], vec![format!("u8x32 lane 17 byte 0x22 operand 0x22: eq/le/gt bitmasks; prefix_xor(0x8000000000000001); get_nonspace_bits lane 63 byte 0x0d; simd_str2int(\"1234567.\", need 16)")]);
    ctx.mark_exhaustive("every lane x all 256 byte values for each vector type; all single-bit and two-bit words for prefix_xor; all 256 byte values in each of 64 lanes for get_nonspace_bits");
    if let Some(f) = st.fail {
        ctx.record_violation(sub, f.as_bytes(), Fail::new("C17/primitive", f.clone()));
    }
}

// ------------------------------------------------------------------------------------------
// (a) transcripts

fn h64(s: &[u8]) -> u64 {
    let mut h = std::collections::hash_map::DefaultHasher::new();
    s.hash(&mut h);
    h.finish()
}

fn err_repr(e: &sonic_rs::Error) -> String {
    format!("E(off={},line={},col={},cat={:?})", e.offset(), e.line(), e.column(), e.classify())
}

/// everything observable for an input text
pub fn observe(input: &[u8]) -> String {
    let mut o = String::new();
    match sonic_rs::from_slice::<Value>(input) {
        Ok(v) => {
            o.push_str(&walk(&v, false).dump());
            o.push('|');
            o.push_str(&sonic_rs::to_string(&v).unwrap_or_else(|e| err_repr(&e)));
            o.push('|');
            o.push_str(&sonic_rs::to_string_pretty(&v).unwrap_or_else(|e| err_repr(&e)));
        }
        Err(e) => o.push_str(&err_repr(&e)),
    }
    o.push('|');
    match sonic_rs::from_slice::<LazyValue>(input) {
        Ok(l) => o.push_str(&format!("L{}", l.as_raw_str().len())),
        Err(e) => o.push_str(&err_repr(&e)),
    }
    o.push('|');
    match sonic_rs::from_slice::<IgnoredAny>(input) {
        Ok(_) => o.push('I'),
        Err(e) => o.push_str(&err_repr(&e)),
    }
    o.push('|');
    match sonic_rs::from_slice::<String>(input) {
        Ok(s) => o.push_str(&format!("{s:?}")),
        Err(e) => o.push_str(&err_repr(&e)),
    }
    o.push('|');
    match sonic_rs::from_slice::<f64>(input) {
        Ok(f) => o.push_str(&format!("{:#x}", f.to_bits())),
        Err(e) => o.push_str(&err_repr(&e)),
    }
    o.push('|');
    match sonic_rs::from_slice::<Option<Value>>(&[b" \n", input].concat()) {
        Ok(v) => o.push_str(&v.map(|v| walk(&v, false).dump()).unwrap_or_default()),
        Err(e) => o.push_str(&err_repr(&e)),
    }
    let base = input.as_ptr() as usize;
    let paths: [Vec<PointerNode>; 6] = [vec![PointerNode::Index(0)], vec![PointerNode::Index(2)], vec![PointerNode::Key("a".into())], vec![PointerNode::Key("k1".into())], vec![PointerNode::Index(1), PointerNode::Key("a".into())], vec![PointerNode::Key("a".into()), PointerNode::Index(0)]];
    for p in &paths {
        o.push('|');
        match sonic_rs::get(input, p) {
            Ok(l) => o.push_str(&format!("G{}+{}", l.as_raw_str().as_ptr() as usize - base, l.as_raw_str().len())),
            Err(e) => o.push_str(&err_repr(&e)),
        }
    }
    o.push('|');
    for it in sonic_rs::to_array_iter(input).take(40) {
        match it {
            Ok(l) => o.push_str(&format!("a{}+{},", l.as_raw_str().as_ptr() as usize - base, l.as_raw_str().len())),
            Err(e) => o.push_str(&err_repr(&e)),
        }
    }
    o.push('|');
    for it in sonic_rs::to_object_iter(input).take(40) {
        match it {
            Ok((k, l)) => o.push_str(&format!("o{k:?}{}+{},", l.as_raw_str().as_ptr() as usize - base, l.as_raw_str().len())),
            Err(e) => o.push_str(&err_repr(&e)),
        }
    }
    // the non-validating skippers (their contract: well-formed UTF-8 input)
    if vbase::refjson::accept(input).skip() {
        use sonic_rs::JsonValueTrait;
        o.push_str("|U");
        for p in &paths {
            match unsafe { sonic_rs::get_unchecked(input, p) } {
                Ok(l) => o.push_str(&format!("g{}+{},", l.as_raw_str().as_ptr() as usize - base, l.as_raw_str().len())),
                Err(e) => o.push_str(&err_repr(&e)),
            }
        }
        for it in unsafe { sonic_rs::to_array_iter_unchecked(input) }.take(40) {
            match it {
                Ok(l) => o.push_str(&format!("a{}+{},", l.as_raw_str().as_ptr() as usize - base, l.as_raw_str().len())),
                Err(e) => o.push_str(&err_repr(&e)),
            }
        }
        for it in unsafe { sonic_rs::to_object_iter_unchecked(input) }.take(40) {
            match it {
                Ok((k, l)) => o.push_str(&format!("o{k:?}{}+{},", l.as_raw_str().as_ptr() as usize - base, l.as_raw_str().len())),
                Err(e) => o.push_str(&err_repr(&e)),
            }
        }
        if let Ok(l) = sonic_rs::from_slice::<LazyValue>(input) {
            for p in &paths {
                match l.pointer(p) {
                    // (short results may be inline copies rather than borrows: report the text, not an address)
                    Some(x) => o.push_str(&format!("l{},", x.as_raw_str())),
                    None => o.push_str("l-,"),
                }
            }
        }
        if let Ok(ol) = sonic_rs::from_slice::<sonic_rs::OwnedLazyValue>(input) {
            for p in &paths {
                match ol.pointer(p) {
                    Some(x) => o.push_str(&format!("w{},", sonic_rs::to_string(x).unwrap_or_else(|e| err_repr(&e)))),
                    None => o.push_str("w-,"),
                }
            }
        }
    }
    o
}

struct SerVisitor<'a, 'b> {
    src: &'a mut Src<'b>,
    out: String,
}
impl FamVisitor for SerVisitor<'_, '_> {
    fn visit<T: Fam>(&mut self) {
        let x = T::g(self.src, 0);
        self.out = format!("{:?}|{:?}", sonic_rs::to_string(&x).map_err(|e| e.to_string()), sonic_rs::to_string_pretty(&x).map_err(|e| e.to_string()));
    }
}

/// a transcript case: [kind][payload]; kind 0 = input text, kind 1 = serialization of a family value
pub fn observe_case(case: &[u8]) -> String {
    if case.is_empty() {
        return String::new();
    }
    match case[0] {
        1 => {
            let mut src = Src::new(&case[2.min(case.len())..]);
            let mut v = SerVisitor { src: &mut src, out: String::new() };
            family::dispatch(case.get(1).copied().unwrap_or(0) as usize, &mut v);
            v.out
        }
        2 => observe_number(&case[1..]),
        _ => observe(&case[1..]),
    }
}

/// kind 2: a number literal through the eager number routes only (cheap: allows hundreds of thousands of
/// literals next to rounding boundaries, where a backend-specific arithmetic helper would show)
pub fn observe_number(input: &[u8]) -> String {
    use sonic_rs::JsonValueTrait;
    let mut o = String::new();
    match sonic_rs::from_slice::<f64>(input) {
        Ok(f) => o.push_str(&format!("{:#x}", f.to_bits())),
        Err(e) => o.push_str(&err_repr(&e)),
    }
    o.push('|');
    match sonic_rs::from_slice::<f32>(input) {
        Ok(f) => o.push_str(&format!("{:#x}", f.to_bits())),
        Err(e) => o.push_str(&err_repr(&e)),
    }
    o.push('|');
    match sonic_rs::from_slice::<Value>(&[b"[", input, b" ]"].concat()) {
        Ok(v) => o.push_str(&format!("{:?}|{}", v[0].as_f64().map(f64::to_bits), sonic_rs::to_string(&v).unwrap_or_else(|e| err_repr(&e)))),
        Err(e) => o.push_str(&err_repr(&e)),
    }
    o
}

const NSHARDS: usize = 16;

/// the deterministic case stream of one shard (independent of the build and of the machine)
fn stream(seed: u64, quick: bool, shard: usize, emit: &mut dyn FnMut(&[u8])) {
    let n_docs = if quick { 20_000 } else { 200_000 };
    let p = DocParams { ws: 2, max_depth: 5, max_items: 6, allow_inf: true, allow_lone_surrogates: true, dup_keys: true, ..DocParams::default() };
    for i in 0..n_docs {
        let bytes = super::c02::pseudo_bytes(seed ^ 0x17_0000, (i * NSHARDS + shard) as u64, 400);
        let mut src = Src::new(&bytes);
        let d = match i % 4 {
            0 => gens::gen_doc(&mut src, &p),
            1 => crate::lazyhelp::gen_skip_stress(&mut src, &p),
            _ => {
                let d = gens::gen_container_doc(&mut src, &p);
                gens::mutate(&mut src, &d).0
            }
        };
        let mut c = vec![0u8];
        c.extend_from_slice(&d);
        emit(&c);
        // a number literal
        let mut c = vec![0u8];
        gens::gen_number(&mut src, true, &mut c);
        emit(&c);
        // serialization of a family value
        // (HashMap iterates in a per-process random order: not a build difference)
        let mut tidx = src.below(family::N_TYPES) as u8;
        if family::type_name(tidx as usize).starts_with("HashMap") {
            tidx = 26;
        }
        let mut c = vec![1u8, tidx];
        c.extend_from_slice(&bytes[200..]);
        emit(&c);
    }
    // positional string sweep (C09 document builder), strided over shards
    let feats: Vec<&[u8]> = vec![b"\\\"", b"\\\\", b"\\n", b"\\u00e9", b"\\ud83d\\ude00", "é".as_bytes(), "😀".as_bytes(), b"\x1f", b"\\x", b"\\ud800", b"\x80", b"\xe2\x82", b"]", b"\\\\\\\""];
    let mut k = 0usize;
    let lens: Vec<usize> = if quick { vec![0, 1, 15, 16, 30, 31, 32, 33, 62, 63, 64, 65, 96, 130] } else { (0..=140).collect() };
    for f in &feats {
        for &len in &lens {
            for pos in 0..=len {
                if quick && pos > 4 && pos + 4 < len && pos % 8 > 1 && !matches!(pos % 32, 29..=31 | 0..=2) {
                    continue;
                }
                k += 1;
                if k % NSHARDS != shard {
                    continue;
                }
                let mut inner = vec![b'a'; pos];
                inner.extend_from_slice(f);
                inner.resize(inner.len() + (len - pos), b'a');
                for ctx in 0..4u8 {
                    let (doc, _) = super::c09::build_doc(ctx, (pos * 7 + len) % 65, (pos % 3) as u8, &inner);
                    let mut c = vec![0u8];
                    c.extend_from_slice(&doc);
                    emit(&c);
                }
            }
        }
    }
    // one non-ASCII / invalid byte at every position of ASCII strings of every total length 60..=200
    // (whole-input UTF-8 validation works in 64-byte steps with overlapping tails)
    let mut k = 0usize;
    for total in 60usize..=200 {
        for pos in 1..total - 1 {
            if quick && pos % 2 == 1 && !matches!(pos % 32, 30 | 31 | 0 | 1) {
                continue;
            }
            k += 1;
            if k % NSHARDS != shard {
                continue;
            }
            for bad in [0x80u8, 0xff, 0xc3] {
                let mut c = vec![0u8, b'"'];
                c.resize(total, b'a');
                c.push(b'"');
                c[1 + pos] = bad;
                emit(&c);
            }
        }
    }
    // hundreds of tiny containers, bracket bursts (state carried across blocks and containers)
    let n_small = if quick { 40 } else { 400 };
    for i in 0..n_small {
        let bytes = super::c02::pseudo_bytes(seed ^ 0x17_5000, (i * NSHARDS + shard) as u64, 600);
        let mut src = Src::new(&bytes);
        let mut c = vec![0u8];
        c.extend_from_slice(&gens::gen_many_small(&mut src));
        emit(&c);
    }
    let n_br = if quick { 2_000 } else { 20_000 };
    for i in 0..n_br {
        let bytes = super::c02::pseudo_bytes(seed ^ 0x17_6000, (i * NSHARDS + shard) as u64, 300);
        let mut src = Src::new(&bytes);
        let mut c = vec![0u8];
        c.extend_from_slice(&crate::lazyhelp::gen_bracket_stress(&mut src));
        emit(&c);
    }
    // number literals next to rounding boundaries: the midpoint of two adjacent doubles of every binary
    // exponent, cut to 15..25 and more digits, extended, re-spelt (C07's halfway list) — these are the inputs
    // on which the extended-precision product of the float parser needs its second multiplication and its
    // carry, i.e. where a backend-specific arithmetic helper shows
    let per_exp = if quick { 3 } else { 24 };
    for be in (shard as u64..2047).step_by(NSHARDS) {
        let bytes = super::c02::pseudo_bytes(seed ^ 0x17_7000, be, 8 * per_exp + 8);
        let mut src = Src::new(&bytes);
        let mut mantissas: Vec<u64> = vec![0, (1u64 << 52) - 1];
        for _ in 0..per_exp {
            mantissas.push(src.u64() & ((1u64 << 52) - 1));
        }
        for m in mantissas {
            let a = f64::from_bits((be << 52) | m);
            let b = super::c07::next_up(a);
            if !b.is_finite() {
                continue;
            }
            let mid = super::c07::midpoint_decimal(a, b);
            super::c07::perturbations(&mid, &mut |lit| {
                if lit.len() <= 120 {
                    let mut c = vec![2u8];
                    c.extend_from_slice(lit);
                    emit(&c);
                }
                true
            });
        }
    }
    // whitespace runs of every length around tokens (skip_space paths)
    for run in (shard..200).step_by(NSHARDS) {
        for ws in [b' ', b'\n', b'\t', b'\r'] {
            let mut c = vec![0u8];
            c.extend(std::iter::repeat(ws).take(run));
            c.extend_from_slice(b"[1,");
            c.extend(std::iter::repeat(b' ').take(run));
            c.extend_from_slice(b"{\"a\":");
            c.extend(std::iter::repeat(ws).take(200 - run));
            c.extend_from_slice(b"true}]");
            emit(&c);
            // a non-whitespace control byte inside a whitespace run
            let mut c2 = c.clone();
            if run > 2 {
                c2[1 + run / 2] = 0x0c;
            }
            emit(&c2);
        }
    }
}

fn transcript_path(verif_dir: &str, config: &str) -> String {
    format!("{verif_dir}/target/c17/transcript.{config}.bin")
}

fn write_u64s(path: &str, header: &[u64], v: &[u64]) -> std::io::Result<()> {
    if let Some(p) = std::path::Path::new(path).parent() {
        std::fs::create_dir_all(p)?;
    }
    let mut f = std::io::BufWriter::new(std::fs::File::create(path)?);
    for x in header.iter().chain(v.iter()) {
        f.write_all(&x.to_le_bytes())?;
    }
    f.flush()
}

fn read_u64s(path: &str) -> Option<Vec<u64>> {
    let mut b = Vec::new();
    std::fs::File::open(path).ok()?.read_to_end(&mut b).ok()?;
    Some(b.chunks_exact(8).map(|c| u64::from_le_bytes(c.try_into().unwrap())).collect())
}

fn transcripts(ctx: &Ctx, sub: &Sub) {
    let quick = ctx.quick();
    let seed = ctx.seed;
    // one digest vector per shard, computed in parallel, concatenated in shard order
    let results: std::sync::Mutex<Vec<(usize, Vec<u64>, u64, Vec<String>)>> = std::sync::Mutex::new(Vec::new());
    std::thread::scope(|sc| {
        for shard in 0..NSHARDS {
            let results = &results;
            std::thread::Builder::new()
                .stack_size(64 << 20)
                .spawn_scoped(sc, move || {
                    let mut v = Vec::new();
                    let mut nt = 0u64;
                    let mut samples = Vec::new();
                    stream(seed, quick, shard, &mut |c| {
                        vbase::crash::set_current("transcript", c);
                        // a panic while observing (e.g. a &str that is not UTF-8) is an outcome like any other
                        let o = vbase::engine::catch(|| observe_case(c)).unwrap_or_else(|p| format!("PANIC:{p}"));
                        vbase::crash::clear_current();
                        if c.len() >= 33 {
                            nt += 1;
                        }
                        if samples.len() < 1 && c.len() > 40 && c[0] == 0 {
                            samples.push(show_bytes(&c[1..], 160));
                        }
                        v.push(h64(o.as_bytes()));
                    });
                    results.lock().unwrap().push((shard, v, nt, samples));
                })
                .unwrap();
        }
    });
    let mut r = results.into_inner().unwrap();
    r.sort_by_key(|x| x.0);
    let mut all = Vec::new();
    let mut nt = 0;
    let mut samples = Vec::new();
    let mut shard_lens = Vec::new();
    for (_, v, n, s) in r {
        shard_lens.push(v.len() as u64);
        all.extend(v);
        nt += n;
        samples.extend(s);
    }
    ctx.add_raw_evaluations("transcript", all.len() as u64, nt, &[("cases", all.len() as u64)], samples.into_iter().take(3).collect());
    let header = vec![0x7472616e73637231u64, seed, quick as u64, all.len() as u64];
    let mine = transcript_path(&ctx.verif_dir, &ctx.config);
    if let Err(e) = write_u64s(&mine, &header, &all) {
        ctx.inconclusive(format!("cannot write transcript {mine}: {e}"));
        return;
    }
    // compare with the transcripts of the other builds of this run
    for other in ["chk", "base", "port"] {
        if other == ctx.config {
            continue;
        }
        let Some(o) = read_u64s(&transcript_path(&ctx.verif_dir, other)) else { continue };
        if o.len() < 4 || o[..3] != header[..3] {
            continue; // not from this run
        }
        let theirs = &o[4..];
        if theirs.len() != all.len() {
            ctx.inconclusive(format!("transcripts of {other} and {} have different lengths ({} vs {})", ctx.config, theirs.len(), all.len()));
            continue;
        }
        ctx.note(format!("transcript of {} compared with {other}: {} cases", ctx.config, all.len()));
        if let Some(k) = (0..all.len()).find(|&k| all[k] != theirs[k]) {
            // regenerate case k: shard and position inside the shard
            let mut acc = 0u64;
            let mut shard = 0;
            let mut pos = 0;
            for (s, l) in shard_lens.iter().enumerate() {
                if (k as u64) < acc + l {
                    shard = s;
                    pos = k as u64 - acc;
                    break;
                }
                acc += l;
            }
            let mut i = 0u64;
            let mut found: Option<Vec<u8>> = None;
            stream(seed, quick, shard, &mut |c| {
                if i == pos {
                    found = Some(c.to_vec());
                }
                i += 1;
            });
            let case = found.unwrap_or_default();
            let outcome = vbase::engine::catch(|| observe_case(&case)).unwrap_or_else(|p| format!("PANIC:{p}"));
            let f = Fail::new("C17/transcript-differs", format!("builds {} and {other} disagree on case {k} ({}): outcome in {}: {}", ctx.config, show_bytes(&case, 200), ctx.config, vbase::refjson::trunc(&outcome, 600)));
            ctx.record_violation(sub, &case, f);
            return;
        }
    }
}

/// replay: prints the observable outcome of the case in the current build (a single build
/// cannot decide the property; run it in all three builds and compare)
pub fn oracle(case: &[u8], obs: &mut Obs) -> Result<(), Fail> {
    let o = vbase::engine::catch(|| observe_case(case)).unwrap_or_else(|p| format!("PANIC:{p}"));
    if std::env::var("VCHECK_DUMP").is_ok() {
        // replaying the same file under two builds and diffing this output shows where they differ
        println!("outcome digest {:#x}\n{}", h64(o.as_bytes()), o.replace('|', "\n|"));
    }
    obs.render = Some(format!("outcome digest {:#x}: {}", h64(o.as_bytes()), vbase::refjson::trunc(&o, 400)));
    obs.nt();
    Ok(())
}

pub fn subs() -> Vec<Sub<'static>> {
    vec![Sub { name: "transcript", oracle: &oracle, minimise_bytes: false }, Sub { name: "primitives", oracle: &oracle, minimise_bytes: false }]
}

pub fn run(ctx: &Ctx) {
    let subs = subs();
    // a panic inside a primitive is a violation, not a harness failure
    if let Err(p) = vbase::engine::catch(|| primitives(ctx, &subs[1])) {
        ctx.record_violation(&subs[1], p.as_bytes(), Fail::new("C17/primitive/panic", format!("a vector primitive panicked: {p}")));
    }
    if ctx.violations().is_empty() {
        transcripts(ctx, &subs[0]);
    }
}
