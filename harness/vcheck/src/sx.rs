//! Helpers around the sonic-rs public API shared by the checks.

use sonic_rs::{JsonContainerTrait, JsonNumberTrait, JsonValueTrait, Value, ValueRef};
use vbase::refjson::M;

/// Walk a DOM value through the public read API into the plain data model.
pub fn value_to_m(v: &Value) -> M {
    match v.as_ref() {
        ValueRef::Null => M::Null,
        ValueRef::Bool(b) => M::Bool(b),
        ValueRef::Number(n) => {
            if let Some(r) = raw_if_rawnumber(v) {
                return M::Raw(r);
            }
            number_to_m(&n)
        }
        ValueRef::String(s) => M::Str(s.to_string()),
        ValueRef::Array(a) => M::Arr(a.iter().map(value_to_m).collect()),
        ValueRef::Object(o) => M::Obj(o.iter().map(|(k, x)| (k.to_string(), value_to_m(x))).collect()),
    }
}

pub fn number_to_m(n: &sonic_rs::Number) -> M {
    if n.is_f64() {
        M::F64(n.as_f64().unwrap().to_bits())
    } else if let Some(u) = n.as_u64() {
        M::U64(u)
    } else if let Some(i) = n.as_i64() {
        M::I64(i)
    } else {
        M::Str("<number that is neither f64, u64 nor i64>".into())
    }
}

/// In raw-number mode a number node reports its literal through `as_raw_number`; for ordinary
/// numbers `as_raw_number` re-serialises. We only use this for values known to be raw.
fn raw_if_rawnumber(_v: &Value) -> Option<String> {
    None
}

/// Walk with raw numbers: every number is reported by `as_raw_number().as_str()`.
pub fn value_to_m_raw(v: &Value) -> M {
    match v.as_ref() {
        ValueRef::Null => M::Null,
        ValueRef::Bool(b) => M::Bool(b),
        ValueRef::Number(_) => match v.as_raw_number() {
            Some(r) => M::Raw(r.as_str().to_string()),
            None => M::Str("<number without raw form>".into()),
        },
        ValueRef::String(s) => M::Str(s.to_string()),
        ValueRef::Array(a) => M::Arr(a.iter().map(value_to_m_raw).collect()),
        ValueRef::Object(o) => M::Obj(o.iter().map(|(k, x)| (k.to_string(), value_to_m_raw(x))).collect()),
    }
}

pub fn err_sig(e: &sonic_rs::Error) -> String {
    format!("{:?}", e.classify())
}
