//! Helpers around the sonic-rs public API shared by the checks.

use sonic_rs::{JsonContainerTrait, JsonNumberTrait, JsonValueTrait, Value, ValueRef};
use vbase::refjson::M;

/// Walk a DOM value through the public read API into the plain data model.
pub fn value_to_m(v: &Value) -> M {
    match v.as_ref() {
        ValueRef::Null => M::Null,
        ValueRef::Bool(b) => M::Bool(b),
        ValueRef::Number(n) => {
            if let Some(r) = raw_if_rawnumber(v) {
                return M::Raw(r);
            }
            number_to_m(&n)
        }
        ValueRef::String(s) => M::Str(s.to_string()),
        ValueRef::Array(a) => M::Arr(a.iter().map(value_to_m).collect()),
        ValueRef::Object(o) => M::Obj(o.iter().map(|(k, x)| (k.to_string(), value_to_m(x))).collect()),
    }
}

pub fn number_to_m(n: &sonic_rs::Number) -> M {
    if n.is_f64() {
        M::F64(n.as_f64().unwrap().to_bits())
    } else if let Some(u) = n.as_u64() {
        M::U64(u)
    } else if let Some(i) = n.as_i64() {
        M::I64(i)
    } else {
        M::Str("<number that is neither f64, u64 nor i64>".into())
    }
}

/// In raw-number mode a number node reports its literal through `as_raw_number`; for ordinary
/// numbers `as_raw_number` re-serialises. We only use this for values known to be raw.
fn raw_if_rawnumber(_v: &Value) -> Option<String> {
    None
}

/// Walk with raw numbers: every number is reported by `as_raw_number().as_str()`.
pub fn value_to_m_raw(v: &Value) -> M {
    match v.as_ref() {
        ValueRef::Null => M::Null,
        ValueRef::Bool(b) => M::Bool(b),
        ValueRef::Number(_) => match v.as_raw_number() {
            Some(r) => M::Raw(r.as_str().to_string()),
            None => M::Str("<number without raw form>".into()),
        },
        ValueRef::String(s) => M::Str(s.to_string()),
        ValueRef::Array(a) => M::Arr(a.iter().map(value_to_m_raw).collect()),
        ValueRef::Object(o) => M::Obj(o.iter().map(|(k, x)| (k.to_string(), value_to_m_raw(x))).collect()),
    }
}

pub fn err_sig(e: &sonic_rs::Error) -> String {
    format!("{:?}", e.classify())
}

use vbase::refjson::{classify_number, Kind, Node, NumClass};

/// The text of a `&str` handed out by the library, or a marker with its bytes if it is not valid UTF-8.
pub fn checked_text(s: &str) -> String {
    match std::str::from_utf8(s.as_bytes()) {
        Ok(t) => t.to_string(),
        Err(_) => format!("<&str that is not UTF-8: bytes {:02x?}>", &s.as_bytes()[..s.len().min(24)]),
    }
}

/// Walk a DOM value using `get_type` dispatch; in raw mode numbers are reported through
/// `as_raw_number`.
pub fn walk(v: &Value, raw: bool) -> M {
    use sonic_rs::JsonType as T;
    match v.get_type() {
        T::Null => {
            if v.is_null() {
                M::Null
            } else {
                M::Str("<type null but !is_null>".into())
            }
        }
        T::Boolean => match v.as_bool() {
            Some(b) => M::Bool(b),
            None => M::Str("<type bool but as_bool None>".into()),
        },
        T::Number => {
            if raw {
                match v.as_raw_number() {
                    Some(r) => M::Raw(r.as_str().to_string()),
                    None => match v.as_number() {
                        Some(n) => number_to_m(&n),
                        None => M::Str("<number without as_number>".into()),
                    },
                }
            } else {
                match v.as_number() {
                    Some(n) => number_to_m(&n),
                    None => M::Str("<number without as_number>".into()),
                }
            }
        }
        T::String => match v.as_str() {
            // (a `&str` that is not UTF-8 is reported as such instead of being carried into messages)
            Some(s) => M::Str(checked_text(s)),
            None => M::Str("<type string but as_str None>".into()),
        },
        T::Array => match v.as_array() {
            Some(a) => {
                let items: Vec<M> = a.iter().map(|x| walk(x, raw)).collect();
                if a.len() != items.len() {
                    return M::Str("<array len() differs from iteration>".into());
                }
                M::Arr(items)
            }
            None => M::Str("<type array but as_array None>".into()),
        },
        T::Object => match v.as_object() {
            Some(o) => {
                let items: Vec<(String, M)> = o.iter().map(|(k, x)| (checked_text(k), walk(x, raw))).collect();
                if o.len() != items.len() {
                    return M::Str("<object len() differs from iteration>".into());
                }
                M::Obj(items)
            }
            None => M::Str("<type object but as_object None>".into()),
        },
    }
}

/// Compare a walked value with the reference node. Returns Err((kind, description)).
/// `ordered`: object members must be in source order with duplicates (parsed, unmodified DOM).
pub fn cmp_node(n: &Node, b: &[u8], got: &M, raw: bool, path: &mut String) -> Result<(), (&'static str, String)> {
    let mismatch = |kind: &'static str, path: &str, want: String, got: &M| Err((kind, format!("at {path}: expected {want}, got {}", vbase::refjson::trunc(&got.dump(), 200))));
    match (&n.kind, got) {
        (Kind::Null, M::Null) => Ok(()),
        (Kind::Bool(x), M::Bool(y)) if x == y => Ok(()),
        (Kind::Num, g) => {
            let lit = std::str::from_utf8(n.span.of(b)).unwrap();
            if raw {
                return match g {
                    M::Raw(r) if r == lit => Ok(()),
                    _ => mismatch("raw-number", path, format!("raw {lit}"), g),
                };
            }
            let ok = match (classify_number(lit), g) {
                (NumClass::U64(u), M::U64(x)) => u == *x,
                (NumClass::I64(i), M::I64(x)) => i == *x,
                (NumClass::F64(f), M::F64(bits)) => f.to_bits() == *bits,
                // `-0` (integer grammar): both readings of the statement are accepted
                (NumClass::F64(f), M::U64(0)) | (NumClass::F64(f), M::I64(0)) => f.to_bits() == (-0.0f64).to_bits() && vbase::refjson::is_int_literal(lit),
                _ => false,
            };
            if ok {
                Ok(())
            } else {
                let kind = if lit.starts_with('-') && lit.trim_start_matches('-').bytes().all(|c| matches!(c, b'0' | b'.' | b'e' | b'E' | b'+' | b'-') || c.is_ascii_digit()) && lit.parse::<f64>().map(|f| f == 0.0).unwrap_or(false) {
                    "number/negative-zero"
                } else {
                    "number"
                };
                mismatch(kind, path, format!("{:?} from literal {lit}", classify_number(lit)), g)
            }
        }
        (Kind::Str(s), M::Str(t)) => {
            if &s.text == t {
                Ok(())
            } else {
                mismatch("string", path, format!("{:?}", vbase::refjson::trunc(&s.text, 100)), got)
            }
        }
        (Kind::Arr(v), M::Arr(w)) => {
            if v.len() != w.len() {
                return mismatch("structure", path, format!("array of {} elements", v.len()), got);
            }
            for (i, (x, y)) in v.iter().zip(w.iter()).enumerate() {
                let l = path.len();
                path.push_str(&format!("[{i}]"));
                cmp_node(x, b, y, raw, path)?;
                path.truncate(l);
            }
            Ok(())
        }
        (Kind::Obj(v), M::Obj(w)) => {
            if v.len() != w.len() {
                return mismatch("structure/members", path, format!("object of {} members", v.len()), got);
            }
            for ((k, x), (kk, y)) in v.iter().zip(w.iter()) {
                if &k.text != kk {
                    return mismatch("structure/key", path, format!("key {:?}", k.text), &M::Str(kk.clone()));
                }
                let l = path.len();
                path.push_str(&format!(".{k:?}", k = vbase::refjson::trunc(&k.text, 20)));
                cmp_node(x, b, y, raw, path)?;
                path.truncate(l);
            }
            Ok(())
        }
        _ => mismatch("structure/kind", path, format!("{:?}", std::mem::discriminant(&n.kind)), got),
    }
}

/// Allocation-free comparison of a DOM value with a model (object member order ignored,
/// duplicate-free models).
pub fn eq_vm(v: &Value, m: &M) -> bool {
    use sonic_rs::JsonType as T;
    match (v.get_type(), m) {
        (T::Null, M::Null) => true,
        (T::Boolean, M::Bool(b)) => v.as_bool() == Some(*b),
        (T::Number, M::U64(_) | M::I64(_) | M::F64(_)) => match v.as_number() {
            Some(n) => &number_to_m(&n) == m,
            None => false,
        },
        (T::String, M::Str(s)) => v.as_str() == Some(s.as_str()),
        (T::Array, M::Arr(items)) => match v.as_array() {
            Some(a) => a.len() == items.len() && a.iter().zip(items.iter()).all(|(x, y)| eq_vm(x, y)),
            None => false,
        },
        (T::Object, M::Obj(members)) => match v.as_object() {
            Some(o) => {
                o.len() == members.len()
                    && o.iter().all(|(k, x)| match members.iter().find(|(kk, _)| kk == k) {
                        Some((_, y)) => eq_vm(x, y),
                        None => false,
                    })
                    && members.iter().all(|(k, _)| o.get(k).is_some())
            }
            None => false,
        },
        _ => false,
    }
}
