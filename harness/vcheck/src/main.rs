//! vcheck — one binary, one sub-command per property, plus `replay`.
//!
//! exit codes: 0 held (possibly with KNOWN-FINDING lines), 1 violation (VIOLATION line),
//! 2 inconclusive (oracle self-test failed, generator health, watchdog, …)

use std::process::exit;

#[global_allocator]
static ALLOC: vbase::alloc::VAlloc = vbase::alloc::VAlloc;

use vlib::checks;
use vlib::engine::{self, Ctx, Tier};

fn arg(args: &[String], name: &str) -> Option<String> {
    args.iter().position(|a| a == name).and_then(|i| args.get(i + 1).cloned())
}

fn config_name() -> String {
    std::env::var("VCHECK_CONFIG").unwrap_or_else(|_| "chk".into())
}

fn main() {
    let args: Vec<String> = std::env::args().collect();
    if args.len() < 2 {
        eprintln!("usage: vcheck <C01..C20|replay <file>> [--tier quick|thorough] [--seed N] [--evidence path] [--verif-dir dir]");
        exit(2);
    }
    engine::install_panic_hook();
    let verif_dir = arg(&args, "--verif-dir").unwrap_or_else(|| "/verif".into());
    let cmd = args[1].clone();
    if cmd == "replay" {
        exit(replay(&args[2], &verif_dir, true));
    }
    if cmd == "worker" {
        exit(vlib::checks::worker_main(&args[2..]));
    }
    let id = cmd.to_uppercase();
    let tier = match arg(&args, "--tier").or_else(|| std::env::var("VERIF_TIER").ok()).as_deref() {
        Some("thorough") => Tier::Thorough,
        _ => Tier::Quick,
    };
    let seed: u64 = arg(&args, "--seed").or_else(|| std::env::var("VERIF_SEED").ok()).and_then(|s| s.parse().ok()).unwrap_or(1);
    let evidence = arg(&args, "--evidence");
    let only_sub = arg(&args, "--sub");
    let props = checks::all();
    let Some(prop) = props.iter().find(|p| p.id == id) else {
        eprintln!("unknown property {id}");
        exit(2);
    };

    // 1. oracle self-test
    if std::env::var("VCHECK_SKIP_SELFTEST").is_err() {
        if let Err(e) = vbase::selftest::run(seed, 20_000) {
            println!("INCONCLUSIVE property={id} {e}");
            exit(2);
        }
    }

    // 2. known findings: replay canonical cases, print KNOWN-FINDING lines for those that still fail
    let known = engine::load_known(&verif_dir, &id);
    let mut known_lines = Vec::new();
    let mut still_known = Vec::new();
    for k in &known {
        let mut reproduces = true;
        if let Some(rp) = &k.replay {
            let path = format!("{verif_dir}/{rp}");
            match replay_file(&path, &verif_dir) {
                Some(Err(f)) if f.signature == k.signature => {}
                Some(Err(f)) => {
                    // fails differently: report as violation below through the normal path
                    eprintln!("note: known finding {} now fails with signature {}", k.signature, f.signature);
                }
                Some(Ok(())) => {
                    reproduces = false;
                }
                None => {}
            }
        }
        if reproduces {
            let line = format!("KNOWN-FINDING: property={} {} [{}]", id, k.what, k.signature);
            println!("{line}");
            known_lines.push(line);
            still_known.push(k.clone());
        } else {
            println!("note: listed finding {} no longer reproduces; it is not tolerated in this run", k.signature);
        }
    }

    vbase::crash::install(&id, &config_name(), &verif_dir, seed);
    let mut ctx = Ctx::new(&id, tier, seed, &config_name(), &verif_dir, still_known);
    ctx.strict = false;
    if let Some(s) = only_sub {
        std::env::set_var("VCHECK_ONLY_SUB", s);
    }

    // 3. regression tier: committed replay files of fixed findings and past violations
    let mut regress_fail = Vec::new();
    for dir in ["findings", "corpus/regress"] {
        let d = format!("{verif_dir}/{dir}");
        let Ok(rd) = std::fs::read_dir(&d) else { continue };
        let mut files: Vec<_> = rd.filter_map(|e| e.ok()).map(|e| e.path()).filter(|p| p.extension().map(|x| x == "json").unwrap_or(false)).collect();
        files.sort();
        for f in files {
            let path = f.to_string_lossy().to_string();
            let Ok(text) = std::fs::read_to_string(&path) else { continue };
            let Ok(j) = serde_json::from_str::<serde_json::Value>(&text) else { continue };
            if j["property"] != id.as_str() {
                continue;
            }
            if let Some(cfgs) = j["configs"].as_array() {
                if !cfgs.iter().any(|c| c == config_name().as_str()) {
                    continue;
                }
            }
            if let Some(Err(fl)) = replay_file(&path, &verif_dir) {
                if ctx.known.iter().any(|k| k.signature == fl.signature) {
                    continue;
                }
                regress_fail.push((path, fl));
            }
        }
    }

    // 4. the search
    if regress_fail.is_empty() {
        (prop.run)(&ctx);
    }

    // 5. evidence + verdict
    let mut ev = ctx.evidence(prop.rule, prop.assumptions, &known_lines);
    if id == "C05" {
        // writers failing after n bytes are enumerated per value: fault enumeration
        ev["level"] = serde_json::json!("fault_enumeration");
    }
    if let Some(p) = &evidence {
        if let Some(parent) = std::path::Path::new(p).parent() {
            let _ = std::fs::create_dir_all(parent);
        }
        std::fs::write(p, serde_json::to_string_pretty(&ev).unwrap()).expect("write evidence");
    }
    let mut code = 0;
    for (path, f) in &regress_fail {
        println!("regression case fails: {} — {}", f.signature, f.msg);
        println!("VIOLATION property={id} replay={path}");
        code = 1;
    }
    for v in ctx.violations() {
        println!("violation [{}] {}: {}", v.sub, v.signature, vbase::refjson::trunc(&v.msg, 600));
        println!("VIOLATION property={id} replay={}", v.replay_path);
        code = 1;
    }
    if code == 0 {
        let inc = ctx.inconclusive_reasons();
        if !inc.is_empty() {
            for i in inc {
                println!("INCONCLUSIVE property={id} {i}");
            }
            code = 2;
        }
    }
    let cov = &ev["coverage"];
    println!(
        "property={id} config={} tier={:?} seed={seed} evaluations={} distinct_nontrivial={} violations={} wall_s={:.1}",
        config_name(),
        tier,
        cov["evaluations"],
        cov["distinct_nontrivial"],
        ev["violations"],
        ev["wall_s"].as_f64().unwrap_or(0.0)
    );
    exit(code);
}

/// Some(Ok) held, Some(Err) failed, None = not replayable here
fn replay_file(path: &str, verif_dir: &str) -> Option<Result<(), engine::Fail>> {
    let text = std::fs::read_to_string(path).ok()?;
    let j: serde_json::Value = serde_json::from_str(&text).ok()?;
    let id = j["property"].as_str()?.to_string();
    vbase::crash::install(&id, &config_name(), verif_dir, 0);
    let subname = j["sub"].as_str()?.to_string();
    let case = if let Some(h) = j["case_hex"].as_str() { engine::unhex(h) } else { j["case_text"].as_str()?.as_bytes().to_vec() };
    let props = checks::all();
    let prop = props.iter().find(|p| p.id == id)?;
    let subs = (prop.subs)();
    let sub = subs.iter().find(|s| s.name == subname)?;
    let mut ctx = Ctx::new(&id, Tier::Quick, 0, &config_name(), verif_dir, Vec::new());
    ctx.strict = true;
    Some(ctx.replay(sub, &case))
}

fn replay(path: &str, verif_dir: &str, verbose: bool) -> i32 {
    match replay_file(path, verif_dir) {
        Some(Ok(())) => {
            if verbose {
                println!("replay {path}: property holds on this case");
            }
            0
        }
        Some(Err(f)) => {
            let text = std::fs::read_to_string(path).unwrap_or_default();
            let j: serde_json::Value = serde_json::from_str(&text).unwrap_or_default();
            println!("replay {path}: {} — {}", f.signature, f.msg);
            println!("VIOLATION property={} replay={}", j["property"].as_str().unwrap_or("?"), path);
            1
        }
        None => {
            println!("replay {path}: cannot be replayed (unknown property/sub-check or unreadable file)");
            2
        }
    }
}
