//! Helpers shared by the lazy-API checks C10–C14.

use sonic_rs::PointerNode;
use vbase::engine::Src;
use vbase::gens::{self, DocParams};
use vbase::refjson::{Kind, Node, PathElem};

pub fn to_pointer(p: &[PathElem]) -> Vec<PointerNode> {
    p.iter()
        .map(|e| match e {
            PathElem::Key(k) => PointerNode::Key(faststr::FastStr::new(k)),
            PathElem::Idx(i) => PointerNode::Index(*i),
        })
        .collect()
}

/// Perturbations of a valid path (deterministic): missing key, out-of-range index, wrong
/// container kind, one step too deep, empty key.
pub fn perturb(root: &Node, p: &[PathElem]) -> Vec<Vec<PathElem>> {
    let mut out = Vec::new();
    let node = root.lookup(p);
    // one step too deep / wrong kind below this node
    if let Some(n) = node {
        match &n.kind {
            Kind::Arr(v) => {
                let mut q = p.to_vec();
                q.push(PathElem::Idx(v.len()));
                out.push(q);
                let mut q = p.to_vec();
                q.push(PathElem::Key("0".into()));
                out.push(q);
                let mut q = p.to_vec();
                q.push(PathElem::Idx(v.len() + 1000));
                out.push(q);
            }
            Kind::Obj(v) => {
                let mut q = p.to_vec();
                q.push(PathElem::Key("\u{a7}missing".into()));
                out.push(q);
                let mut q = p.to_vec();
                q.push(PathElem::Idx(0));
                out.push(q);
                if !v.iter().any(|(k, _)| k.text.is_empty()) {
                    let mut q = p.to_vec();
                    q.push(PathElem::Key(String::new()));
                    out.push(q);
                }
                // a key that is a prefix / extension of an existing key
                if let Some((k, _)) = v.first() {
                    let mut q = p.to_vec();
                    q.push(PathElem::Key(format!("{}x", k.text)));
                    out.push(q);
                    if !k.text.is_empty() {
                        let mut t = k.text.clone();
                        t.pop();
                        if !v.iter().any(|(kk, _)| kk.text == t) {
                            let mut q = p.to_vec();
                            q.push(PathElem::Key(t));
                            out.push(q);
                        }
                    }
                }
            }
            _ => {
                let mut q = p.to_vec();
                q.push(PathElem::Idx(0));
                out.push(q);
                let mut q = p.to_vec();
                q.push(PathElem::Key("a".into()));
                out.push(q);
            }
        }
    }
    out
}

/// Path keys derived from the *source spelling* of escaped member names below the object at `p`:
/// the raw text between the quotes, and every prefix of it that ends in a backslash. A lookup must
/// compare decoded names, so these only resolve if some member really decodes to them.
pub fn perturb_raw(root: &Node, doc: &[u8], p: &[PathElem]) -> Vec<Vec<PathElem>> {
    let mut out = Vec::new();
    let Some(n) = root.lookup(p) else { return out };
    let Kind::Obj(v) = &n.kind else { return out };
    for (k, _) in v.iter().filter(|(k, _)| k.has_escape).take(4) {
        let raw = &doc[k.span.start + 1..k.span.end - 1];
        let Ok(raw) = std::str::from_utf8(raw) else { continue };
        let mut cands = vec![raw.to_string()];
        for (i, c) in raw.char_indices() {
            if c == '\\' {
                cands.push(raw[..=i].to_string());
            }
        }
        cands.dedup();
        for c in cands.into_iter().take(6) {
            let mut q = p.to_vec();
            q.push(PathElem::Key(c));
            out.push(q);
        }
    }
    out
}

/// An object whose member names are confusable when raw source text and decoded names are mixed
/// up: names ending in a backslash, names containing an escaped quote, one name being the raw
/// spelling of another, long names that share their first 16 and last 8 bytes.
pub fn gen_confusable_keys(src: &mut Src) -> Vec<u8> {
    const NAMES: &[&str] = &[
        "k\\\"x", "k\\\\", "k", "k\\n", "k\\\\n", "a\\u0062", "ab", "a\\\\u0062", "q\\\"", "q", "\\\\", "\\\"", "", "\\u005c", "\\/", "/",
        "0", "1", "42", "007", "+5", "-1", "1e2", "18446744073709551616", "com.example.service.alpha.timeout", "com.example.service.gamma.timeout", "com.example.service.delta.timeout", "com.example.service.alpha.timeou", "com.example.servicE.alpha.timeout",
        "aaaaaaaaaaaaaaaaaaaaaaaaaaaaaaaXaaaaaaaa", "aaaaaaaaaaaaaaaaaaaaaaaaaaaaaaaYaaaaaaaa",
    ];
    let n = 2 + src.below(7);
    let mut names: Vec<&str> = Vec::new();
    for _ in 0..n {
        let c = *src.pick(NAMES);
        if !names.contains(&c) {
            names.push(c);
        }
    }
    let mut out = Vec::new();
    let nested = src.chance(30);
    if nested {
        out.extend_from_slice(b"[0,");
    }
    out.push(b'{');
    for (i, k) in names.iter().enumerate() {
        if i > 0 {
            out.push(b',');
        }
        out.push(b'"');
        out.extend_from_slice(k.as_bytes());
        out.extend_from_slice(b"\":");
        match src.below(3) {
            0 => out.extend_from_slice(format!("{i}").as_bytes()),
            1 => out.extend_from_slice(format!("[{i},{i}]").as_bytes()),
            _ => out.extend_from_slice(format!("{{\"i\":{i}}}").as_bytes()),
        }
    }
    out.push(b'}');
    if nested {
        out.push(b']');
    }
    out
}

/// Containers whose elements open bursts of brackets of one kind and close them one or more
/// 64-byte blocks later (long strings in between), next to elements that open and close within
/// one block: the bracket-counting skippers see blocks with unbalanced opener/closer counts.
pub fn gen_bracket_stress(src: &mut Src) -> Vec<u8> {
    let mut out = Vec::new();
    let pre = src.below(66);
    out.resize(pre, b' ');
    let as_obj = src.chance(80);
    out.push(if as_obj { b'{' } else { b'[' });
    let n = 2 + src.below(5);
    for i in 0..n {
        if i > 0 {
            out.push(b',');
        }
        if as_obj {
            out.extend_from_slice(format!("\"m{i}\":").as_bytes());
        }
        let depth = *src.pick(&[0usize, 1, 1, 2, 3, 4, 5, 6, 9]);
        let kind_arr = src.chance(170);
        let mixed = src.chance(40);
        let mut closers = Vec::new();
        for d in 0..depth {
            let arr = if mixed { src.bool() } else { kind_arr };
            if arr {
                out.push(b'[');
                closers.push(b']');
                if src.chance(50) {
                    out.extend_from_slice(b"0,");
                }
            } else {
                out.extend_from_slice(format!("{{\"d{d}\":").as_bytes());
                closers.push(b'}');
            }
        }
        match src.below(5) {
            0 => out.extend_from_slice(b"1"),
            1 => out.extend_from_slice(b"[]"),
            2 => {
                out.push(b'"');
                let l = *src.pick(&[1usize, 20, 40, 56, 60, 62, 63, 64, 65, 66, 70, 100, 128, 130, 200]);
                for j in 0..l {
                    out.push(if src.chance(12) { *src.pick(&[b'[', b']', b'{', b'}', b',', b':']) } else { b'a' + (j % 26) as u8 });
                }
                out.push(b'"');
            }
            3 => {
                out.push(b'"');
                let l = *src.pick(&[56usize, 62, 63, 64, 65, 100]) + src.below(3);
                out.resize(out.len() + l, b'a');
                out.push(b'"');
            }
            _ => out.extend_from_slice(b"{\"z\":[1,[2]]}"),
        }
        while let Some(c) = closers.pop() {
            if src.chance(30) {
                out.extend_from_slice(b",7");
                if c == b'}' {
                    // keep objects well-formed: undo and close instead
                    out.truncate(out.len() - 2);
                }
            }
            out.push(c);
        }
    }
    out.push(if as_obj { b'}' } else { b']' });
    out
}

/// Documents built to stress the skippers: an object (or array) whose leading members are
/// "nasty" values and whose later members are the targets.
pub fn gen_skip_stress(src: &mut Src, p: &DocParams) -> Vec<u8> {
    let mut out = Vec::new();
    let k = src.below(p.align + 1);
    out.resize(k, b' ');
    let as_obj = src.bool();
    out.push(if as_obj { b'{' } else { b'[' });
    let n = 2 + src.below(5);
    for i in 0..n {
        if i > 0 {
            out.push(b',');
            gens::gen_ws(src, p, &mut out);
        }
        if as_obj {
            out.push(b'"');
            if src.chance(40) {
                gens::gen_key_inner(src, p, &mut out);
            }
            out.extend_from_slice(format!("k{i}").as_bytes());
            out.push(b'"');
            gens::gen_ws(src, p, &mut out);
            out.push(b':');
            gens::gen_ws(src, p, &mut out);
        }
        match src.below(8) {
            0 | 1 => {
                // string with a feature at a block-edge position
                let pos = *src.pick(&[0usize, 1, 14, 15, 16, 29, 30, 31, 32, 33, 61, 62, 63, 64, 65, 95, 96, 127, 128]);
                let pos = pos.saturating_sub(src.below(3));
                out.push(b'"');
                out.resize(out.len() + pos, b'f');
                gens::gen_string_feature(src, p, &mut out);
                let tail = src.below(70);
                out.resize(out.len() + tail, b'g');
                out.push(b'"');
            }
            2 => {
                // nested container of the other kind with bracket-laden strings
                out.extend_from_slice(if as_obj { b"[\"]\",\"[\",{\"}\":\"{\"},\"\\\"]\"]" } else { b"{\"]\":\"[\",\"a\":[\"}\",\"{\\\\\"]}" });
            }
            3 => {
                // long content (> 64 bytes)
                out.push(b'[');
                let m = 20 + src.below(30);
                for j in 0..m {
                    if j > 0 {
                        out.push(b',');
                    }
                    gens::gen_number(src, false, &mut out);
                }
                out.push(b']');
            }
            4 => gens::gen_number(src, false, &mut out),
            _ => gens::gen_value(src, p, 1, &mut out),
        }
        gens::gen_ws(src, p, &mut out);
    }
    out.push(if as_obj { b'}' } else { b']' });
    gens::gen_ws(src, p, &mut out);
    out
}
