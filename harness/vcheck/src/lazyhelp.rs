//! Helpers shared by the lazy-API checks C10–C14.

use sonic_rs::PointerNode;
use vbase::engine::Src;
use vbase::gens::{self, DocParams};
use vbase::refjson::{Kind, Node, PathElem};

pub fn to_pointer(p: &[PathElem]) -> Vec<PointerNode> {
    p.iter()
        .map(|e| match e {
            PathElem::Key(k) => PointerNode::Key(faststr::FastStr::new(k)),
            PathElem::Idx(i) => PointerNode::Index(*i),
        })
        .collect()
}

/// Perturbations of a valid path (deterministic): missing key, out-of-range index, wrong
/// container kind, one step too deep, empty key.
pub fn perturb(root: &Node, p: &[PathElem]) -> Vec<Vec<PathElem>> {
    let mut out = Vec::new();
    let node = root.lookup(p);
    // one step too deep / wrong kind below this node
    if let Some(n) = node {
        match &n.kind {
            Kind::Arr(v) => {
                let mut q = p.to_vec();
                q.push(PathElem::Idx(v.len()));
                out.push(q);
                let mut q = p.to_vec();
                q.push(PathElem::Key("0".into()));
                out.push(q);
                let mut q = p.to_vec();
                q.push(PathElem::Idx(v.len() + 1000));
                out.push(q);
            }
            Kind::Obj(v) => {
                let mut q = p.to_vec();
                q.push(PathElem::Key("\u{a7}missing".into()));
                out.push(q);
                let mut q = p.to_vec();
                q.push(PathElem::Idx(0));
                out.push(q);
                if !v.iter().any(|(k, _)| k.text.is_empty()) {
                    let mut q = p.to_vec();
                    q.push(PathElem::Key(String::new()));
                    out.push(q);
                }
                // a key that is a prefix / extension of an existing key
                if let Some((k, _)) = v.first() {
                    let mut q = p.to_vec();
                    q.push(PathElem::Key(format!("{}x", k.text)));
                    out.push(q);
                    if !k.text.is_empty() {
                        let mut t = k.text.clone();
                        t.pop();
                        if !v.iter().any(|(kk, _)| kk.text == t) {
                            let mut q = p.to_vec();
                            q.push(PathElem::Key(t));
                            out.push(q);
                        }
                    }
                }
            }
            _ => {
                let mut q = p.to_vec();
                q.push(PathElem::Idx(0));
                out.push(q);
                let mut q = p.to_vec();
                q.push(PathElem::Key("a".into()));
                out.push(q);
            }
        }
    }
    out
}

/// Documents built to stress the skippers: an object (or array) whose leading members are
/// "nasty" values and whose later members are the targets.
pub fn gen_skip_stress(src: &mut Src, p: &DocParams) -> Vec<u8> {
    let mut out = Vec::new();
    let k = src.below(p.align + 1);
    out.resize(k, b' ');
    let as_obj = src.bool();
    out.push(if as_obj { b'{' } else { b'[' });
    let n = 2 + src.below(5);
    for i in 0..n {
        if i > 0 {
            out.push(b',');
            gens::gen_ws(src, p, &mut out);
        }
        if as_obj {
            out.push(b'"');
            if src.chance(40) {
                gens::gen_key_inner(src, p, &mut out);
            }
            out.extend_from_slice(format!("k{i}").as_bytes());
            out.push(b'"');
            gens::gen_ws(src, p, &mut out);
            out.push(b':');
            gens::gen_ws(src, p, &mut out);
        }
        match src.below(8) {
            0 | 1 => {
                // string with a feature at a block-edge position
                let pos = *src.pick(&[0usize, 1, 14, 15, 16, 29, 30, 31, 32, 33, 61, 62, 63, 64, 65, 95, 96, 127, 128]);
                let pos = pos.saturating_sub(src.below(3));
                out.push(b'"');
                out.resize(out.len() + pos, b'f');
                gens::gen_string_feature(src, p, &mut out);
                let tail = src.below(70);
                out.resize(out.len() + tail, b'g');
                out.push(b'"');
            }
            2 => {
                // nested container of the other kind with bracket-laden strings
                out.extend_from_slice(if as_obj { b"[\"]\",\"[\",{\"}\":\"{\"},\"\\\"]\"]" } else { b"{\"]\":\"[\",\"a\":[\"}\",\"{\\\\\"]}" });
            }
            3 => {
                // long content (> 64 bytes)
                out.push(b'[');
                let m = 20 + src.below(30);
                for j in 0..m {
                    if j > 0 {
                        out.push(b',');
                    }
                    gens::gen_number(src, false, &mut out);
                }
                out.push(b']');
            }
            4 => gens::gen_number(src, false, &mut out),
            _ => gens::gen_value(src, p, 1, &mut out),
        }
        gens::gen_ws(src, p, &mut out);
    }
    out.push(if as_obj { b'}' } else { b']' });
    gens::gen_ws(src, p, &mut out);
    out
}
