pub mod checks;
pub mod family;
pub mod model_ser;
pub mod lazyhelp;
pub mod sx;
pub use vbase::{engine, gens, refjson};
