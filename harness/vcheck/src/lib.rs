pub mod checks;
pub mod sx;
pub use vbase::{engine, gens, refjson};
