//! The type family shared by C04, C05 and C19: concrete Rust types with generators.

use std::collections::{BTreeMap, HashMap};
use std::fmt::Debug;

use serde::de::DeserializeOwned;
use serde::{Deserialize, Serialize};
use vbase::engine::Src;

pub trait G: Sized {
    fn g(src: &mut Src, depth: usize) -> Self;
}

pub trait Fam: Serialize + DeserializeOwned + PartialEq + Debug + G + 'static {
    const NAME: &'static str;
    /// contains an f32 somewhere (known finding F11 concerns these)
    const HAS_F32: bool = false;
    /// 0 = no byte-buffer positions; 1 = the root; 2 = every element of the root array /
    /// every value of the root object; 3 = elements 0 and 2 of the root array
    const BYTES_AT: u8 = 0;
}

// ---- floats compared by bits -------------------------------------------------------------
#[derive(Clone, Copy, Serialize, Deserialize)]
#[serde(transparent)]
pub struct F64(pub f64);
impl PartialEq for F64 {
    fn eq(&self, o: &Self) -> bool {
        self.0.to_bits() == o.0.to_bits()
    }
}
impl Debug for F64 {
    fn fmt(&self, f: &mut std::fmt::Formatter<'_>) -> std::fmt::Result {
        write!(f, "{:?}f64", self.0)
    }
}
#[derive(Clone, Copy, Serialize, Deserialize)]
#[serde(transparent)]
pub struct F32(pub f32);
impl PartialEq for F32 {
    fn eq(&self, o: &Self) -> bool {
        self.0.to_bits() == o.0.to_bits()
    }
}
impl Debug for F32 {
    fn fmt(&self, f: &mut std::fmt::Formatter<'_>) -> std::fmt::Result {
        write!(f, "{:?}f32", self.0)
    }
}

// ---- generators for primitives -----------------------------------------------------------
macro_rules! g_uint {
    ($($t:ty),*) => {$(
        impl G for $t {
            fn g(src: &mut Src, _d: usize) -> Self {
                match src.below(8) {
                    0 => 0,
                    1 => 1,
                    2 => <$t>::MAX,
                    3 => <$t>::MAX - 1,
                    4 => (src.byte() as $t),
                    5 => (<$t>::MAX / 2).wrapping_add(src.below(3) as $t),
                    6 => {
                        // boundaries of the narrower widths (they matter for wider types)
                        let b = *src.pick(&[u8::MAX as u128, u16::MAX as u128, u32::MAX as u128, u64::MAX as u128, i8::MAX as u128, i16::MAX as u128, i32::MAX as u128, i64::MAX as u128, 1u128 << 53]);
                        b.wrapping_add(src.below(3) as u128).wrapping_sub(1) as $t
                    }
                    _ => {
                        let bits = src.below(<$t>::BITS as usize + 1) as u32;
                        if bits == 0 { 0 } else { (((src.u64() as u128) << 64 | src.u64() as u128) >> (128 - bits)) as $t }
                    }
                }
            }
        }
    )*};
}
g_uint!(u8, u16, u32, u64, u128, usize);
macro_rules! g_int {
    ($($t:ty : $u:ty),*) => {$(
        impl G for $t {
            fn g(src: &mut Src, d: usize) -> Self {
                match src.below(8) {
                    0 => 0,
                    1 => -1,
                    2 => <$t>::MIN,
                    3 => <$t>::MAX,
                    4 => <$t>::MIN + 1,
                    5 => {
                        let b = *src.pick(&[i8::MIN as i128, i16::MIN as i128, i32::MIN as i128, i64::MIN as i128, u64::MAX as i128, i64::MAX as i128, u32::MAX as i128]);
                        b.wrapping_add(src.below(3) as i128).wrapping_sub(1) as $t
                    }
                    _ => <$u as G>::g(src, d) as $t,
                }
            }
        }
    )*};
}
g_int!(i8: u8, i16: u16, i32: u32, i64: u64, i128: u128, isize: usize);

impl G for bool {
    fn g(src: &mut Src, _d: usize) -> Self {
        src.bool()
    }
}
impl G for () {
    fn g(_: &mut Src, _d: usize) -> Self {}
}
impl G for char {
    fn g(src: &mut Src, _d: usize) -> Self {
        match src.below(8) {
            0 => 'a',
            1 => '"',
            2 => '\\',
            3 => '\n',
            4 => *src.pick(&['\0', '\u{1f}', '\u{7f}', '/', 'é', '中', '😀', '\u{ffff}', '\u{10ffff}', '\u{d7ff}', '\u{e000}', ' ', '0', '-']),
            _ => {
                let v = src.u32() % 0x110000;
                char::from_u32(v).unwrap_or('?')
            }
        }
    }
}
impl G for String {
    fn g(src: &mut Src, d: usize) -> Self {
        let style = src.below(10);
        let n = match style {
            0 => 0,
            1..=5 => src.below(6),
            6 | 7 => src.below(40),
            8 => *src.pick(&[15usize, 16, 17, 31, 32, 33, 63, 64, 65, 127, 128, 129]),
            _ => src.below(300),
        };
        let mut s = String::new();
        for _ in 0..n {
            if style <= 3 || src.chance(200) {
                s.push((b'a' + src.byte() % 26) as char);
            } else {
                s.push(char::g(src, d));
            }
        }
        s
    }
}
impl G for F64 {
    fn g(src: &mut Src, _d: usize) -> Self {
        F64(match src.below(8) {
            0 => 0.0,
            1 => -0.0,
            2 => 1.5,
            3 => *src.pick(&[f64::MAX, f64::MIN, f64::MIN_POSITIVE, 5e-324, 1e21, 1e-7, 0.1, 1e15, 1e16, 9007199254740993.0, 123456789.0, -1.0]),
            4 => src.u32() as f64 / 1000.0,
            5 => (src.u16() as f64) * 10f64.powi(src.below(40) as i32 - 20),
            _ => {
                let f = f64::from_bits(src.u64());
                if f.is_finite() { f } else { 2.5 }
            }
        })
    }
}
impl G for F32 {
    fn g(src: &mut Src, _d: usize) -> Self {
        F32(match src.below(8) {
            0 => 0.0,
            1 => -0.0,
            2 => 1.5,
            3 => *src.pick(&[f32::MAX, f32::MIN, f32::MIN_POSITIVE, 1e-45, 0.1, 16777217.0, 1e10, -1.0, 0.3]),
            4 => src.u16() as f32 / 100.0,
            _ => {
                let f = f32::from_bits(src.u32());
                if f.is_finite() { f } else { 2.5 }
            }
        })
    }
}
impl<T: G> G for Option<T> {
    fn g(src: &mut Src, d: usize) -> Self {
        if src.chance(90) { None } else { Some(T::g(src, d)) }
    }
}
fn glen(src: &mut Src, d: usize) -> usize {
    if d >= 4 {
        return 0;
    }
    match src.below(10) {
        0..=2 => 0,
        3..=5 => 1,
        6 | 7 => 2,
        8 => 3 + src.below(4),
        _ => src.below(20),
    }
}
impl<T: G> G for Vec<T> {
    fn g(src: &mut Src, d: usize) -> Self {
        let n = glen(src, d);
        (0..n).map(|_| T::g(src, d + 1)).collect()
    }
}
impl<T: G> G for Box<T> {
    fn g(src: &mut Src, d: usize) -> Self {
        Box::new(T::g(src, d))
    }
}
impl<T: G, const N: usize> G for [T; N] {
    fn g(src: &mut Src, d: usize) -> Self {
        std::array::from_fn(|_| T::g(src, d + 1))
    }
}
impl<K: G + Ord, V: G> G for BTreeMap<K, V> {
    fn g(src: &mut Src, d: usize) -> Self {
        let n = glen(src, d);
        (0..n).map(|_| (K::g(src, d + 1), V::g(src, d + 1))).collect()
    }
}
impl<K: G + std::hash::Hash + Eq, V: G> G for HashMap<K, V> {
    fn g(src: &mut Src, d: usize) -> Self {
        let n = glen(src, d);
        (0..n).map(|_| (K::g(src, d + 1), V::g(src, d + 1))).collect()
    }
}
impl<A: G, B: G> G for (A, B) {
    fn g(src: &mut Src, d: usize) -> Self {
        (A::g(src, d), B::g(src, d))
    }
}
impl<A: G, B: G, C: G, D: G> G for (A, B, C, D) {
    fn g(src: &mut Src, d: usize) -> Self {
        (A::g(src, d + 1), B::g(src, d + 1), C::g(src, d + 1), D::g(src, d + 1))
    }
}
impl<A: G, B: G, C: G> G for (A, B, C) {
    fn g(src: &mut Src, d: usize) -> Self {
        (A::g(src, d), B::g(src, d), C::g(src, d))
    }
}
impl G for serde_bytes::ByteBuf {
    fn g(src: &mut Src, d: usize) -> Self {
        // mostly short; sometimes a length at or around a multiple of 32/64 (chunked writers)
        let n = if src.chance(40) { *src.pick(&[31usize, 32, 33, 63, 64, 65, 127, 128, 129, 192, 256]) } else { glen(src, d) * 3 };
        let mut v = src.take(n);
        v.resize(n, 7);
        serde_bytes::ByteBuf::from(v)
    }
}

// ---- user types --------------------------------------------------------------------------
#[derive(Serialize, Deserialize, PartialEq, Debug, Clone)]
pub struct UnitS;
#[derive(Serialize, Deserialize, PartialEq, Debug, Clone)]
pub struct NewT(pub i32);
#[derive(Serialize, Deserialize, PartialEq, Debug, Clone)]
pub struct TupS(pub i8, pub String);
#[derive(Serialize, Deserialize, PartialEq, Debug, Clone)]
pub struct Plain {
    pub a: u32,
    pub b: String,
    pub c: bool,
}
#[derive(Serialize, Deserialize, PartialEq, Debug, Clone)]
pub struct WithOpt {
    pub a: Option<u8>,
    #[serde(default)]
    pub b: u16,
    #[serde(rename = "x-y")]
    pub c: String,
    #[serde(default, skip_serializing_if = "Option::is_none")]
    pub d: Option<i64>,
}
#[derive(Serialize, Deserialize, PartialEq, Debug, Clone)]
#[serde(deny_unknown_fields)]
pub struct Deny {
    pub k: i16,
    pub v: Vec<u8>,
}
#[derive(Serialize, Deserialize, PartialEq, Debug, Clone)]
pub struct Nested {
    pub p: Plain,
    pub v: Vec<Plain>,
    pub m: BTreeMap<String, WithOpt>,
    pub t: (u8, F64),
}
#[derive(Serialize, Deserialize, PartialEq, Debug, Clone, PartialOrd, Ord, Eq, Hash)]
pub enum UnitE {
    Alpha,
    Beta,
    #[serde(rename = "g\"amma")]
    Gamma,
}
#[derive(Serialize, Deserialize, PartialEq, Debug, Clone)]
pub enum External {
    Unit,
    New(i32),
    Tup(u8, String),
    Struct { a: bool, b: Option<i8> },
    NewSeq(Vec<u16>),
}
#[derive(Serialize, Deserialize, PartialEq, Debug, Clone)]
#[serde(tag = "t")]
pub enum Internal {
    A { x: u8 },
    B,
    C { s: String, o: Option<bool> },
}
#[derive(Serialize, Deserialize, PartialEq, Debug, Clone)]
#[serde(tag = "t", content = "c")]
pub enum Adjacent {
    A(u8),
    B { y: String },
    C,
    D(i8, bool),
}
#[derive(Serialize, Deserialize, PartialEq, Debug, Clone)]
#[serde(untagged)]
pub enum Untagged {
    Num(i64),
    Str(String),
    Seq(Vec<u8>),
    Map { k: bool },
    Nothing,
}
#[derive(Serialize, Deserialize, PartialEq, Debug, Clone)]
pub struct Flat {
    pub id: u8,
    #[serde(flatten)]
    pub rest: BTreeMap<String, i32>,
}
#[derive(Serialize, Deserialize, PartialEq, Debug, Clone)]
pub struct FlatStruct {
    #[serde(flatten)]
    pub p: Plain,
    pub z: u8,
}
#[derive(Serialize, Deserialize, PartialEq, Debug, Clone)]
pub struct Tree {
    pub v: i8,
    pub kids: Vec<Tree>,
}
#[derive(Serialize, Deserialize, PartialEq, Debug, Clone)]
pub struct Floats {
    pub x: F64,
    pub y: F32,
    pub z: Vec<F64>,
}
#[derive(Serialize, Deserialize, PartialEq, Debug, Clone)]
pub struct Wide {
    pub a: u128,
    pub b: i128,
    pub c: u64,
    pub d: i64,
}
#[derive(Serialize, Deserialize, PartialEq, Debug, Clone)]
pub struct Enums {
    pub e: External,
    pub u: UnitE,
    pub l: Vec<External>,
    pub o: Option<UnitE>,
}

// ---- names that need escaping, nullable newtype payloads, Display-driven strings -----------
#[derive(Serialize, Deserialize, PartialEq, Debug, Clone)]
pub struct Weird {
    #[serde(rename = "say \"hi\"")]
    pub a: u8,
    #[serde(rename = "C:\\dir")]
    pub b: String,
    #[serde(rename = "tab\there")]
    pub c: bool,
    #[serde(rename = "nl\nx\u{1}")]
    pub d: Option<u8>,
    #[serde(rename = "é\"中")]
    pub e: i8,
    #[serde(rename = "")]
    pub f: u8,
    #[serde(rename = "a_rather_long_field_name_that_needs_no_escape_at_all")]
    pub g: u8,
    #[serde(rename = "a_rather_long_field_name_with_one_quote_near_the\"end")]
    pub h: u8,
}
#[derive(Serialize, Deserialize, PartialEq, Debug, Clone)]
pub enum WeirdE {
    #[serde(rename = "v\"1")]
    S {
        #[serde(rename = "f\\1")]
        x: u8,
        #[serde(rename = "\n")]
        y: Option<bool>,
    },
    #[serde(rename = "new\nline")]
    N(u8),
    #[serde(rename = "u\\\"")]
    U,
    #[serde(rename = "t\tup")]
    T(u8, u8),
}
#[derive(Serialize, Deserialize, PartialEq, Debug, Clone)]
pub enum NullNew {
    Retry(Option<u32>),
    Unit(()),
    UnitStruct(UnitS),
    Nested(Option<Option<u8>>),
    Plain,
    Seq(Vec<Option<u8>>),
}
/// A string produced piecewise by a `Display` impl (`Serializer::collect_str`), incl. empty pieces.
#[derive(Debug, Clone)]
pub struct Disp(pub Vec<String>);
impl Disp {
    pub fn text(&self) -> String {
        self.0.concat()
    }
}
impl std::fmt::Display for Disp {
    fn fmt(&self, f: &mut std::fmt::Formatter<'_>) -> std::fmt::Result {
        for c in &self.0 {
            f.write_str(c)?;
        }
        Ok(())
    }
}
impl PartialEq for Disp {
    fn eq(&self, o: &Self) -> bool {
        self.text() == o.text()
    }
}
impl Eq for Disp {}
impl PartialOrd for Disp {
    fn partial_cmp(&self, o: &Self) -> Option<std::cmp::Ordering> {
        Some(self.cmp(o))
    }
}
impl Ord for Disp {
    fn cmp(&self, o: &Self) -> std::cmp::Ordering {
        self.text().cmp(&o.text())
    }
}
impl Serialize for Disp {
    fn serialize<S: serde::Serializer>(&self, s: S) -> Result<S::Ok, S::Error> {
        s.collect_str(self)
    }
}
impl<'de> Deserialize<'de> for Disp {
    fn deserialize<D: serde::Deserializer<'de>>(d: D) -> Result<Self, D::Error> {
        String::deserialize(d).map(|s| Disp(vec![s]))
    }
}
#[derive(Serialize, Deserialize, PartialEq, Debug, Clone)]
pub struct DispS {
    pub d: Disp,
    pub v: Vec<Disp>,
    pub m: BTreeMap<Disp, Disp>,
}

macro_rules! g_struct {
    ($t:ident { $($f:ident),* }) => {
        impl G for $t {
            fn g(src: &mut Src, d: usize) -> Self {
                $t { $($f: G::g(src, d + 1)),* }
            }
        }
    };
}
g_struct!(Plain { a, b, c });
g_struct!(WithOpt { a, b, c, d });
g_struct!(Deny { k, v });
g_struct!(Nested { p, v, m, t });
g_struct!(FlatStruct { p, z });
g_struct!(Floats { x, y, z });
g_struct!(Wide { a, b, c, d });
g_struct!(Enums { e, u, l, o });
impl G for Flat {
    fn g(src: &mut Src, d: usize) -> Self {
        let mut rest: BTreeMap<String, i32> = G::g(src, d + 1);
        rest.remove("id");
        Flat { id: G::g(src, d), rest }
    }
}
impl G for UnitS {
    fn g(_: &mut Src, _: usize) -> Self {
        UnitS
    }
}
impl G for NewT {
    fn g(src: &mut Src, d: usize) -> Self {
        NewT(G::g(src, d))
    }
}
impl G for TupS {
    fn g(src: &mut Src, d: usize) -> Self {
        TupS(G::g(src, d), G::g(src, d))
    }
}
impl G for UnitE {
    fn g(src: &mut Src, _: usize) -> Self {
        match src.below(3) {
            0 => UnitE::Alpha,
            1 => UnitE::Beta,
            _ => UnitE::Gamma,
        }
    }
}
impl G for External {
    fn g(src: &mut Src, d: usize) -> Self {
        match src.below(5) {
            0 => External::Unit,
            1 => External::New(G::g(src, d)),
            2 => External::Tup(G::g(src, d), G::g(src, d)),
            3 => External::Struct { a: G::g(src, d), b: G::g(src, d) },
            _ => External::NewSeq(G::g(src, d + 1)),
        }
    }
}
impl G for Internal {
    fn g(src: &mut Src, d: usize) -> Self {
        match src.below(3) {
            0 => Internal::A { x: G::g(src, d) },
            1 => Internal::B,
            _ => Internal::C { s: G::g(src, d), o: G::g(src, d) },
        }
    }
}
impl G for Adjacent {
    fn g(src: &mut Src, d: usize) -> Self {
        match src.below(4) {
            0 => Adjacent::A(G::g(src, d)),
            1 => Adjacent::B { y: G::g(src, d) },
            2 => Adjacent::C,
            _ => Adjacent::D(G::g(src, d), G::g(src, d)),
        }
    }
}
impl G for Untagged {
    fn g(src: &mut Src, d: usize) -> Self {
        match src.below(5) {
            0 => Untagged::Num(G::g(src, d)),
            1 => Untagged::Str(G::g(src, d)),
            2 => Untagged::Seq(G::g(src, d + 1)),
            3 => Untagged::Map { k: G::g(src, d) },
            _ => Untagged::Nothing,
        }
    }
}
impl G for Tree {
    fn g(src: &mut Src, d: usize) -> Self {
        let n = if d >= 3 { 0 } else { src.below(4) };
        Tree { v: G::g(src, d), kids: (0..n).map(|_| Tree::g(src, d + 1)).collect() }
    }
}

g_struct!(Weird { a, b, c, d, e, f, g, h });
g_struct!(DispS { d, v, m });
impl G for WeirdE {
    fn g(src: &mut Src, d: usize) -> Self {
        match src.below(4) {
            0 => WeirdE::S { x: G::g(src, d), y: G::g(src, d) },
            1 => WeirdE::N(G::g(src, d)),
            2 => WeirdE::U,
            _ => WeirdE::T(G::g(src, d), G::g(src, d)),
        }
    }
}
impl G for NullNew {
    fn g(src: &mut Src, d: usize) -> Self {
        match src.below(6) {
            0 => NullNew::Retry(G::g(src, d)),
            1 => NullNew::Unit(()),
            2 => NullNew::UnitStruct(UnitS),
            3 => NullNew::Nested(if src.bool() { None } else { Some(Some(G::g(src, d))) }), // Some(None) is not representable in JSON
            4 => NullNew::Plain,
            _ => NullNew::Seq(G::g(src, d + 1)),
        }
    }
}
impl G for Disp {
    fn g(src: &mut Src, d: usize) -> Self {
        let n = src.below(5);
        Disp(
            (0..n)
                .map(|_| match src.below(8) {
                    0 | 1 => String::new(),
                    2 => "a".to_string(),
                    3 => "\"".to_string(),
                    4 => "\\\n".to_string(),
                    5 => "x".repeat(*src.pick(&[31usize, 32, 33, 64, 100, 255, 256, 257, 300, 1024, 4096])),
                    _ => G::g(src, d),
                })
                .collect(),
        )
    }
}

macro_rules! family {
    ($( $idx:literal => $t:ty : $name:literal $(, f32=$f32:literal)? $(, bytes=$bytes:literal)? ;)*) => {
        $( impl Fam for $t { const NAME: &'static str = $name; $(const HAS_F32: bool = $f32;)? $(const BYTES_AT: u8 = $bytes;)? } )*
        pub const N_TYPES: usize = 0 $(+ { let _ = $idx; 1 })*;
        pub trait FamVisitor { fn visit<T: Fam>(&mut self); }
        pub fn dispatch<V: FamVisitor>(idx: usize, v: &mut V) {
            match idx % N_TYPES {
                $( $idx => v.visit::<$t>(), )*
                _ => unreachable!(),
            }
        }
        pub fn type_name(idx: usize) -> &'static str {
            match idx % N_TYPES { $( $idx => $name, )* _ => "?" }
        }
    };
}

family! {
    0 => u8 : "u8";
    1 => u16 : "u16";
    2 => u32 : "u32";
    3 => u64 : "u64";
    4 => u128 : "u128";
    5 => i8 : "i8";
    6 => i16 : "i16";
    7 => i32 : "i32";
    8 => i64 : "i64";
    9 => i128 : "i128";
    10 => F64 : "f64";
    11 => F32 : "f32", f32=true;
    12 => bool : "bool";
    13 => char : "char";
    14 => String : "String";
    15 => () : "unit";
    16 => Option<u32> : "Option<u32>";
    17 => Option<String> : "Option<String>";
    18 => UnitS : "UnitS";
    19 => NewT : "NewT";
    20 => TupS : "TupS";
    21 => (u8, String, bool) : "(u8,String,bool)";
    22 => Vec<i64> : "Vec<i64>";
    23 => Vec<String> : "Vec<String>";
    24 => Vec<Option<u8>> : "Vec<Option<u8>>";
    25 => [u16; 3] : "[u16;3]";
    26 => BTreeMap<String, i32> : "BTreeMap<String,i32>";
    27 => BTreeMap<u8, bool> : "BTreeMap<u8,bool>";
    28 => BTreeMap<i64, String> : "BTreeMap<i64,String>";
    29 => BTreeMap<u128, u8> : "BTreeMap<u128,u8>";
    30 => BTreeMap<bool, u8> : "BTreeMap<bool,u8>";
    31 => BTreeMap<char, u8> : "BTreeMap<char,u8>";
    32 => BTreeMap<UnitE, u8> : "BTreeMap<UnitE,u8>";
    33 => HashMap<String, Vec<u8>> : "HashMap<String,Vec<u8>>";
    34 => Plain : "Plain";
    35 => WithOpt : "WithOpt";
    36 => Deny : "Deny";
    37 => Nested : "Nested";
    38 => UnitE : "UnitE";
    39 => External : "External";
    40 => Internal : "Internal";
    41 => Adjacent : "Adjacent";
    42 => Untagged : "Untagged";
    43 => Flat : "Flat";
    44 => FlatStruct : "FlatStruct";
    45 => Tree : "Tree";
    46 => Floats : "Floats", f32=true;
    47 => Wide : "Wide";
    48 => Enums : "Enums";
    49 => serde_bytes::ByteBuf : "ByteBuf", bytes=1;
    50 => Vec<F32> : "Vec<f32>", f32=true;
    51 => BTreeMap<i8, Vec<External>> : "BTreeMap<i8,Vec<External>>";
    52 => usize : "usize";
    53 => isize : "isize";
    54 => BTreeMap<i128, bool> : "BTreeMap<i128,bool>";
    55 => Option<Vec<Option<Plain>>> : "Option<Vec<Option<Plain>>>";
    56 => Box<Nested> : "Box<Nested>";
    57 => (F64, F64) : "(f64,f64)";
    58 => Vec<(String, u8)> : "Vec<(String,u8)>";
    59 => BTreeMap<String, Untagged> : "BTreeMap<String,Untagged>";
    60 => Vec<serde_bytes::ByteBuf> : "Vec<ByteBuf>", bytes=2;
    61 => BTreeMap<String, serde_bytes::ByteBuf> : "BTreeMap<String,ByteBuf>", bytes=2;
    62 => (serde_bytes::ByteBuf, String, serde_bytes::ByteBuf) : "(ByteBuf,String,ByteBuf)", bytes=3;
    63 => Weird : "Weird";
    64 => WeirdE : "WeirdE";
    65 => Vec<WeirdE> : "Vec<WeirdE>";
    66 => NullNew : "NullNew";
    67 => Vec<NullNew> : "Vec<NullNew>";
    68 => Disp : "Disp";
    69 => DispS : "DispS";
    70 => BTreeMap<String, NullNew> : "BTreeMap<String,NullNew>";
    71 => (String, u128, String, i128) : "(String,u128,String,i128)";
    72 => Vec<(String, u64)> : "Vec<(String,u64)>";
}
