//! Independent model serializer: maps any `Serialize` value to the JSON data model serde
//! prescribes (the convention serde_json documents), without producing text.

use serde::ser::{self, Serialize};
use std::fmt::Display;

#[derive(Clone, Debug, PartialEq)]
pub enum SV {
    Null,
    Bool(bool),
    I(i128),
    U(u128),
    F32(u32),
    F64(u64),
    Str(String),
    Arr(Vec<SV>),
    /// members in serialization order; keys are scalars that must be written as strings
    Obj(Vec<(SV, SV)>),
}

#[derive(Debug)]
pub struct MErr(pub String);
impl Display for MErr {
    fn fmt(&self, f: &mut std::fmt::Formatter<'_>) -> std::fmt::Result {
        f.write_str(&self.0)
    }
}
impl std::error::Error for MErr {}
impl ser::Error for MErr {
    fn custom<T: Display>(msg: T) -> Self {
        MErr(msg.to_string())
    }
}

pub fn to_model<T: Serialize + ?Sized>(v: &T) -> Result<SV, MErr> {
    v.serialize(MS)
}

pub struct MS;

pub struct SeqS {
    items: Vec<SV>,
    variant: Option<&'static str>,
}
pub struct MapS {
    items: Vec<(SV, SV)>,
    key: Option<SV>,
    variant: Option<&'static str>,
}

impl ser::Serializer for MS {
    type Ok = SV;
    type Error = MErr;
    type SerializeSeq = SeqS;
    type SerializeTuple = SeqS;
    type SerializeTupleStruct = SeqS;
    type SerializeTupleVariant = SeqS;
    type SerializeMap = MapS;
    type SerializeStruct = MapS;
    type SerializeStructVariant = MapS;

    fn serialize_bool(self, v: bool) -> Result<SV, MErr> {
        Ok(SV::Bool(v))
    }
    fn serialize_i8(self, v: i8) -> Result<SV, MErr> {
        Ok(SV::I(v as i128))
    }
    fn serialize_i16(self, v: i16) -> Result<SV, MErr> {
        Ok(SV::I(v as i128))
    }
    fn serialize_i32(self, v: i32) -> Result<SV, MErr> {
        Ok(SV::I(v as i128))
    }
    fn serialize_i64(self, v: i64) -> Result<SV, MErr> {
        Ok(SV::I(v as i128))
    }
    fn serialize_i128(self, v: i128) -> Result<SV, MErr> {
        Ok(SV::I(v))
    }
    fn serialize_u8(self, v: u8) -> Result<SV, MErr> {
        Ok(SV::U(v as u128))
    }
    fn serialize_u16(self, v: u16) -> Result<SV, MErr> {
        Ok(SV::U(v as u128))
    }
    fn serialize_u32(self, v: u32) -> Result<SV, MErr> {
        Ok(SV::U(v as u128))
    }
    fn serialize_u64(self, v: u64) -> Result<SV, MErr> {
        Ok(SV::U(v as u128))
    }
    fn serialize_u128(self, v: u128) -> Result<SV, MErr> {
        Ok(SV::U(v))
    }
    fn serialize_f32(self, v: f32) -> Result<SV, MErr> {
        Ok(SV::F32(v.to_bits()))
    }
    fn serialize_f64(self, v: f64) -> Result<SV, MErr> {
        Ok(SV::F64(v.to_bits()))
    }
    fn serialize_char(self, v: char) -> Result<SV, MErr> {
        Ok(SV::Str(v.to_string()))
    }
    fn serialize_str(self, v: &str) -> Result<SV, MErr> {
        Ok(SV::Str(v.to_string()))
    }
    fn serialize_bytes(self, v: &[u8]) -> Result<SV, MErr> {
        Ok(SV::Arr(v.iter().map(|b| SV::U(*b as u128)).collect()))
    }
    fn serialize_none(self) -> Result<SV, MErr> {
        Ok(SV::Null)
    }
    fn serialize_some<T: ?Sized + Serialize>(self, value: &T) -> Result<SV, MErr> {
        value.serialize(MS)
    }
    fn serialize_unit(self) -> Result<SV, MErr> {
        Ok(SV::Null)
    }
    fn serialize_unit_struct(self, _name: &'static str) -> Result<SV, MErr> {
        Ok(SV::Null)
    }
    fn serialize_unit_variant(self, _name: &'static str, _i: u32, variant: &'static str) -> Result<SV, MErr> {
        Ok(SV::Str(variant.to_string()))
    }
    fn serialize_newtype_struct<T: ?Sized + Serialize>(self, _name: &'static str, value: &T) -> Result<SV, MErr> {
        value.serialize(MS)
    }
    fn serialize_newtype_variant<T: ?Sized + Serialize>(self, _name: &'static str, _i: u32, variant: &'static str, value: &T) -> Result<SV, MErr> {
        Ok(SV::Obj(vec![(SV::Str(variant.to_string()), value.serialize(MS)?)]))
    }
    fn serialize_seq(self, _len: Option<usize>) -> Result<SeqS, MErr> {
        Ok(SeqS { items: Vec::new(), variant: None })
    }
    fn serialize_tuple(self, _len: usize) -> Result<SeqS, MErr> {
        Ok(SeqS { items: Vec::new(), variant: None })
    }
    fn serialize_tuple_struct(self, _name: &'static str, _len: usize) -> Result<SeqS, MErr> {
        Ok(SeqS { items: Vec::new(), variant: None })
    }
    fn serialize_tuple_variant(self, _name: &'static str, _i: u32, variant: &'static str, _len: usize) -> Result<SeqS, MErr> {
        Ok(SeqS { items: Vec::new(), variant: Some(variant) })
    }
    fn serialize_map(self, _len: Option<usize>) -> Result<MapS, MErr> {
        Ok(MapS { items: Vec::new(), key: None, variant: None })
    }
    fn serialize_struct(self, _name: &'static str, _len: usize) -> Result<MapS, MErr> {
        Ok(MapS { items: Vec::new(), key: None, variant: None })
    }
    fn serialize_struct_variant(self, _name: &'static str, _i: u32, variant: &'static str, _len: usize) -> Result<MapS, MErr> {
        Ok(MapS { items: Vec::new(), key: None, variant: Some(variant) })
    }
}

impl SeqS {
    fn finish(self) -> SV {
        let a = SV::Arr(self.items);
        match self.variant {
            Some(v) => SV::Obj(vec![(SV::Str(v.to_string()), a)]),
            None => a,
        }
    }
}
impl ser::SerializeSeq for SeqS {
    type Ok = SV;
    type Error = MErr;
    fn serialize_element<T: ?Sized + Serialize>(&mut self, value: &T) -> Result<(), MErr> {
        self.items.push(value.serialize(MS)?);
        Ok(())
    }
    fn end(self) -> Result<SV, MErr> {
        Ok(self.finish())
    }
}
impl ser::SerializeTuple for SeqS {
    type Ok = SV;
    type Error = MErr;
    fn serialize_element<T: ?Sized + Serialize>(&mut self, value: &T) -> Result<(), MErr> {
        self.items.push(value.serialize(MS)?);
        Ok(())
    }
    fn end(self) -> Result<SV, MErr> {
        Ok(self.finish())
    }
}
impl ser::SerializeTupleStruct for SeqS {
    type Ok = SV;
    type Error = MErr;
    fn serialize_field<T: ?Sized + Serialize>(&mut self, value: &T) -> Result<(), MErr> {
        self.items.push(value.serialize(MS)?);
        Ok(())
    }
    fn end(self) -> Result<SV, MErr> {
        Ok(self.finish())
    }
}
impl ser::SerializeTupleVariant for SeqS {
    type Ok = SV;
    type Error = MErr;
    fn serialize_field<T: ?Sized + Serialize>(&mut self, value: &T) -> Result<(), MErr> {
        self.items.push(value.serialize(MS)?);
        Ok(())
    }
    fn end(self) -> Result<SV, MErr> {
        Ok(self.finish())
    }
}
impl MapS {
    fn finish(self) -> SV {
        let o = SV::Obj(self.items);
        match self.variant {
            Some(v) => SV::Obj(vec![(SV::Str(v.to_string()), o)]),
            None => o,
        }
    }
}
impl ser::SerializeMap for MapS {
    type Ok = SV;
    type Error = MErr;
    fn serialize_key<T: ?Sized + Serialize>(&mut self, key: &T) -> Result<(), MErr> {
        let k = key.serialize(MS)?;
        match k {
            SV::Str(_) | SV::I(_) | SV::U(_) | SV::Bool(_) | SV::F32(_) | SV::F64(_) => {}
            _ => return Err(MErr("key must be a string".into())),
        }
        self.key = Some(k);
        Ok(())
    }
    fn serialize_value<T: ?Sized + Serialize>(&mut self, value: &T) -> Result<(), MErr> {
        let k = self.key.take().ok_or_else(|| MErr("value without key".into()))?;
        self.items.push((k, value.serialize(MS)?));
        Ok(())
    }
    fn end(self) -> Result<SV, MErr> {
        Ok(self.finish())
    }
}
impl ser::SerializeStruct for MapS {
    type Ok = SV;
    type Error = MErr;
    fn serialize_field<T: ?Sized + Serialize>(&mut self, key: &'static str, value: &T) -> Result<(), MErr> {
        self.items.push((SV::Str(key.to_string()), value.serialize(MS)?));
        Ok(())
    }
    fn end(self) -> Result<SV, MErr> {
        Ok(self.finish())
    }
}
impl ser::SerializeStructVariant for MapS {
    type Ok = SV;
    type Error = MErr;
    fn serialize_field<T: ?Sized + Serialize>(&mut self, key: &'static str, value: &T) -> Result<(), MErr> {
        self.items.push((SV::Str(key.to_string()), value.serialize(MS)?));
        Ok(())
    }
    fn end(self) -> Result<SV, MErr> {
        Ok(self.finish())
    }
}

use vbase::refjson::{check_escaped_literal, Kind, Node};

/// Compare the reference parse of serialized output with the model. Err((kind, message)).
pub fn cmp_output(n: &Node, out: &[u8], want: &SV, path: &mut String) -> Result<(), (&'static str, String)> {
    let lit = || String::from_utf8_lossy(n.span.of(out)).into_owned();
    let bad = |kind: &'static str, path: &str, msg: String| Err((kind, format!("at {path}: {msg}")));
    match (want, &n.kind) {
        (SV::Null, Kind::Null) => Ok(()),
        (SV::Bool(a), Kind::Bool(b)) if a == b => Ok(()),
        (SV::I(i), Kind::Num) => {
            let l = lit();
            if l == i.to_string() {
                Ok(())
            } else {
                bad("number", path, format!("integer {i} written as {l}"))
            }
        }
        (SV::U(u), Kind::Num) => {
            let l = lit();
            if l == u.to_string() {
                Ok(())
            } else {
                bad("number", path, format!("integer {u} written as {l}"))
            }
        }
        (SV::F64(bits), k) => {
            let f = f64::from_bits(*bits);
            if !f.is_finite() {
                return if matches!(k, Kind::Null) { Ok(()) } else { bad("non-finite", path, format!("non-finite float written as {}", lit())) };
            }
            match k {
                Kind::Num => {
                    let l = lit();
                    match l.parse::<f64>() {
                        Ok(g) if g.to_bits() == *bits => Ok(()),
                        _ => bad("number", path, format!("f64 {f:?} written as {l}")),
                    }
                }
                _ => bad("kind", path, format!("f64 {f:?} written as {}", lit())),
            }
        }
        (SV::F32(bits), k) => {
            let f = f32::from_bits(*bits);
            if !f.is_finite() {
                return if matches!(k, Kind::Null) { Ok(()) } else { bad("non-finite", path, format!("non-finite float written as {}", lit())) };
            }
            match k {
                Kind::Num => {
                    let l = lit();
                    match l.parse::<f32>() {
                        Ok(g) if g.to_bits() == *bits => Ok(()),
                        _ => bad("number", path, format!("f32 {f:?} written as {l}")),
                    }
                }
                _ => bad("kind", path, format!("f32 {f:?} written as {}", lit())),
            }
        }
        (SV::Str(s), Kind::Str(_)) => match check_escaped_literal(n.span.of(out), s) {
            Ok(()) => Ok(()),
            Err(e) => bad("string", path, e),
        },
        (SV::Arr(a), Kind::Arr(b)) => {
            if a.len() != b.len() {
                return bad("structure", path, format!("array of {} written with {} elements", a.len(), b.len()));
            }
            for (i, (x, y)) in a.iter().zip(b.iter()).enumerate() {
                let l = path.len();
                path.push_str(&format!("[{i}]"));
                cmp_output(y, out, x, path)?;
                path.truncate(l);
            }
            Ok(())
        }
        (SV::Obj(a), Kind::Obj(b)) => {
            if a.len() != b.len() {
                return bad("structure", path, format!("object of {} members written with {}", a.len(), b.len()));
            }
            for ((k, x), (kk, y)) in a.iter().zip(b.iter()) {
                // keys become strings
                let key_ok = match k {
                    SV::Str(s) => check_escaped_literal(kk.span.of(out), s).map_err(|e| e),
                    SV::I(i) => if kk.text == i.to_string() && !kk.has_escape { Ok(()) } else { Err(format!("integer key {i} written as {:?}", kk.text)) },
                    SV::U(u) => if kk.text == u.to_string() && !kk.has_escape { Ok(()) } else { Err(format!("integer key {u} written as {:?}", kk.text)) },
                    SV::Bool(v) => if kk.text == v.to_string() { Ok(()) } else { Err(format!("bool key {v} written as {:?}", kk.text)) },
                    SV::F64(bits) => match kk.text.parse::<f64>() {
                        Ok(g) if g.to_bits() == *bits => Ok(()),
                        _ => Err(format!("float key {:?} written as {:?}", f64::from_bits(*bits), kk.text)),
                    },
                    SV::F32(bits) => match kk.text.parse::<f32>() {
                        Ok(g) if g.to_bits() == *bits => Ok(()),
                        _ => Err(format!("float key {:?} written as {:?}", f32::from_bits(*bits), kk.text)),
                    },
                    _ => Err("unsupported key kind in model".to_string()),
                };
                if let Err(e) = key_ok {
                    return bad("key", path, e);
                }
                let l = path.len();
                path.push_str(&format!(".{}", vbase::refjson::trunc(&kk.text, 16)));
                cmp_output(y, out, x, path)?;
                path.truncate(l);
            }
            Ok(())
        }
        (w, _) => bad("kind", path, format!("model {:?} written as {}", std::mem::discriminant(w), vbase::refjson::trunc(&lit(), 80))),
    }
}
