#![no_main]
use libfuzzer_sys::fuzz_target;
mod common;
// C16: bytes are a history of parse / clone / take / insert / mutate / thread hand-off / drop;
// ASan + LSan are the memory oracle, the model comparison the semantic one
fuzz_target!(|data: &[u8]| {
    if data.len() <= 512 {
        common::run(vlib::checks::c16::oracle_fuzz, data);
    }
});
