// shared by all fuzz targets: run an oracle of the in-process checks on the fuzzer's input and
// turn a property violation into a crash (libFuzzer saves the input). Listed known findings
// are tolerated so that a campaign does not rediscover them forever.
use vbase::engine::{Fail, Obs};

pub fn known() -> &'static Vec<String> {
    static K: std::sync::OnceLock<Vec<String>> = std::sync::OnceLock::new();
    K.get_or_init(|| {
        let mut v = Vec::new();
        if let Ok(t) = std::fs::read_to_string("/verif/known_findings.jsonl") {
            for line in t.lines() {
                if let Some(i) = line.find("\"signature\":\"") {
                    let rest = &line[i + 13..];
                    if let Some(j) = rest.find('"') {
                        v.push(rest[..j].to_string());
                    }
                }
            }
        }
        v
    })
}

pub fn judge(r: Result<(), Fail>) {
    if let Err(f) = r {
        if known().iter().any(|k| *k == f.signature) {
            return;
        }
        eprintln!("PROPERTY VIOLATION signature={} message={}", f.signature, f.msg);
        std::process::abort();
    }
}

#[allow(dead_code)]
pub fn run(oracle: fn(&[u8], &mut Obs) -> Result<(), Fail>, data: &[u8]) {
    let mut obs = Obs::default();
    judge(oracle(data, &mut obs));
}
