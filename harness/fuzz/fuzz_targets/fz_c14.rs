#![no_main]
use libfuzzer_sys::fuzz_target;
mod common;
// C14: arbitrary bytes through the checked lazy APIs with the fixed path family
fuzz_target!(|data: &[u8]| {
    if data.len() <= 4096 {
        let case = vlib::checks::c14::join_case(data, &[]);
        common::run(vlib::checks::c14::oracle, &case);
    }
});
