#![no_main]
use libfuzzer_sys::fuzz_target;
mod common;
// C04: first byte selects the target type, the rest is the text: serde_json vs sonic-rs
fuzz_target!(|data: &[u8]| {
    if !data.is_empty() && data.len() <= 2048 {
        common::run(vlib::checks::c04::oracle_text, data);
    }
});
