#![no_main]
use libfuzzer_sys::fuzz_target;
// C01: every safe entry point on arbitrary bytes; a panic, an ASan report or a leak (LSan) is
// the violation
fuzz_target!(|data: &[u8]| {
    let _ = vlib::checks::c01::exercise(data, false);
});
