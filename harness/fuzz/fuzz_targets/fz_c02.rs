#![no_main]
use libfuzzer_sys::fuzz_target;
mod common;
// C02: accept/reject of every route against the reference recogniser
fuzz_target!(|data: &[u8]| {
    if data.len() <= 4096 {
        common::run(vlib::checks::c02::oracle, data);
    }
});
