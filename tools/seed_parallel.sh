#!/bin/bash
# seed_parallel.sh <n workspaces> [pattern]  — full seed regression in n side-by-side workspaces under /tmp/seedws
# (git worktrees of /repo HEAD and of /verif HEAD with the harness pointed at the private repo copy); the seeds
# are dealt round-robin, heaviest properties first. Results: /tmp/seedws/<k>.log. Workspaces are removed at the end.
set -u
N=${1:-3}; PAT=${2:-*}
rm -rf /tmp/seedws; mkdir -p /tmp/seedws
IDS=$(cd /verif/seeded && ls -d $PAT | sort)
# heavy first: C01 (8 min), C10, C06, C17
ORDERED=$(for id in $IDS; do case $id in C01-*) echo "0 $id";; C10-*|C06-*|C17-*|C03-*) echo "1 $id";; *) echo "2 $id";; esac; done | sort | awk '{print $2}')
for k in $(seq 1 $N); do
  git -C /repo worktree add -q --detach /tmp/seedws/repo$k HEAD
  git -C /verif worktree add -q --detach /tmp/seedws/verif$k HEAD
  sed -i "s#\"/repo#\"/tmp/seedws/repo$k#g" /tmp/seedws/verif$k/harness/vcheck/Cargo.toml
  mkdir -p /tmp/seedws/logs$k
done
i=0; declare -a GROUP
for id in $ORDERED; do k=$(( i % N + 1 )); GROUP[$k]="${GROUP[$k]:-} $id"; i=$((i+1)); done
for k in $(seq 1 $N); do
  ( SEED_REPO=/tmp/seedws/repo$k SEED_VERIF=/tmp/seedws/verif$k SEED_LOGDIR=/tmp/seedws/logs$k VERIF_THREADS=${VERIF_THREADS:-5} \
      /tmp/seedws/verif$k/tools/seed_all.sh --ids "${GROUP[$k]}" > /tmp/seedws/$k.log 2>&1 ) &
done
wait
cat /tmp/seedws/*.log | grep -E "^seed|APPLY" | sort > /tmp/seedws/summary.txt
for k in $(seq 1 $N); do
  git -C /repo worktree remove --force /tmp/seedws/repo$k
  git -C /verif worktree remove --force /tmp/seedws/verif$k
done
git -C /repo worktree prune; git -C /verif worktree prune
echo "total $(wc -l < /tmp/seedws/summary.txt); not caught:"; grep -v "exit 1" /tmp/seedws/summary.txt
