#!/bin/bash
# confirm_seed.sh <out-dir-with patch.diff,demo.rs,meta.json> <scratch worktree> <seed id>
# Optional env: DEMO_ARGS (e.g. "--features sort_keys"), DEMO_RUSTFLAGS (e.g. "-C target-cpu=x86-64") for the demo runs.
# Confirms in a scratch worktree (at /repo's current HEAD): patch applies, 90 unit tests pass with it,
# the demo fails with it and passes without it. On success copies the seed to /verif/seeded/<id>/.
set -u
OUT=$1; WT=$2; ID=$3
export CARGO_NET_OFFLINE=true
cd "$WT" || exit 2
git checkout -q --detach "$(git -C /repo rev-parse HEAD)" || exit 2
git checkout -q -- . ; rm -f tests/seed_demo_*.rs
LOG=$(mktemp)
demo_run() { if [ -n "${DEMO_RUSTFLAGS:-}" ]; then RUSTFLAGS="$DEMO_RUSTFLAGS" CARGO_TARGET_DIR=target/alt cargo test --offline ${DEMO_ARGS:-} --test seed_demo_x; else cargo test --offline ${DEMO_ARGS:-} --test seed_demo_x; fi; }
if ! git apply --check "$OUT/patch.diff" 2>>$LOG; then echo "$ID: patch does not apply"; cat $LOG; exit 1; fi
git apply "$OUT/patch.diff"
UT=$(cargo test --offline --lib 2>&1 | grep "test result" | head -1)
echo "$ID: unit tests with patch: $UT"
case "$UT" in *"90 passed; 0 failed"*) ;; *) echo "$ID: REJECT unit tests do not pass"; git checkout -q -- .; exit 1;; esac
mkdir -p tests; cp "$OUT/demo.rs" tests/seed_demo_x.rs
if demo_run >$LOG 2>&1; then echo "$ID: REJECT demo passes WITH patch"; git checkout -q -- .; rm -f tests/seed_demo_x.rs; exit 1; fi
grep -E "test result|panicked" $LOG | head -3
git checkout -q -- .
if ! demo_run >$LOG 2>&1; then echo "$ID: REJECT demo fails WITHOUT patch"; grep -E "test result|panicked|error" $LOG | head -5; rm -f tests/seed_demo_x.rs; exit 1; fi
grep -E "test result" $LOG | head -2
rm -f tests/seed_demo_x.rs
mkdir -p /verif/seeded/$ID
cp "$OUT/patch.diff" "$OUT/demo.rs" "$OUT/meta.json" /verif/seeded/$ID/
echo "$ID: CONFIRMED"
