#!/bin/bash
# multiseed_snapshot.sh <seed> [props...] — for `vp run --with-repo`: the quick tier of every check with another
# PRNG seed on the unchanged tree, in a snapshot (the committed evidence files stay those of seed 1).
set -u
SEED=$1; shift
if [ -n "${VP_RUN_REPO:-}" ]; then sed -i "s#\"/repo#\"$VP_RUN_REPO#g" harness/vcheck/Cargo.toml; fi
PROPS="$@"; [ -z "$PROPS" ] && PROPS="C02 C03 C04 C05 C06 C07 C08 C09 C10 C11 C12 C13 C14 C15 C16 C17 C18 C19 C20 C01"
for P in $PROPS; do
  S=$(date +%s)
  VERIF_SEED=$SEED ./run $P quick > seed$SEED-$P.log 2>&1; RC=$?
  E=$(date +%s)
  echo "seed=$SEED $P exit=$RC wall=$((E-S))s $(grep -c '^VIOLATION' seed$SEED-$P.log) violations"
  grep -aE "^violation|^INCONCLUSIVE|^regression|^VIOLATION" seed$SEED-$P.log | head -4 | cut -c1-500
done
