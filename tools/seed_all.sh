#!/bin/bash
# seed_all.sh [pattern] — run every seeded regression against its property's quick check
cd /verif
for d in seeded/${1:-*}; do
  ID=$(basename $d); PROP=${ID%%-*}
  if ! git -C /repo apply --check /verif/$d/patch.diff 2>/dev/null; then echo "$ID: PATCH DOES NOT APPLY"; continue; fi
  tools/seedtest.sh $ID $PROP 2>&1 | head -2 | cut -c1-260
done
