#!/bin/bash
# seed_all.sh [pattern]   — run every seeded regression (seeded/<pattern>) against its property's quick check.
# seed_all.sh --ids "C01-A C02-B ..."   — the same for an explicit list.
# With SEED_REPO / SEED_VERIF set (see seedtest.sh) the loop runs in a private workspace.
REPO=${SEED_REPO:-/repo}; VERIF=${SEED_VERIF:-/verif}
cd $VERIF
if [ "${1:-}" = "--ids" ]; then LIST="$2"; else LIST=$(for d in seeded/${1:-*}; do basename $d; done); fi
for ID in $LIST; do
  PROP=${ID%%-*}
  if ! git -C $REPO apply --check $VERIF/seeded/$ID/patch.diff 2>/dev/null; then echo "$ID: PATCH DOES NOT APPLY"; continue; fi
  tools/seedtest.sh $ID $PROP 2>&1 | head -2 | cut -c1-260
done
