#!/bin/bash
# confirm_all.sh C02 C09 ...   (both variants of each)
for P in "$@"; do for V in A B; do
  if [ -f /tmp/seed/out-$P/$V/patch.diff ]; then /verif/tools/confirm_seed.sh /tmp/seed/out-$P/$V /tmp/seed/wt-$P $P-$V 2>&1 | grep -E "CONFIRMED|REJECT|does not apply"; fi
done; done
