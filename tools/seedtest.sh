#!/bin/bash
# seedtest.sh <seed id> <property> [tier]   — apply /verif/seeded/<id>/patch.diff to /repo, run the check, undo.
set -u
ID=$1; PROP=$2; TIER=${3:-quick}
cd /repo || exit 2
if [ -n "$(git status --porcelain --untracked-files=no)" ]; then echo "/repo is dirty"; exit 2; fi
git apply /verif/seeded/$ID/patch.diff || { echo "patch does not apply"; exit 2; }
cd /verif
# evidence files in /verif/evidence must describe runs on the unchanged tree: keep the current one
cp -p evidence/$PROP.json /tmp/seedtest-evidence-$PROP.json 2>/dev/null
./run $PROP $TIER > /tmp/seedtest-$ID-$PROP.log 2>&1
RC=$?
git -C /repo checkout -- .
if [ -f /tmp/seedtest-evidence-$PROP.json ]; then mv /tmp/seedtest-evidence-$PROP.json evidence/$PROP.json; fi
echo "seed $ID vs $PROP ($TIER): exit $RC  $(grep -c '^VIOLATION' /tmp/seedtest-$ID-$PROP.log) violation line(s)"
grep -E "^violation|^regression" /tmp/seedtest-$ID-$PROP.log | head -3
exit $RC
