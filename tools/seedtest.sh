#!/bin/bash
# seedtest.sh <seed id> <property> [tier]   — apply /verif/seeded/<id>/patch.diff to /repo, run the check, undo.
set -u
ID=$1; PROP=$2; TIER=${3:-quick}
# SEED_REPO / SEED_VERIF: run against a private copy (a git worktree of /repo and a snapshot of /verif whose
# harness/vcheck/Cargo.toml points at it) so that several loops can run side by side
REPO=${SEED_REPO:-/repo}; VERIF=${SEED_VERIF:-/verif}
cd $REPO || exit 2
if [ -n "$(git status --porcelain --untracked-files=no)" ]; then echo "/repo is dirty"; exit 2; fi
git apply $VERIF/seeded/$ID/patch.diff || { echo "patch does not apply"; exit 2; }
cd $VERIF
# evidence files in /verif/evidence must describe runs on the unchanged tree: keep the current one
cp -p evidence/$PROP.json ${SEED_LOGDIR:-/tmp}/seedtest-evidence-$PROP.json 2>/dev/null
./run $PROP $TIER > ${SEED_LOGDIR:-/tmp}/seedtest-$ID-$PROP.log 2>&1
RC=$?
git -C $REPO checkout -- .
if [ -f ${SEED_LOGDIR:-/tmp}/seedtest-evidence-$PROP.json ]; then mv ${SEED_LOGDIR:-/tmp}/seedtest-evidence-$PROP.json evidence/$PROP.json; fi
echo "seed $ID vs $PROP ($TIER): exit $RC  $(grep -c '^VIOLATION' ${SEED_LOGDIR:-/tmp}/seedtest-$ID-$PROP.log) violation line(s)"
grep -E "^violation|^regression" ${SEED_LOGDIR:-/tmp}/seedtest-$ID-$PROP.log | head -3
exit $RC
