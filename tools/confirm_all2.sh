#!/bin/bash
# confirm_all2.sh C01 C03 ...   (round 2: variants C and D of each, in parallel per property)
for P in "$@"; do (
 for V in C D; do
  if [ -f /tmp/seed/out2-$P/$V/patch.diff ]; then
    ARGS=""; RF=""
    [ "$P-$V" = "C06-C" ] && ARGS="--features sort_keys"
    [ "$P-$V" = "C11-D" ] && ARGS="--features arbitrary_precision"
    [ "$P-$V" = "C17-D" ] && RF="-C target-cpu=x86-64"
    DEMO_ARGS="$ARGS" DEMO_RUSTFLAGS="$RF" /verif/tools/confirm_seed.sh /tmp/seed/out2-$P/$V /tmp/seed/r2-$P $P-$V 2>&1 | grep -E "CONFIRMED|REJECT|does not apply"
  fi
 done ) &
done; wait
