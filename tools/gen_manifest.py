#!/usr/bin/env python3
"""Regenerates /verif/MANIFEST.json from the table below (keep `not_applicable` current)."""
import json, os, re, subprocess

VERIF = os.path.dirname(os.path.dirname(os.path.abspath(__file__)))

CHECKS = {
 "C01": ("Generated and mutated inputs, wide and number-heavy documents, an alignment sweep and a nesting-depth sweep through ~60 safe entry points (owned results re-read after the input was unmapped, borrowed results re-read after their producer was dropped; a reduced run in the sort_keys build); a panic, a fatal signal (SIGSEGV/SIGABRT/stack overflow, captured by a signal handler that writes the replay file), an out-of-bounds access next to a guard page or a leak/double free seen by the counting allocator is a violation. Thorough adds a libFuzzer+ASan campaign with the same oracle.",
         "Trusts the guard-page placement and counting allocator of the harness, ASan/LSan in the thorough tier; absence beyond explored inputs is not claimed.",
         "property-based testing + coverage-guided fuzzing (libFuzzer/ASan) with crash, guard-page and allocation-ledger oracles"),
 "C02": ("Bounded-exhaustive enumeration (all token sequences up to length 6/7 over a 14-token alphabet, all number candidates up to length 5/6 in five contexts, long numbers x damage tails at every block position) plus generated and mutated documents, each through ~35 entry-point routes, compared with an independent RFC 8259 recogniser in both directions.",
         "Trusts the reference recogniser (self-tested against serde_json every run), std float parsing and proptest.",
         "property-based testing: exhaustive small-scope enumeration + proptest-driven generation/mutation against a reference recogniser"),
 "C03": ("Generated well-formed documents (duplicate keys, escapes, alignment prefixes), alignment sweeps and the repository's corpus files through six parse routes x {default, raw-number, lossy}; the DOM is walked through the public read API and compared node by node with an independent reference parse.",
         "Trusts the reference parser and std number parsing.",
         "property-based testing against a reference model (differential, per node)"),
 "C04": ("Type-directed differential testing: for each of ~60 target types, texts printed from generated values and then re-laid-out or damaged by near-miss mutations are deserialized by serde_json and sonic-rs; Ok/Err must agree and Ok values be equal, except for the documented differences.",
         "Trusts serde_json (float_roundtrip) as the oracle the property names; f32 expectations follow the property's narrowing rule.",
         "differential property-based testing against serde_json with a type-directed text generator"),
 "C05": ("Generated values of a 60-type family, an exhaustive positional string sweep (every escapable byte at every position, strings ending at / starting after guard pages) and random long strings through every writer, compared with an independent model serializer and the reference parser; fault enumeration with writers failing after n bytes.",
         "Trusts serde's data-model convention, the reference parser and the guard-page placement.",
         "property-based testing + fault enumeration (writer failing after n bytes) against a model serializer"),
 "C06": ("Generated documents through parse -> serialize -> parse -> serialize in the default, sort_keys and arbitrary_precision builds; reference trees of source and output compared (order, duplicates, integer digits, float bits, raw literals), fixpoint and Display/to_vec/pretty agreement.",
         "Trusts the reference parser and std float parsing.",
         "round-trip / fixpoint property-based testing with a reference tree comparison"),
 "C07": ("Exhaustive small-grammar literals, digit-count and exponent sweeps, exact decimal midpoints of adjacent doubles (big-decimal arithmetic) with perturbations, integer boundaries, SIMD digit-run placements, random literals and decorated map keys, through parse_number and every numeric target, compared with Rust std parsing bit for bit.",
         "Trusts Rust std str::parse for f64/f32/integers as correctly rounded.",
         "differential property-based testing against std::parse, incl. constructed halfway cases"),
 "C08": ("f32: every exponent x boundary mantissas plus a strided sample (all 2^32 patterns in thorough); f64: structured + random patterns; all u8/i8/u16/i16, boundary and random wider integers; each serialized and read back bit-identically, also through the DOM; raw numbers from literal generators incl. malformed and quoted candidates.",
         "Trusts std formatting/parsing as the readback oracle and the reference number grammar.",
         "round-trip property-based testing (exhaustive for f32 in the thorough tier)"),
 "C09": ("All 1,114,112 code points as escapes and raw UTF-8 (exhaustive), each well-formed and malformed string feature at every position 0..=130 of strings of many lengths in four placements and several offsets, random and damaged literals, through ~25 decoders in strict and lossy mode (also the utf8_lossy build), compared with the reference decoder applied to the whole document.",
         "Trusts the reference string decoder and String::from_utf8_lossy.",
         "exhaustive positional sweeps + property-based testing against a reference decoder"),
 "C10": ("Generated, skip-stress, many-small, bracket-burst, large multi-byte, wide-object, confusable-key and positional-sweep documents (native, sort_keys and baseline builds) x every path of the reference tree (cap 64) plus perturbed paths through 20 get/pointer variants (checked, unchecked, all carriers, DOM, lazy, owned-lazy); result must equal the reference lookup, raw text the exact source span (pointer arithmetic).",
         "Trusts the reference parser/lookup; unchecked variants run on well-formed input only.",
         "model-based property-based testing (reference lookup) with positional sweeps"),
 "C11": ("Generated documents with generated shape-consistent path sets (shared prefixes, repeats, root, missing keys) through get_many/get_many_unchecked compared slot by slot with the reference lookup and with get; generated schemas derived from the document skeleton through get_by_schema compared with a reference merge.",
         "Trusts the reference parser; path sets mixing key/index children under one prefix are outside the quantifier.",
         "property-based testing against a reference lookup/merge model"),
 "C12": ("Generated containers with trailing bytes, size sweeps, many-small and bracket-burst containers, random and systematic mutations through checked iterators over five carriers, unchecked iterators and LazyValue iterators (native and baseline builds); iterator adaptors (nth, skip, step_by, count, last, fold) must agree with plain iteration; yielded items compared with a reference scan of the leading well-formed members, exactly one error, latching.",
         "Trusts the reference scanner; tokenisation ambiguities (`00`, `1x`) and skip-valid-only members are accepted either way.",
         "property-based testing + exhaustive single-mutation sweeps against a reference scan"),
 "C13": ("Generated values of every type through LazyValue/OwnedLazyValue obtained from serde, struct fields, get, iterators, conversions and to_lazyvalue (default and arbitrary_precision builds): the accessor set, children and verbatim serialization are compared with the reference tree; generated operation histories on OwnedLazyValue are mirrored on a model.",
         "Trusts the reference parser; Display for OwnedLazyValue is not asserted.",
         "model-based property-based testing (views + operation histories)"),
 "C14": ("Mutated/truncated/garbage documents (native and baseline builds; incl. long damaged numbers, invalid UTF-8 inside strings, member names with raw control characters or quotes) (random double mutations and exhaustive single-mutation sweeps) x paths of the undamaged document through checked get over all carriers, get_many, get_by_schema and the checked iterators; every returned fragment must be a well-formed value inside the input whose preceding input is a prefix of a well-formed text.",
         "Trusts the reference scanner's prefix rule.",
         "property-based testing + exhaustive single-mutation sweeps with a validity predicate"),
 "C15": ("Operation histories over a heap of DOM values (parsed, cloned, taken, macro-built) covering the public array/object/entry/index/pointer API, exhaustive for short sequences over a small universe and random long ones, interpreted in lock-step with a Vec/BTreeMap model; every live slot is compared after every step.",
         "Trusts the plain model; starting documents are duplicate-free.",
         "stateful model-based property-based testing (exhaustive short histories + random long ones)"),
 "C16": ("Histories of parse / clone / take / insert / mutate / move-to-thread / drop over several documents incl. every drop order of small sharing shapes, under a counting allocator (leak, double free) with poisoning of freed memory, and thread stress with barriers; thorough adds libFuzzer+ASan over encoded histories.",
         "Thread interleavings are stress only; the allocation ledger and poisoning are the memory oracle in the quick tier, ASan/LSan in the thorough tier.",
         "stateful property-based testing with an allocation-ledger oracle, exhaustive drop orders, fuzzing with ASan"),
 "C17": ("The case streams of C02/C03/C05/C09/C10/C12 are replayed in three builds of the same tree (native AVX2+PCLMUL, baseline SSE2 + scalar fallbacks, forced portable array backend) and their per-case outcome digests compared line by line; every vector primitive is checked lane-wise against its scalar definition for all 256 byte values in every lane.",
         "NEON cannot be run here; trusts the scalar definitions of the primitives.",
         "differential (cross-build) property-based testing + exhaustive lane-wise checks of vector primitives"),
 "C18": ("All interleavings of 2-3 threads performing as_str/get/clone/drop on one shared LazyValue / OwnedLazyValue at the granularity of the atomic operations of the cache fields (hook-instrumented shim), with spurious weak-CAS failure as an extra choice, enumerated by DFS under a counting allocator.",
         "Sequentially consistent interleavings only; reorderings only a weak memory model allows are not explored.",
         "exhaustive schedule enumeration (controlled scheduler) with result and allocation-ledger oracles"),
 "C19": ("Generated values of the 60-type family: to_value vs from_str(to_string), from_value and from_str read-back, failure counterparts; equality laws on generated DOM pairs (parsed incl. duplicates, permuted, five constructions, near-equal), in the default and sort_keys builds.",
         "Trusts serde's data model; the f32 to_value-vs-text leg is a listed known finding.",
         "commutation / algebraic-law property-based testing"),
 "C20": ("Rejected inputs of the C02/C14 generators with multi-line layout through every error-returning entry point: offset <= len, line/column recomputed from the offset, Display/Debug never panic, NotFound only from lookups, streams and iterators latch after an error or the end.",
         "Trusts the documented line/column convention (line 1-based, column = bytes since the last newline).",
         "property-based testing with invariant oracles over error values"),
}

# which properties have a check registered in ./run
def planned():
    src = open(os.path.join(VERIF, "run")).read()
    m = re.search(r"PLAN = \{(.*?)\n\}", src, re.S)
    return sorted(set(re.findall(r'"(C\d+)":', m.group(1))))

def main():
    have = planned()
    checks = []
    for pid in have:
        text, note, tech = CHECKS[pid]
        level = "fault_enumeration" if pid == "C05" else ("model_checking" if pid == "C18" else "exploration")
        checks.append({
            "property_id": pid,
            "quick_cmd": f"./run {pid} quick",
            "thorough_cmd": f"./run {pid} thorough",
            "evidence_file": f"/verif/evidence/{pid}.json",
            "replay_cmd_template": "./target/chk/release/vcheck replay {path}",
            "engine": "vcheck",
            "level_claimed": {"category": "exploration" if level != "fault_enumeration" else "fault_enumeration", "text": text, "design_ref": f"DESIGN.md section 4 {pid}"},
            "level_note": note,
            "technique": tech,
        })
    hooks = []
    try:
        out = subprocess.run(["git", "-C", "/repo", "log", "--format=%h %s"], capture_output=True, text=True).stdout
        hooks = [l.split()[0] for l in out.splitlines() if l.split(" ", 1)[1].startswith("verif-hook:")]
    except Exception:
        pass
    m = {
        "version": 1,
        "setup_cmd": "./setup",
        "hooks": {
            "guard": "--cfg sonic_rs_verif (and --cfg sonic_rs_verif_portable for the portable SIMD backend build)",
            "enable": "RUSTFLAGS=\"... --cfg sonic_rs_verif\" set by ./run for every build configuration of the harness (sonic-rs is a path dependency on /repo)",
            "baseline_off_cmd": "cd /repo && cargo test --workspace --no-fail-fast --offline",
            "source_commits": hooks,
            "add_only": False,
        },
        "engines": [
            {"name": "vcheck", "path": "/verif/harness", "serves_properties": have, "kind_free_text": "Rust property-based testing harness: proptest-driven choice sequences with shrinking, bounded-exhaustive enumerators, an independent reference JSON implementation, model serializer and Vec/Map models as oracles, crash capture, guard pages, counting allocator"},
            {"name": "fuzz", "path": "/verif/harness/fuzz", "serves_properties": [p for p in ["C01", "C02", "C04", "C14", "C16"] if p in have], "kind_free_text": "cargo-fuzz (libFuzzer + ASan/LSan) targets whose body is the same oracle function as the in-process checks; used by the thorough tier"},
        ],
        "checks": checks,
        "notes": "See DESIGN.md. known_findings.jsonl lists repaired (fixed:) and recorded defects.",
        "not_applicable": [{"property_id": f"C{i:02d}", "reason": "check not built yet in this round (planned, see DESIGN.md section 4); property-based testing applies"} for i in range(1, 21) if f"C{i:02d}" not in have],
    }
    json.dump(m, open(os.path.join(VERIF, "MANIFEST.json"), "w"), indent=1)
    print("claimed:", have)

if __name__ == "__main__":
    main()
