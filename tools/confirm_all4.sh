#!/bin/bash
# confirm_all3.sh C03 C05 ...   (round 4: variants G and H of each, in parallel per property)
for P in "$@"; do (
 for V in G H; do
  if [ -f /tmp/seed/out4-$P/$V/patch.diff ]; then
    ARGS=""; RF=""
    [ "$P-$V" = "C10-F" ] && ARGS="--features sort_keys"
    [ "$P-$V" = "C13-E" ] && ARGS="--features arbitrary_precision"
    [ "$P-$V" = "C12-F" ] && RF="-C target-cpu=x86-64"
    [ "$P-$V" = "C17-E" ] && RF="-C target-cpu=x86-64"
    [ "$P-$V" = "C01-E" ] && ARGS="--features sort_keys"
    DEMO_ARGS="$ARGS" DEMO_RUSTFLAGS="$RF" /verif/tools/confirm_seed.sh /tmp/seed/out4-$P/$V /tmp/seed/r4-$P $P-$V 2>&1 | grep -E "CONFIRMED|REJECT|does not apply"
  fi
 done ) &
done; wait
