#!/usr/bin/env python3
"""One-off helper: inserts the 'Round 4' paragraphs into DESIGN.md section 4 (idempotent)."""
import re
P = {
"C03": "typed DOM targets `Object` / `Array` as whole input, struct field and later stream document (seed C03-H: `Object` of 32+ members converted to its hash-indexed form, order and duplicates lost); wide objects with repeated members; flat containers of 196,600..262,144 members (node buffers beyond the thread-local one); sub-check `huge`: one array and one object with 2^24 + 9 members whose elements are known by position, read through the public API at the positions around 2^24 and at the end (seed C03-G: the sibling index of a DOM node narrowed to 24 bits). The earlier \"arrays >= 2^29 elements are out of reach\" limit stands; 2^24 costs about 1 GB and 10 s and is in the quick tier.",
"C04": "number near-misses generated on the fly: an integer-valued exact tie of two adjacent doubles `(2m+1)*2^(e-1)` (20..28 digits) spelt with `.0`, `.000000`, `e0`, `.0e0`, a sticky digit (seed C04-G: truncation flag overwritten by the all-zero fraction); exponents around ±2^31 and ±2^32 with multi-digit mantissas (seed C04-H: saturating exponent plus mantissa offset overflowed `i32`).",
"C05": "no new machinery: `collect_seq` over a filtered iterator (special case 10) and the `deep` sub-check catch seeds C05-G and C05-H.",
"C06": "`large-utf8` documents (seed C06-G: `Display` streamed through 8 KiB blocks with `from_utf8_lossy`, a character straddling a block end became U+FFFD) and flat containers of ~200,000 members (seed C06-H: node buffer capped at the thread-local size) run through the full round-trip oracle.",
"C10": "every path is also built through the public conversions (`PointerNode::from(&str)`, `from(usize)`, `pointer![..]`) and must resolve like the `Key`/`Index` path; confusable names include numeric-looking ones (`\"0\"`, `\"42\"`, `\"007\"`, `\"+5\"`; seed C10-H); sub-check `scalars`: documents that are one scalar (strings ending in each kind of escape, numbers, literals) with and without surrounding whitespace and the empty path (seed C10-G: a `\\uXXXX` escape right before the closing quote at the end of the input).",
"C13": "numbers of every length (1..=40 integer digits × 0..=70 fraction digits) as members followed by a delimiter (seed C13-G: off-by-one of the number skipper when the fraction ends on the last lane of a block — mantissa lengths 34, 66, 98); history operation `clone_from` onto a value whose caches were filled, directly and through `Vec::clone_from` (seed C13-H: stale cache).",
"C15": "`clone_from` (directly and through `Vec<Value>::clone_from`) as a third way of putting a clone into a slot (seed C15-G: buffer-reusing `clone_from` kept stale members); `extend_from_within` with reversed and empty ranges beyond the length (seed C15-H).",
"C16": "long-stream operation extended by *large later document*: a small later-document value of one deserializer, then a 430 KB later-document value of another with the same member names, the small one dropped before the large one is read (seed C16-H: per-thread member-name table not cleared for large inputs). Seed C16-G repeats C01-D / C03-D and is caught by the raw-number deserializers added in round 2.",
"C19": "`from_value` of the parsed text — plain and raw-number parse — may fail but never yields a value different from x; raw-number and plain DOM of the same text are equal; C19 also runs in the `arbp` build (seed C19-H: 19-digit negatives below `i64::MIN` wrapped in the raw-number fast path).",
"C20": "streams over targets that only skip (parts of) the value (`IgnoredAny`, derived structs with unknown members, `LazyValue`, `Vec<IgnoredAny>`) must latch after the error too (seed C20-G: the UTF-8 check that follows a successfully read value did not set the latch); typed damage inserts strings and member names of 60..300 multi-byte characters at every alignment (seed C20-H: message cut at byte 256 inside a character, `Display` panicked).",
}
s = open('/verif/DESIGN.md').read()
for pid, text in P.items():
    marker = f"**Round 4 ({pid}).**"
    if marker in s:
        continue
    m = re.search(rf"^### {pid} — .*?(?=^### C\d\d — |^-{{20,}}\n\n## 5\.)", s, re.S | re.M)
    assert m, pid
    block = m.group(0).rstrip('\n')
    s = s[:m.start()] + block + f"\n{marker} {text}\n\n" + s[m.end():]
open('/verif/DESIGN.md', 'w').write(s)
print("ok")
