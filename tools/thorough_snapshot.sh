#!/bin/bash
# thorough_snapshot.sh C01 C02 ... — for `vp run --with-repo`: run thorough tiers inside a snapshot of /verif against a
# snapshot of /repo's HEAD ($VP_RUN_REPO), so that seed patches applied to /repo meanwhile do not disturb it.
# Results are for triage only (evidence must be produced in /verif against /repo itself).
set -u
if [ -n "${VP_RUN_REPO:-}" ]; then sed -i "s#\"/repo#\"$VP_RUN_REPO#g" harness/vcheck/Cargo.toml; fi
export VERIF_THREADS=${VERIF_THREADS:-6}
for P in "$@"; do
  S=$(date +%s)
  ./run $P thorough > thorough-$P.log 2>&1; RC=$?
  E=$(date +%s)
  echo "$P exit=$RC wall=$((E-S))s $(grep -c '^VIOLATION' thorough-$P.log) violations"
  grep -aE "^violation|^INCONCLUSIVE|^regression|^VIOLATION" thorough-$P.log | head -5 | cut -c1-600
done
