#!/usr/bin/env python3
"""One-off helper: records the mini round (variant G for ten more properties) in DESIGN.md (idempotent)."""
import json, re

P = {
"C02": "sub-check `history`: acceptance must not depend on what the same thread parsed before. A case is a sequence of 2..5 (shape, size, route) triples — one long string, dense single-digit array, dense empty containers, dense object, mixed scalars, pretty-printed numbers, nested pairs; 1 B..400 KB, sizes climbing a ladder in half of the cases; `from_slice` / `from_str` / `from_reader` / hand-built `Deserializer` — parsed into `Value` one after the other on a *fresh* thread, so that the thread-local node buffer of the DOM parser is a function of the case alone (which makes the history shrink: seed C02-G is reported as `[(one string, 9047 B), (digit array, 9052 B)]`). Every parse must succeed with the right member count.",
"C09": "every `LazyValue` whose text is compared with the reference is read four ways — through a copy taken *before* the value was ever read, through the value itself, through a copy taken afterwards, and through the value again after the first copy was dropped; all must agree (seed C09-G: `Clone` of a lazy value that has not been decoded yet dropped the has-escape flag, so the copy returned the raw spelling).",
"C11": "\"each filled slot holding exactly what get returns\" is now taken literally: besides the raw span, `as_str` of the slot, of a copy of the slot and of `get`'s result must be equal (and equal the reference decoding for a string target), `get_type` / `is_str` must agree, and slot and `get` result converted into `OwnedLazyValue` must read and serialize the same (seed C11-G: slots of a repeated path were filled with copies that lost the has-escape flag).",
"C12": "sub-check `escape-bytes` (exhaustive): every byte value 0..=255 at every position of an escape — the letter after the backslash, each hex digit of `\\\\u00e9`, each hex digit of the low half of a surrogate pair — with the string as element, element of a nested array, member value, member value two levels down and member name, after 0, 29 and 61 bytes of padding (seed C12-G: `c | 0x20` folding in the validating string skipper turned the control bytes 0x10..=0x19 into hex digits).",
"C17": "the transcripts additionally contain C07's halfway list (the midpoint of two adjacent doubles of every binary exponent, cut to 15..25 digits, extended, re-spelt; ≈ 370,000 literals) through the eager number routes only (`f64`, `f32`, `Value`): these are the inputs on which the extended-precision product of the float parser needs its second multiplication and its carry, i.e. where a backend-specific arithmetic helper shows. Seed C17-G (a BMI2 `mulx` helper returning the wrong half, native build only) was already caught by the generated documents of the first version; the addition makes that independent of luck.",
}

CAUGHT = {
"C01-G": "inputs/panic: `end byte index 8 is not a char boundary` (generated document with invalid UTF-8 and a line break in front of the error) — first version",
"C02-G": "C02/full/rejects-valid/after-history, shrunk to `[(one string, 9047 B), (digit array, 9052 B)]` — added after the first miss",
"C07-G": "C07/parse_number/float>19digits in the `halfway` sub-check (all-ones mantissa of every binary exponent, literal above the midpoint) — first version",
"C08-G": "C08/i128/text: `to_string(-9223372036854775809i128)` = `\"9223372036854775807\"` — first version (integer boundaries ±3 around 2^63, 2^64)",
"C09-G": "C09/lazy-copies-disagree/LazyValue — added after the first miss",
"C11-G": "C11/many/checked/get-disagrees-decoded — added after the first miss",
"C12-G": "C12/array/checked/extra-item on `[\"\",\"\\\\u\\\\x10e00\"` (`escape-bytes`) — added after the first miss",
"C14-G": "C14/schema/accepts-malformed (`mutated` documents through `get_by_schema`) — first version",
"C17-G": "C17/transcript-differs between `base` and `chk` on a generated document with a 20-digit float — first version",
"C18-G": "C18/lazy/leak-after-drop (2 allocations / 124 bytes remain after the shared value was dropped) — first version",
}

s = open('/verif/DESIGN.md').read()
for pid, text in P.items():
    marker = f"**Round 4b ({pid}).**"
    if marker in s:
        continue
    m = re.search(rf"^### {pid} — .*?(?=^### C\d\d — |^-{{20,}}\n\n## 5\.)", s, re.S | re.M)
    assert m, pid
    block = m.group(0).rstrip('\n')
    new = block + f"\n{marker} {text}\n\n"
    s = s[:m.start()] + new + s[m.end():]

if "### 5.6 Mini round" not in s:
    rows = []
    for sid, caught in CAUGHT.items():
        meta = json.load(open(f'/verif/seeded/{sid}/meta.json'))
        summ = " ".join(str(meta.get('summary', '')).split())
        if len(summ) > 230:
            summ = summ[:230] + "…"
        summ = summ.replace("|", "\\|")
        rows.append(f"| {sid} | {summ} | {caught} |")
    sec = """### 5.6 Mini round: one more change for each of the other ten properties

With the time that was left, one more change (`Cxx-G`) was requested for each of the ten properties that had
no fourth-round seed (C01, C02, C07, C08, C09, C11, C12, C14, C17, C18), same brief as round 4. **First pass:
6 of 10 caught** by the checks as they stood (C01, C07, C08, C14, C17, C18). The four misses were a parse
*history* on one thread (C02), a std-trait impl used *before* the first read (`Clone` of an undecoded
`LazyValue`: C09, C11) and a byte class no generator drew from (control bytes as hex digits: C12); see the
"Round 4b" paragraphs of section 4. **After strengthening: 10 of 10 are caught by the quick tier**, which
makes 149 active seeded changes in all. The seeds of the five changed checks were run again afterwards
(result at the end of this section).

| seed | what the change does (author's summary) | caught by (quick tier) |
|------|------------------------------------------|------------------------|
""" + "\n".join(rows) + "\n\n@@REGRESSION5@@\n\n"
    anchor = "The defects of section 3 are further sensitivity evidence"
    i = s.index(anchor)
    # section 5.6 goes after the paragraph that starts with the anchor
    j = s.index("\n\n", i) + 2
    s = s[:j] + sec + s[j:]

s = s.replace("F32); 139 seeded regressions in four rounds, all caught by the quick tier after strengthening (first-pass\nrates 31/40, 10/40, 8/40, 9/20), one more retired because a repair neutralised it.",
              "F32); 149 seeded regressions in four rounds and a mini round, all caught by the quick tier after strengthening\n(first-pass rates 31/40, 10/40, 8/40, 9/20, 6/10), one more retired because a repair neutralised it.")
s = s.replace("5. Sensitivity: the 140 independently seeded regressions (four rounds) and which check catches which", "5. Sensitivity: the 150 independently seeded regressions (four rounds and a mini round) and which check catches which")
s = s.replace('The "Round 2/3/4" paragraphs', 'The "Round 2/3/4/4b" paragraphs')
open('/verif/DESIGN.md', 'w').write(s)
print("ok")
