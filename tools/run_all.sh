#!/bin/bash
# run_all.sh [tier] [props...] — run registered checks on the current tree, summarise
TIER=${1:-quick}; shift
cd /verif
PROPS="$@"
if [ -z "$PROPS" ]; then PROPS=$(python3 -c "
import re
s=open('/verif/run').read(); m=re.search(r'PLAN = \{(.*?)\n\}', s, re.S)
print(' '.join(sorted(set(re.findall(r'\"(C\d+)\":', m.group(1))))))"); fi
for P in $PROPS; do
  S=$(date +%s)
  ./run $P $TIER > /tmp/runall-$P.log 2>&1; RC=$?
  E=$(date +%s)
  echo "$P exit=$RC wall=$((E-S))s $(grep -c '^VIOLATION' /tmp/runall-$P.log) violations; $(grep -c '^KNOWN-FINDING' /tmp/runall-$P.log) known"
  grep -E "^violation|^INCONCLUSIVE|^regression" /tmp/runall-$P.log | head -3
done
